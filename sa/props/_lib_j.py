"""Helpers shared by the C48-C54 checkers (batch J).  Stdlib + sa engine only."""
from __future__ import annotations

import ast
from typing import Callable, Dict, Iterable, List, Optional, Set, Tuple

from sa.astx import body_walk, dotted, src, walk_local
from sa.source import AnalysisError


# ---- names, parameters, local definitions ----------------------------------------------------

def params(func: ast.AST) -> List[str]:
    a = func.args
    return [x.arg for x in list(a.posonlyargs) + list(a.args)]


def bind_args(call: ast.Call, callee: ast.AST, skip_self: bool = False) -> Dict[str, ast.expr]:
    """Map the callee's parameter names to the argument expressions of ``call``."""
    names = params(callee)
    if skip_self and names and names[0] in ("self", "cls"):
        names = names[1:]
    out: Dict[str, ast.expr] = {}
    for n, a in zip(names, call.args):
        out[n] = a
    for k in call.keywords:
        if k.arg is not None:
            out[k.arg] = k.value
    return out


_MUTATORS = {"append", "appendleft", "extend", "add", "update", "insert", "sort", "reverse", "pop", "popleft", "remove", "clear",
             "setdefault", "discard", "popitem"}


def local_defs(func: ast.AST, track_mutation: bool = True) -> Dict[str, List[ast.expr]]:
    """name -> every expression assigned to that plain local name (``x = e``, ``with e as x``);
    for-targets / tuple targets / augmented assignments are recorded as ``None`` (opaque)."""
    out: Dict[str, List[Optional[ast.expr]]] = {}
    for n in body_walk(func):
        if track_mutation and isinstance(n, ast.Call) and isinstance(n.func, ast.Attribute) and isinstance(n.func.value, ast.Name) \
                and n.func.attr in _MUTATORS:
            out.setdefault(n.func.value.id, []).append(None)      # mutated container: not a pure value
        if isinstance(n, (ast.Assign, ast.AugAssign, ast.Delete)):
            for t in (n.targets if not isinstance(n, ast.AugAssign) else [n.target]):
                if isinstance(t, ast.Subscript) and isinstance(t.value, ast.Name):
                    out.setdefault(t.value.id, []).append(None)
        if isinstance(n, ast.Assign):
            for t in n.targets:
                if isinstance(t, ast.Name):
                    out.setdefault(t.id, []).append(n.value)
                elif isinstance(t, (ast.Tuple, ast.List)):
                    flat = all(isinstance(e, ast.Name) for e in t.elts)
                    if flat and isinstance(n.value, (ast.Tuple, ast.List)) and len(n.value.elts) == len(t.elts):
                        for e, v in zip(t.elts, n.value.elts):           # a, b = x, y
                            out.setdefault(e.id, []).append(v)
                    elif flat and not isinstance(n.value, (ast.Tuple, ast.List)):
                        for i, e in enumerate(t.elts):                    # a, b = parts   ->  a is parts[0], b is parts[1]
                            sub = ast.Subscript(value=n.value, slice=ast.Constant(value=i), ctx=ast.Load())
                            sub._unpacked_from = (n, len(t.elts))          # type: ignore[attr-defined]
                            out.setdefault(e.id, []).append(sub)
                    else:
                        for e in ast.walk(t):
                            if isinstance(e, ast.Name):
                                out.setdefault(e.id, []).append(None)
        elif isinstance(n, ast.AnnAssign) and isinstance(n.target, ast.Name) and n.value is not None:
            out.setdefault(n.target.id, []).append(n.value)
        elif isinstance(n, ast.AugAssign) and isinstance(n.target, ast.Name):
            out.setdefault(n.target.id, []).append(None)
        elif isinstance(n, (ast.For, ast.AsyncFor)):
            for e in ast.walk(n.target):
                if isinstance(e, ast.Name):
                    out.setdefault(e.id, []).append(None)
        elif isinstance(n, (ast.With, ast.AsyncWith)):
            for it in n.items:
                if isinstance(it.optional_vars, ast.Name):
                    out.setdefault(it.optional_vars.id, []).append(it.context_expr)
        elif isinstance(n, ast.NamedExpr) and isinstance(n.target, ast.Name):
            out.setdefault(n.target.id, []).append(n.value)
    return out


def clone(n):
    """Deep copy of an AST without the ``_parent`` back-links (copy.deepcopy would follow them and
    copy the whole module)."""
    if isinstance(n, ast.AST):
        new = n.__class__()
        for f in n._fields:
            if hasattr(n, f):
                setattr(new, f, clone(getattr(n, f)))
        for a in ("lineno", "col_offset", "end_lineno", "end_col_offset"):
            if hasattr(n, a):
                setattr(new, a, getattr(n, a))
        return new
    if isinstance(n, list):
        return [clone(x) for x in n]
    return n


class _Subst(ast.NodeTransformer):
    def __init__(self, defs, keep, depth):
        self.defs = defs
        self.keep = keep
        self.depth = depth

    def visit_Name(self, node):
        if isinstance(node.ctx, ast.Load) and node.id not in self.keep:
            vs = self.defs.get(node.id)
            if vs and len(vs) == 1 and vs[0] is not None and self.depth > 0:
                sub = _Subst(self.defs, self.keep | {node.id}, self.depth - 1)
                return sub.visit(clone(vs[0]))
        return node

    def visit_Lambda(self, node):
        return node


def resolve(expr: ast.AST, func_or_defs, keep: Iterable[str] = (), depth: int = 8) -> ast.AST:
    """Copy of ``expr`` in which every local that has exactly one plain definition in the function is
    replaced by that definition (recursively).  Parameters and multiply-defined names stay names.
    The result is only meaningful for comparison of *provenance*, not for evaluation order."""
    defs = func_or_defs if isinstance(func_or_defs, dict) else local_defs(func_or_defs)
    keep = set(keep)
    if not isinstance(func_or_defs, dict):
        keep |= set(params(func_or_defs)) if hasattr(func_or_defs, "args") else set()
    return _Subst(defs, keep, depth).visit(clone(expr))


def rsrc(expr, func_or_defs, keep=()) -> str:
    return src(resolve(expr, func_or_defs, keep))


def names_loaded(node: ast.AST) -> Set[str]:
    return {n.id for n in ast.walk(node) if isinstance(n, ast.Name)}


# ---- taint (flow-insensitive, intra-procedural) ------------------------------------------------

def taint(func: ast.AST, seeds: Iterable[str]) -> Set[str]:
    """Local names whose value may derive from one of ``seeds`` (assignment / for / with /
    ``x[k] = tainted`` / ``x.append(tainted)``)."""
    t = set(seeds)
    changed = True
    nodes = list(body_walk(func))
    while changed:
        changed = False

        def add(target):
            nonlocal changed
            for e in ast.walk(target):
                if isinstance(e, ast.Name) and e.id not in t:
                    t.add(e.id)
                    changed = True

        for n in nodes:
            if isinstance(n, ast.Assign) and names_loaded(n.value) & t:
                for tg in n.targets:
                    if isinstance(tg, ast.Subscript):
                        add(tg.value)
                    else:
                        add(tg)
            elif isinstance(n, (ast.AnnAssign, ast.AugAssign)) and n.value is not None and names_loaded(n.value) & t:
                add(n.target)
            elif isinstance(n, (ast.For, ast.AsyncFor)) and names_loaded(n.iter) & t:
                add(n.target)
            elif isinstance(n, (ast.With, ast.AsyncWith)):
                for it in n.items:
                    if it.optional_vars is not None and names_loaded(it.context_expr) & t:
                        add(it.optional_vars)
            elif isinstance(n, ast.Call) and isinstance(n.func, ast.Attribute) and n.func.attr in ("append", "extend", "add", "update", "insert", "setdefault"):
                if any(names_loaded(a) & t for a in n.args) and isinstance(n.func.value, ast.Name):
                    add(n.func.value)
    return t


# ---- try / handler structure -------------------------------------------------------------------

def enclosing_trys(node: ast.AST, func: ast.AST) -> List[Tuple[ast.Try, str]]:
    """Innermost-first list of (Try, part) where part in body/handlers/orelse/finalbody says in which
    part of that try statement ``node`` lives; stops at ``func``."""
    out = []
    child = node
    p = getattr(node, "_parent", None)
    while p is not None and child is not func:
        if isinstance(p, ast.Try):
            part = None
            for name in ("body", "orelse", "finalbody"):
                if any(child is s for s in getattr(p, name)):
                    part = name
            if part:
                out.append((p, part))
        elif isinstance(p, ast.ExceptHandler):
            gp = getattr(p, "_parent", None)
            if isinstance(gp, ast.Try):
                out.append((gp, "handlers"))
                child = gp
                p = getattr(gp, "_parent", None)
                continue
        child = p
        p = getattr(p, "_parent", None)
    return out


def handler_names(h: ast.ExceptHandler) -> List[str]:
    if h.type is None:
        return ["<bare>"]
    elts = h.type.elts if isinstance(h.type, ast.Tuple) else [h.type]
    return [(dotted(e) or src(e)) for e in elts]


EXC_FAMILY = {
    # exception actually raised -> handler names that catch it
    "binascii.Error": {"binascii.Error", "Error", "ValueError", "Exception", "BaseException", "<bare>"},
    "ValueError": {"ValueError", "Exception", "BaseException", "<bare>"},
    "UnicodeDecodeError": {"UnicodeDecodeError", "UnicodeError", "ValueError", "Exception", "BaseException", "<bare>"},
    "UnicodeEncodeError": {"UnicodeEncodeError", "UnicodeError", "ValueError", "Exception", "BaseException", "<bare>"},
    "UnicodeError": {"UnicodeError", "ValueError", "Exception", "BaseException", "<bare>"},
    "KeyError": {"KeyError", "LookupError", "Exception", "BaseException", "<bare>"},
    "IndexError": {"IndexError", "LookupError", "Exception", "BaseException", "<bare>"},
    "OSError": {"OSError", "IOError", "EnvironmentError", "Exception", "BaseException", "<bare>"},
    "BaseException": {"BaseException", "<bare>"},
    "Exception": {"Exception", "BaseException", "<bare>"},
}


def catching_handler(node: ast.AST, func: ast.AST, exc: str) -> Optional[ast.ExceptHandler]:
    """The handler that receives exception ``exc`` raised at ``node`` (innermost try whose body
    contains the node and that has a covering handler), or None when it escapes the function."""
    fam = EXC_FAMILY[exc]
    for t, part in enclosing_trys(node, func):
        if part != "body":
            continue
        for h in t.handlers:
            if set(handler_names(h)) & fam:
                return h
    return None


# ---- guards --------------------------------------------------------------------------------------

def asserted_eq(test: ast.AST, lab: str) -> Optional[Tuple[ast.expr, ast.expr]]:
    """(lhs, rhs) when taking edge ``lab`` of atomic test ``test`` establishes lhs == rhs."""
    if isinstance(test, ast.Compare) and len(test.ops) == 1:
        op = test.ops[0]
        if (isinstance(op, ast.Eq) and lab == "T") or (isinstance(op, ast.NotEq) and lab == "F"):
            return test.left, test.comparators[0]
    return None


def asserted_in(test: ast.AST, lab: str) -> Optional[Tuple[ast.expr, ast.expr]]:
    if isinstance(test, ast.Compare) and len(test.ops) == 1:
        op = test.ops[0]
        if (isinstance(op, ast.In) and lab == "T") or (isinstance(op, ast.NotIn) and lab == "F"):
            return test.left, test.comparators[0]
    return None


def asserted_is(test: ast.AST, lab: str) -> Optional[Tuple[ast.expr, ast.expr, bool]]:
    """(lhs, rhs, positive): edge establishes ``lhs is rhs`` (positive) or ``lhs is not rhs``."""
    if isinstance(test, ast.Compare) and len(test.ops) == 1:
        op = test.ops[0]
        if isinstance(op, (ast.Is, ast.IsNot)):
            pos = isinstance(op, ast.Is) == (lab == "T")
            return test.left, test.comparators[0], pos
    return None


def edge_asserts(g, n: int):
    """[(test ast, label)] for the dominating test edges of node n."""
    return [(g.node(t).ast, lab) for t, lab in g.edge_guards(n)]


def normal_exits(g) -> List[int]:
    """CFG nodes with an edge into the normal exit (returns and fall-off-the-end)."""
    return [p for p, l in g.pred[g.exit] if g.reachable(p)]


def node_calls(g, pred: Callable[[ast.Call], bool]) -> List[Tuple[int, ast.Call]]:
    """(cfg node, call) for every call in a reachable node's own expressions satisfying pred."""
    out = []
    for n in g.nodes:
        if n.ast is None or n.kind in ("join", "with_exit", "handler") or not g.reachable(n.id):
            continue
        if n.kind == "for":
            roots = [n.ast.iter]
        elif n.kind == "with":
            roots = [it.context_expr for it in n.ast.items]
        elif isinstance(n.ast, (ast.FunctionDef, ast.AsyncFunctionDef, ast.ClassDef)):
            # a nested definition executes only its decorators / defaults here, not its body
            roots = list(n.ast.decorator_list)
            if not isinstance(n.ast, ast.ClassDef):
                roots += [d for d in list(n.ast.args.defaults) + list(n.ast.args.kw_defaults) if d is not None]
        else:
            roots = [n.ast]
        for r in roots:
            for x in walk_local(r):
                if isinstance(x, ast.Call) and pred(x):
                    out.append((n.id, x))
    return out


def no_exc(a, b, l):
    return l != "exc"


def all_paths(g, start: int, stops: Set[int], edge_ok=no_exc, limit: int = 4000) -> List[List[int]]:
    """All simple paths from start to any node in ``stops`` (acyclic enumeration with a cap)."""
    out: List[List[int]] = []
    stack = [(start, [start])]
    while stack:
        n, path = stack.pop()
        if n in stops and len(path) > 1:
            out.append(path)
            continue
        for b, l in g.succ[n]:
            if edge_ok is not None and not edge_ok(n, b, l):
                continue
            if b in path:
                continue
            if len(out) + len(stack) > limit:
                raise AnalysisError("path enumeration exceeded its cap")
            stack.append((b, path + [b]))
    return out


def is_self_attr(node, name=None, recv="self"):
    return (isinstance(node, ast.Attribute) and isinstance(node.value, ast.Name) and node.value.id == recv
            and (name is None or node.attr == name))


def funcs_in_class(cls: ast.ClassDef):
    """(qualified suffix, function) for methods and their nested functions/lambdas."""
    out = []

    def rec(node, prefix):
        for ch in ast.iter_child_nodes(node):
            if isinstance(ch, (ast.FunctionDef, ast.AsyncFunctionDef)):
                out.append((prefix + ch.name, ch))
                rec(ch, prefix + ch.name + ".")
            elif isinstance(ch, ast.Lambda):
                out.append((prefix + "<lambda>", ch))
                rec(ch, prefix + "<lambda>.")
            elif isinstance(ch, ast.ClassDef):
                continue
            else:
                rec(ch, prefix)
    rec(cls, cls.name + ".")
    return out


# ---- sections / shared state -----------------------------------------------------------------------

class State:
    """Values handed from one rule group to the next; a value that an earlier (failed) group did not
    produce reads as None and ``dep`` turns its use into an AnalysisError of the *dependent* group only."""

    def __getattr__(self, name):
        return None


def dep(value, what: str):
    if value is None:
        raise AnalysisError(f"depends on an unreadable earlier group: {what}")
    return value


def run_sections(ctx, sections):
    """sections: [(name, fn(ctx, S))]; each runs inside ``ctx.section(name)`` (when the engine offers it)."""
    S = State()
    for name, fn in sections:
        try:
            if hasattr(ctx, "section"):
                with ctx.section(name):
                    fn(ctx, S)
            else:
                fn(ctx, S)
        except AnalysisError:
            raise
        except Exception as e:  # noqa: BLE001 - an analyser slip in one group must not mask the verdicts of the others
            if not hasattr(ctx, "errors"):
                raise
            ctx.errors.append(f"[{name}] analyser slip: {type(e).__name__}: {e}")
    return S


# ---- "the body is entered on every call" -----------------------------------------------------------

_TRANSPARENT = {"overload", "typing.overload", "abstractmethod", "abc.abstractmethod", "staticmethod", "classmethod", "final", "typing.final"}


def body_always_entered(ctx, rel: str, quals: Iterable[str], rule: str, modprefix: str, why: str, allow: Iterable[str] = ()) -> None:
    """Every rule of a property reasons about the *body* of its anchor functions (dominance, must-pass).
    That reasoning is void if a call can be answered without entering the body: a decorator that may
    short-circuit (functools.lru_cache / cache / cached_property / any unknown wrapper), a second
    definition of the same name, or a later rebinding ``name = wrapper(name)`` in the class / module.
    One obligation per anchor."""
    mod = ctx.mod(rel)
    allow = set(allow) | _TRANSPARENT
    for qual in quals:
        defs_ = [d for d in mod.find_all(qual) if isinstance(d, (ast.FunctionDef, ast.AsyncFunctionDef))]
        if not defs_:
            raise AnalysisError(f"anchor vanished: function {rel}:{qual}")
        where = f"{modprefix}.{qual}"
        real = [d for d in defs_ if not any((dotted(x.func if isinstance(x, ast.Call) else x) or "") in ("overload", "typing.overload") for x in d.decorator_list)]
        bad = []
        for d in real:
            for x in d.decorator_list:
                nm = dotted(x.func if isinstance(x, ast.Call) else x) or src(x)
                if nm not in allow:
                    bad.append("@" + src(x))
        name = qual.split(".")[-1]
        owner = getattr(real[0], "_parent", None) if real else None
        rebound = []
        if owner is not None:
            for st in getattr(owner, "body", []):
                tg = st.targets if isinstance(st, ast.Assign) else ([st.target] if isinstance(st, (ast.AnnAssign, ast.AugAssign)) else [])
                if any(isinstance(t, ast.Name) and t.id == name for t in tg):
                    rebound.append(src(st))
        if isinstance(owner, ast.ClassDef):
            for st in ast.walk(mod.tree):
                if isinstance(st, ast.Assign) and any(isinstance(t, ast.Attribute) and t.attr == name and dotted(t.value) == owner.name for t in st.targets):
                    rebound.append(src(st))
                if isinstance(st, ast.Call) and dotted(st.func) == "setattr" and len(st.args) >= 2 and dotted(st.args[0]) == owner.name \
                        and isinstance(st.args[1], ast.Constant) and st.args[1].value == name:
                    rebound.append(src(st))
        problems = bad + (["defined %d times" % len(real)] if len(real) > 1 else []) + ["rebound: " + r for r in rebound]
        ctx.check(not problems, rule, where,
                  f"{name} can return without executing its body ({'; '.join(problems)}): {why}")


# =====================================================================================================
# Normalising pre-pass: the rules read a module in which private helpers are expanded at their call
# sites, loops over constant tuples are unrolled and helper definitions that were expanded everywhere
# are removed.  Nothing is executed; the original /repo text is untouched.
# =====================================================================================================

class _NoInline(Exception):
    pass


def _terminates(stmts) -> bool:
    if not stmts:
        return False
    last = stmts[-1]
    if isinstance(last, (ast.Return, ast.Raise, ast.Continue, ast.Break)):
        return True
    if isinstance(last, ast.If):
        return bool(last.orelse) and _terminates(last.body) and _terminates(last.orelse)
    if isinstance(last, ast.Try) and not last.finalbody:
        return (_terminates(last.orelse) if last.orelse else _terminates(last.body)) and all(_terminates(h.body) for h in last.handlers)
    return False


_TMP_COUNTER = [0]


def _has_return(node) -> bool:
    return any(isinstance(x, ast.Return) for x in walk_local(node))


def _structure_returns(stmts, on_return):
    """Helper body -> statements without ``return``: ``on_return(value)`` yields what replaces ``return value``; code that follows a
    compound statement which may return is moved into the branches that fall through (continuation copying)."""
    out = []
    for i, st in enumerate(stmts):
        if isinstance(st, ast.Return):
            out.extend(on_return(st.value))
            return out
        if isinstance(st, ast.If) and _has_return(st):
            rest = stmts[i + 1:]
            body = _structure_returns(list(st.body) + ([] if _terminates(st.body) else clone(rest)), on_return)
            orelse = _structure_returns(list(st.orelse) + ([] if (st.orelse and _terminates(st.orelse)) else clone(rest)), on_return)
            out.append(ast.If(test=st.test, body=body or [ast.Pass()], orelse=orelse))
            return out
        if isinstance(st, ast.Try) and _has_return(st) and not st.finalbody:
            rest = stmts[i + 1:]
            if any(_has_return(b) for b in st.body[:-1]) or (st.body and not isinstance(st.body[-1], ast.Return) and _has_return(st.body[-1])):
                raise _NoInline("return in the middle of a try body")
            body_returns = bool(st.body) and isinstance(st.body[-1], ast.Return)
            if body_returns:
                # `try: ...; return v` == `try: ... else: return v` as far as the handlers' coverage of `...` goes (v must not raise: simple values only)
                v = st.body[-1].value
                if v is not None and not isinstance(v, (ast.Constant, ast.Name, ast.Attribute)):
                    # `try: ...; return E` with E computed: E stays under the handlers, its value is returned from the else branch
                    _TMP_COUNTER[0] += 1
                    tmp = f"_tryret{_TMP_COUNTER[0]}"
                    body = list(st.body[:-1]) + [ast.Assign(targets=[ast.Name(id=tmp, ctx=ast.Store())], value=v)]
                    orelse_src = [ast.Return(value=ast.Name(id=tmp, ctx=ast.Load()))]
                else:
                    body = list(st.body[:-1]) or [ast.Pass()]
                    orelse_src = [st.body[-1]]
            else:
                body = list(st.body)
                orelse_src = list(st.orelse) + ([] if (st.orelse and _terminates(st.orelse)) else clone(rest))
            handlers = []
            for h in st.handlers:
                hb = _structure_returns(list(h.body) + ([] if _terminates(h.body) else clone(rest)), on_return)
                handlers.append(ast.ExceptHandler(type=h.type, name=h.name, body=hb or [ast.Pass()]))
            orelse = _structure_returns(orelse_src, on_return)
            out.append(ast.Try(body=body, handlers=handlers, orelse=orelse, finalbody=[]))
            return out
        if isinstance(st, ast.Try) and st.finalbody and _has_return(st):
            if any(_has_return(x) for x in st.finalbody) or st.handlers or st.orelse:
                raise _NoInline("return inside try/finally with handlers")
            # try: <A>; return v  finally: <F>   ==   try: <A> finally: <F>; <on_return(v)>   (v simple)
            if not (st.body and isinstance(st.body[-1], ast.Return)) or any(_has_return(b) for b in st.body[:-1]):
                raise _NoInline("return in the middle of try/finally")
            v = st.body[-1].value
            if v is not None and not isinstance(v, (ast.Constant, ast.Name, ast.Attribute)):
                raise _NoInline("try/finally returns a computed value")
            out.append(ast.Try(body=list(st.body[:-1]) or [ast.Pass()], handlers=[], orelse=[], finalbody=st.finalbody))
            out.extend(on_return(v))
            return out
        if isinstance(st, (ast.With, ast.AsyncWith)) and _has_return(st):
            if not (st.body and isinstance(st.body[-1], ast.Return)) or any(_has_return(b) for b in st.body[:-1]):
                raise _NoInline("return in the middle of a with block")
            v = st.body[-1].value
            if v is not None and not isinstance(v, (ast.Constant, ast.Name, ast.Attribute)):
                raise _NoInline("with block returns a computed value")
            out.append(type(st)(items=st.items, body=list(st.body[:-1]) or [ast.Pass()]))
            out.extend(on_return(v))
            return out
        if _has_return(st):
            raise _NoInline("return inside a loop")
        out.append(st)
    return out


def _as_expression(stmts):
    """if/return-only body -> one expression (nested conditional expressions)."""
    stmts = [s for s in stmts if not (isinstance(s, ast.Expr) and isinstance(s.value, ast.Constant)) and not isinstance(s, ast.Pass)]
    if not stmts:
        return ast.Constant(None)
    st = stmts[0]
    if isinstance(st, ast.Return):
        return st.value if st.value is not None else ast.Constant(None)
    if isinstance(st, ast.If):
        if _terminates(st.body) and not st.orelse:
            return ast.IfExp(test=st.test, body=_as_expression(st.body), orelse=_as_expression(stmts[1:]))
        if st.orelse and _terminates(st.body) and _terminates(st.orelse):
            return ast.IfExp(test=st.test, body=_as_expression(st.body), orelse=_as_expression(st.orelse))
    raise _NoInline("helper body is not an if/return expression")


def _simple_expr(e) -> bool:
    while isinstance(e, ast.Attribute):
        e = e.value
    return isinstance(e, (ast.Name, ast.Constant))


class _Rename(ast.NodeTransformer):
    def __init__(self, mapping, rename):
        self.mapping, self.rename = mapping, rename

    def visit_Name(self, node):
        if node.id in self.mapping and isinstance(node.ctx, ast.Load):
            return clone(self.mapping[node.id])
        if node.id in self.rename:
            return ast.Name(id=self.rename[node.id], ctx=node.ctx)
        return node

    def visit_arg(self, node):
        return node


class Normaliser:
    """``Normaliser(mod, known)``: ``known`` = names of functions the rules look up themselves (never expanded)."""

    def __init__(self, mod, known: Iterable[str], depth: int = 4, scope: Optional[Iterable[str]] = None):
        """``scope``: qualified names ("Class", "Class.method", "function") whose bodies are normalised (default: the whole module)."""
        self.mod, self.known, self.depth = mod, set(known), depth
        self.scope = set(scope) if scope is not None else None
        self.count = 0
        self.scalarised: List[str] = []
        self.inlined: Dict[str, int] = {}
        self.refused: Dict[str, str] = {}
        self.methods: Dict[str, List[Tuple[ast.ClassDef, ast.FunctionDef]]] = {}
        for c in ast.walk(mod.tree):
            if isinstance(c, ast.ClassDef):
                for st in c.body:
                    if isinstance(st, ast.FunctionDef):
                        self.methods.setdefault(st.name, []).append((c, st))
        self.functions = {st.name: st for st in mod.tree.body if isinstance(st, ast.FunctionDef)}

    # ---- which calls are expanded ---------------------------------------------------------------
    def _helper_name_ok(self, name):
        return name.startswith("_") and not name.startswith("__") and name not in self.known

    def callee(self, call):
        """(helper def, receiver expr or None, 'method'|'static'|'function') for a call of an expandable private helper."""
        if not isinstance(call, ast.Call):
            return None
        f = call.func
        if isinstance(f, ast.Attribute) and self._helper_name_ok(f.attr) and len(self.methods.get(f.attr, [])) == 1 and _simple_expr(f.value):
            cls, h = self.methods[f.attr][0]
            decos = [(dotted(d) or src(d)).split(".")[-1] for d in h.decorator_list]
            recv_is_class = isinstance(f.value, ast.Name) and f.value.id == cls.name
            if decos == ["staticmethod"]:
                return h, None, "static"
            if decos == ["classmethod"]:
                return h, ast.Name(id=cls.name, ctx=ast.Load()), "method"       # cls is bound to the defining class
            if decos:
                return None
            if recv_is_class:
                return h, None, "unbound"
            return h, f.value, "method"
        if isinstance(f, ast.Name) and self._helper_name_ok(f.id) and f.id in self.functions and not self.functions[f.id].decorator_list:
            return self.functions[f.id], None, "function"
        return None

    def cm_callee(self, call):
        """like callee(), for a private helper decorated with exactly @contextmanager whose generator body has the one-yield shape read by _expand_with"""
        if not isinstance(call, ast.Call):
            return None
        f = call.func
        h = recv = kind = None
        if isinstance(f, ast.Attribute) and self._helper_name_ok(f.attr) and len(self.methods.get(f.attr, [])) == 1 and _simple_expr(f.value):
            cls, h = self.methods[f.attr][0]
            if isinstance(f.value, ast.Name) and f.value.id == cls.name:
                return None
            recv, kind = f.value, "method"
        elif isinstance(f, ast.Name) and self._helper_name_ok(f.id) and f.id in self.functions:
            h, kind = self.functions[f.id], "function"
        if h is None or [(dotted(d) or src(d)).split(".")[-1] for d in h.decorator_list] != ["contextmanager"]:
            return None
        return h, recv, kind

    def _expand_with(self, st, level):
        """``with self._helper(..) as v: BODY`` for a private @contextmanager generator with a single ``yield`` statement that every run reaches exactly once
        (top level of the generator, or nested in with / try blocks only): BODY takes the place of the yield, ``v`` is bound to the yielded value.  That is
        what contextlib does: an exception of BODY is raised at the yield, a normal end of BODY resumes after it."""
        if not (isinstance(st, ast.With) and len(st.items) == 1):
            return None
        call = st.items[0].context_expr
        got = self.cm_callee(call)
        if got is None:
            return None
        h = got[0]
        ys = [x for x in walk_local(h) if isinstance(x, (ast.Yield, ast.YieldFrom))]
        if len(ys) != 1 or isinstance(ys[0], ast.YieldFrom) or any(isinstance(x, ast.Return) for x in walk_local(h)):
            raise _NoInline("context manager generator without the one-yield shape")
        ystmt = getattr(ys[0], "_parent", None)
        if not isinstance(ystmt, ast.Expr):
            raise _NoInline("yield used as an expression")
        p = getattr(ystmt, "_parent", None)
        while p is not None and p is not h:
            if not isinstance(p, (ast.With, ast.Try)) or (isinstance(p, ast.Try) and not any(x is ystmt or any(y is ystmt for y in ast.walk(x)) for x in p.body)):
                raise _NoInline("yield under a branch / loop / handler")
            p = getattr(p, "_parent", None)
        if p is not h:
            raise _NoInline("yield not located")
        pre, body = self._body(call, got=got, allow_yield=True)
        var = st.items[0].optional_vars
        done = [False]

        def subst(stmts):
            out = []
            for x in stmts:
                if isinstance(x, ast.Expr) and isinstance(x.value, ast.Yield):
                    if var is not None:
                        out.append(ast.Assign(targets=[var], value=x.value.value if x.value.value is not None else ast.Constant(None)))
                    elif x.value.value is not None and not _simple_expr(x.value.value):
                        out.append(ast.Expr(x.value.value))
                    out.extend(st.body)
                    done[0] = True
                    continue
                for fld in ("body", "orelse", "finalbody"):
                    v = getattr(x, fld, None)
                    if isinstance(v, list) and v and isinstance(v[0], ast.stmt):
                        setattr(x, fld, subst(v))
                out.append(x)
            return out
        new = pre + subst(body)
        if not done[0]:
            raise _NoInline("yield not located")
        self._fix(new, st)
        return self.stmts(new, level + 1)

    def _bind(self, h, recv, kind, call, allow_yield=False):
        a = h.args
        if a.vararg is not None and (a.kwarg or a.kwonlyargs):
            raise _NoInline("variadic")
        if a.kwarg or a.kwonlyargs or any(k.arg is None for k in call.keywords) or any(isinstance(x, ast.Starred) for x in call.args):
            raise _NoInline("variadic call")
        banned = (ast.Await, ast.Global, ast.Nonlocal) if allow_yield else (ast.Yield, ast.YieldFrom, ast.Await, ast.Global, ast.Nonlocal)
        if any(isinstance(x, banned) for st in h.body for x in ast.walk(st)):
            raise _NoInline("generator / global")
        ps = [x.arg for x in list(a.posonlyargs) + list(a.args)]
        defaults = dict(zip(ps[len(ps) - len(a.defaults):], a.defaults))
        actual = {}
        args = list(call.args)
        if kind == "method":
            if not ps:
                raise _NoInline("method without self")
            actual[ps[0]] = recv
            rest = ps[1:]
        else:
            rest = ps
        star = None
        if len(args) > len(rest):
            if a.vararg is None:
                raise _NoInline("too many arguments")
            star = args[len(rest):]
            args = args[:len(rest)]
        elif a.vararg is not None:
            star = []
        for pn, av in zip(rest, args):
            actual[pn] = av
        for k in call.keywords:
            actual[k.arg] = k.value
        for pn in ps:
            if pn not in actual:
                if pn in defaults:
                    actual[pn] = defaults[pn]
                else:
                    raise _NoInline("missing argument")
        if star is not None:
            actual[a.vararg.arg] = ast.Tuple(elts=list(star), ctx=ast.Load())
        return actual

    def _body(self, call, got=None, allow_yield=False):
        h, recv, kind = got or self.callee(call)
        actual = self._bind(h, recv, kind, call, allow_yield)
        self.count += 1
        tag = f"__i{self.count}"
        body = [s for s in h.body if not (isinstance(s, ast.Expr) and isinstance(s.value, ast.Constant) and isinstance(s.value.value, str))]
        body = clone(body)
        assigned = {x.id for st in body for x in ast.walk(st) if isinstance(x, ast.Name) and isinstance(x.ctx, (ast.Store, ast.Del))}
        assigned |= {x.name for st in body for x in ast.walk(st) if isinstance(x, (ast.FunctionDef, ast.AsyncFunctionDef))}
        pre, mapping = [], {}
        for pn, av in actual.items():
            simple = _simple_expr(av) or isinstance(av, ast.Lambda) or (isinstance(av, ast.Tuple) and all(_simple_expr(e) or isinstance(e, ast.Constant) for e in av.elts))
            if pn in assigned or not simple:
                nm = pn + tag
                pre.append(ast.Assign(targets=[ast.Name(id=nm, ctx=ast.Store())], value=clone(av)))
                mapping[pn] = ast.Name(id=nm, ctx=ast.Load())
            else:
                mapping[pn] = av
        rename = {n: n + tag for n in assigned if n not in mapping}
        sub = _Rename(mapping, rename)
        body = [sub.visit(st) for st in body]
        for st in body:
            for x in ast.walk(st):
                if isinstance(x, (ast.FunctionDef, ast.AsyncFunctionDef)) and x.name in rename:
                    x.name = rename[x.name]
        self.inlined[h.name] = self.inlined.get(h.name, 0) + 1
        return pre, body

    # ---- method objects: `x = _Private(..)` that never leaves the function -------------------------------------------
    def _method_object_class(self, name):
        """the module-level private class ``name`` when it is a plain method object: no bases / decorators, only undecorated methods taking self, and self
        only ever used as ``self.<field>`` / ``self.<method>(..)``; returns (ClassDef, fields, methods) or None"""
        c = next((x for x in self.mod.tree.body if isinstance(x, ast.ClassDef) and x.name == name), None)
        if c is None or not self._helper_name_ok(name) or c.bases or c.keywords or c.decorator_list:
            return None
        methods = {}
        for st in c.body:
            if isinstance(st, ast.Expr) and isinstance(st.value, ast.Constant):
                continue
            if isinstance(st, ast.Assign) and [src(t) for t in st.targets] == ["__slots__"]:
                continue
            if not isinstance(st, ast.FunctionDef) or st.decorator_list or not st.args.args or st.args.args[0].arg != "self":
                return None
            if st.name.startswith("__") and st.name not in ("__init__", "__call__"):
                return None
            methods[st.name] = st
        fields = set()
        for m in methods.values():
            for x in ast.walk(m):
                if isinstance(x, ast.Attribute) and isinstance(x.value, ast.Name) and x.value.id == "self" and isinstance(x.ctx, (ast.Store, ast.Del)):
                    fields.add(x.attr)
        if fields & set(methods):
            return None
        for m in methods.values():
            if not self._only_fields_and_calls(m, "self", fields, methods, skip=m.args.args[0]):
                return None
        return c, fields, methods

    @staticmethod
    def _only_fields_and_calls(root, var, fields, methods, skip=None):
        """every occurrence of the name ``var`` under ``root`` is ``var.<field>`` or the receiver of ``var.<method>(..)``"""
        for x in ast.walk(root):
            for ch in ast.iter_child_nodes(x):
                if isinstance(ch, ast.Name) and ch.id == var and ch is not skip:
                    if not isinstance(x, ast.Attribute):
                        return False
                    if x.attr in fields:
                        continue
                    par = getattr(x, "_parent", None)
                    if x.attr in methods and isinstance(x.ctx, ast.Load) and isinstance(par, ast.Call) and par.func is x:
                        continue
                    return False
            if isinstance(x, ast.arg) and x.arg == var and x is not skip:
                return False
        return True

    def _scalarise(self, fn):
        """``x = _Private(args)`` at the top level of ``fn`` where ``x`` is bound once and only used as ``x.<field>`` / ``x.<method>(..)``: the methods are read
        as private functions taking the object (then expanded like every private helper) and, when no use of the object as a whole is left, its fields are
        read as locals ``x__<field>``.  Returns the rewritten body, or None when the shape is not present / not fully resolved."""
        cands = []
        for st in fn.body:
            if isinstance(st, ast.Assign) and len(st.targets) == 1 and isinstance(st.targets[0], ast.Name) and isinstance(st.value, ast.Call) and \
                    isinstance(st.value.func, ast.Name) and not st.value.keywords and not any(isinstance(a, ast.Starred) for a in st.value.args):
                cands.append(st)
        for st in cands:
            var, cname = st.targets[0].id, st.value.func.id
            got = self._method_object_class(cname)
            if got is None:
                continue
            c, fields, methods = got
            stores = [x for x in ast.walk(fn) if isinstance(x, ast.Name) and x.id == var and isinstance(x.ctx, (ast.Store, ast.Del))]
            if len(stores) != 1 or var in params(fn):
                continue
            for parent in ast.walk(fn):
                for child in ast.iter_child_nodes(parent):
                    child._parent = parent  # type: ignore[attr-defined]
            if not self._only_fields_and_calls(fn, var, fields, methods, skip=st.targets[0]):
                continue
            nested = [d for d in ast.walk(fn) if isinstance(d, (ast.FunctionDef, ast.AsyncFunctionDef, ast.Lambda)) and d is not fn and
                      any(isinstance(x, ast.Name) and x.id == var for x in ast.walk(d))]
            if nested:
                continue
            fname = lambda m: f"{cname}__{m.strip('_')}"      # noqa: E731

            class Calls(ast.NodeTransformer):
                def __init__(s_, recv):
                    s_.recv = recv

                def visit_Call(s_, node):
                    s_.generic_visit(node)
                    f_ = node.func
                    if isinstance(f_, ast.Attribute) and isinstance(f_.value, ast.Name) and f_.value.id == s_.recv and f_.attr in methods:
                        return ast.copy_location(ast.Call(func=ast.Name(id=fname(f_.attr), ctx=ast.Load()), args=[ast.Name(id=s_.recv, ctx=ast.Load())] + node.args,
                                                          keywords=node.keywords), node)
                    return node
            added = []
            for mn, m in methods.items():
                syn = clone(m)
                syn.name = fname(mn)
                for parent in ast.walk(syn):
                    for child in ast.iter_child_nodes(parent):
                        child._parent = parent  # type: ignore[attr-defined]
                syn = Calls("self").visit(syn)
                if syn.name in self.functions:
                    added = None
                    break
                self.functions[syn.name] = syn
                added.append(syn.name)
            if added is None:
                continue
            body = clone(fn.body)
            idx = fn.body.index(st)
            init = ast.Expr(ast.Call(func=ast.Name(id=fname("__init__"), ctx=ast.Load()), args=[ast.Name(id=var, ctx=ast.Load())] + clone(st.value.args), keywords=[])) \
                if "__init__" in methods else ast.Pass()
            body[idx] = ast.copy_location(init, st)
            body = [Calls(var).visit(b) for b in body]
            self._fix(body, st)
            body = self.stmts(body, 0)
            left = [x for b in body for x in ast.walk(b) if isinstance(x, ast.Name) and x.id == var]
            attrs = [x for b in body for x in ast.walk(b) if isinstance(x, ast.Attribute) and isinstance(x.value, ast.Name) and x.value.id == var and x.attr in fields]
            for n_ in added:
                del self.functions[n_]
            if len(left) != len(attrs):
                self.refused[cname] = "method object not fully resolved"
                continue

            class Fields(ast.NodeTransformer):
                def visit_Attribute(s_, node):
                    s_.generic_visit(node)
                    if isinstance(node.value, ast.Name) and node.value.id == var and node.attr in fields:
                        return ast.copy_location(ast.Name(id=f"{var}__{node.attr}", ctx=node.ctx), node)
                    return node
            self.scalarised.append(cname)
            return [Fields().visit(b) for b in body]
        return None

    # ---- statements --------------------------------------------------------------------------------
    def _fix(self, nodes, like):
        for n in nodes:
            for x in ast.walk(n):
                if not hasattr(x, "lineno"):
                    ast.copy_location(x, like)
            ast.fix_missing_locations(n)
        return nodes

    def stmts(self, stmts, level=0):
        out = []
        i = 0
        while i < len(stmts):
            st = stmts[i]
            if level < self.depth:
                try:
                    new = self._expand_verdict(st, stmts[i + 1:], level)
                except _NoInline:
                    new = None
                if new is not None:
                    out.extend(new)
                    return out
            out.extend(self.stmt(st, level))
            i += 1
        return out

    # ---- `verdict = self._helper(); if verdict is A: ...; if verdict is B: ...` -----------------------------------
    def _sentinels(self):
        if not hasattr(self, "_sent"):
            stores: Dict[str, int] = {}
            for n in ast.walk(self.mod.tree):
                if isinstance(n, ast.Name) and isinstance(n.ctx, ast.Store):
                    stores[n.id] = stores.get(n.id, 0) + 1
            self._sent = {}
            for st in self.mod.tree.body:
                if isinstance(st, ast.Assign) and len(st.targets) == 1 and isinstance(st.targets[0], ast.Name) and stores.get(st.targets[0].id) == 1 \
                        and isinstance(st.value, (ast.Call, ast.Constant)):
                    self._sent[st.targets[0].id] = st.value
        return self._sent

    def _same(self, a, b):
        """True / False when the two result expressions certainly denote the same / different objects, None when unknown."""
        S_ = self._sentinels()

        def key(e):
            if isinstance(e, ast.Constant):
                return ("c", repr(e.value))
            if isinstance(e, ast.Name) and e.id in S_:
                v = S_[e.id]
                return ("c", repr(v.value)) if isinstance(v, ast.Constant) else ("s", e.id)
            return None
        ka, kb = key(a), key(b)
        if ka is None or kb is None:
            return None
        return ka == kb

    def _fold(self, stmts, t, v):
        """copy of ``stmts`` in which tests on the local ``t`` are decided for the known result ``v`` (three-valued)"""
        def truth(e):
            if isinstance(e, ast.UnaryOp) and isinstance(e.op, ast.Not):
                r = truth(e.operand)
                return None if r is None else (not r)
            if isinstance(e, ast.Name) and e.id == t and isinstance(v, ast.Constant):
                return bool(v.value)
            if isinstance(e, ast.Name) and e.id == t and isinstance(v, ast.Name) and v.id in self._sentinels() and isinstance(self._sentinels()[v.id], ast.Constant):
                return bool(self._sentinels()[v.id].value)
            if isinstance(e, ast.Compare) and len(e.ops) == 1 and isinstance(e.ops[0], (ast.Is, ast.IsNot, ast.Eq, ast.NotEq)):
                l, r = e.left, e.comparators[0]
                other = r if (isinstance(l, ast.Name) and l.id == t) else (l if (isinstance(r, ast.Name) and r.id == t) else None)
                if other is None:
                    return None
                same = self._same(v, other)
                if same is None:
                    return None
                return same if isinstance(e.ops[0], (ast.Is, ast.Eq)) else (not same)
            if isinstance(e, ast.BoolOp):
                vals = [truth(x) for x in e.values]
                if isinstance(e.op, ast.And):
                    return False if any(x is False for x in vals) else (True if all(x is True for x in vals) else None)
                return True if any(x is True for x in vals) else (False if all(x is False for x in vals) else None)
            return None
        out = []
        for st in stmts:
            st = clone(st)
            if isinstance(st, ast.If):
                tv = truth(st.test)
                if tv is True:
                    out.extend(self._fold(st.body, t, v))
                    if _terminates(st.body):
                        return out
                    continue
                if tv is False:
                    out.extend(self._fold(st.orelse, t, v))
                    if st.orelse and _terminates(st.orelse):
                        return out
                    continue
                st.body = self._fold(st.body, t, v) or [ast.Pass()]
                st.orelse = self._fold(st.orelse, t, v)
            out.append(st)
            if isinstance(st, (ast.Return, ast.Raise, ast.Continue, ast.Break)):
                return out
        return out

    def _expand_verdict(self, st, rest, level):
        """``t = <helper call>`` whose every result is a constant / module-level sentinel, followed by statements that branch on ``t``: the rest of the block
        is copied to every return point of the expanded helper with the tests on ``t`` decided there (so no path mixes one result with another's branch)."""
        if not (isinstance(st, ast.Assign) and len(st.targets) == 1 and isinstance(st.targets[0], ast.Name) and self.callee(st.value) and rest):
            return None
        t = st.targets[0].id
        h = self.callee(st.value)[0]
        rets = [r for r in walk_local(h) if isinstance(r, ast.Return)]
        if not rets or not all(r.value is not None and self._same(r.value, r.value) is True for r in rets) or _terminates(h.body) is False:
            return None
        tests_t = [x for s_ in rest for x in ast.walk(s_) if isinstance(x, ast.If) and any(isinstance(n, ast.Name) and n.id == t for n in ast.walk(x.test))]
        if not tests_t:
            return None
        stores_t = [x for s_ in rest for x in ast.walk(s_) if isinstance(x, ast.Name) and x.id == t and isinstance(x.ctx, ast.Store)]
        if stores_t or sum(len(list(ast.walk(s_))) for s_ in rest) > 400:
            return None
        pre, body = self._body(st.value)
        new = _structure_returns(body, lambda v: [ast.Assign(targets=[ast.Name(id=t, ctx=ast.Store())], value=v)] + self._fold(rest, t, v))
        new = pre + new
        self._fix(new, st)
        return self.stmts(new, level + 1)

    def _specialise_if(self, st, call, negated, v):
        """the `if <call>:` statement with the call replaced by the returned value v (constant-folded)."""
        if isinstance(v, ast.Constant) or v is None:
            truth = bool(v.value) if v is not None else False
            if negated:
                truth = not truth
            return clone(st.body) if truth else clone(st.orelse)
        test = v if not negated else ast.UnaryOp(op=ast.Not(), operand=v)
        return [ast.If(test=test, body=clone(st.body), orelse=clone(st.orelse))]

    def _partial_thunk(self, a):
        """Lambda node for ``partial(<helper of this module>, <simple args>)`` when the bound arguments cover every required parameter, else None.  (The
        arguments are names / attributes / constants, so evaluating them at call time instead of at creation reads the same values unless rebound.)"""
        if not (isinstance(a, ast.Call) and (dotted(a.func) or "") in ("partial", "functools.partial") and a.args and not a.keywords and all(_simple_expr(x) for x in a.args)):
            return None
        f, given = a.args[0], a.args[1:]
        h, skip = None, 0
        if isinstance(f, ast.Attribute) and isinstance(f.value, ast.Name) and len(self.methods.get(f.attr, [])) == 1:
            h = self.methods[f.attr][0][1]
            decos = [(dotted(d) or src(d)).split(".")[-1] for d in h.decorator_list]
            if decos not in ([], ["staticmethod"], ["classmethod"]):
                return None
            skip = 0 if decos == ["staticmethod"] else 1
        elif isinstance(f, ast.Name) and f.id in self.functions and not self.functions[f.id].decorator_list:
            h = self.functions[f.id]
        if h is None or h.args.vararg or h.args.kwarg or h.args.kwonlyargs:
            return None
        ps = list(h.args.posonlyargs) + list(h.args.args)
        free = len(ps) - skip
        if len(given) > free or len(given) < free - len(h.args.defaults):
            return None
        noargs = ast.arguments(posonlyargs=[], args=[], vararg=None, kwonlyargs=[], kw_defaults=[], kwarg=None, defaults=[])
        return ast.Lambda(args=noargs, body=ast.Call(func=clone(f), args=[clone(x) for x in given], keywords=[]))

    def _callable_object(self, a):
        """``_Private(<simple args>)`` where the private class is a method object with a no-argument __call__"""
        if not (isinstance(a, ast.Call) and isinstance(a.func, ast.Name) and not a.keywords and all(_simple_expr(x) for x in a.args)):
            return False
        got = self._method_object_class(a.func.id)
        return bool(got) and "__call__" in got[2] and len(params(got[2]["__call__"])) == 1 and not got[2]["__call__"].args.vararg and not got[2]["__call__"].args.kwarg

    def _hoist_lambdas(self, st):
        """``x.do(lambda: self._helper(a))`` -> ``def _lamN(): return self._helper(a)`` + ``x.do(_lamN)`` so that the helper can be expanded."""
        if not isinstance(st, (ast.Expr, ast.Assign, ast.Return, ast.AnnAssign)):
            return None
        # functools.partial(<helper>, a, b) handed over as a call argument, with every required parameter of the helper bound: the closure `lambda: helper(a, b)`
        thunks = {}
        objs = []

        def find_values(n):
            for ch in ast.iter_child_nodes(n):
                if isinstance(ch, (ast.FunctionDef, ast.AsyncFunctionDef, ast.ClassDef, ast.Lambda)):
                    continue
                if isinstance(ch, ast.Call):
                    for a in ch.args:
                        t_ = self._partial_thunk(a)
                        if t_ is not None:
                            thunks[id(a)] = t_
                        elif self._callable_object(a):
                            objs.append(a)
                find_values(ch)
        find_values(st)
        if thunks:
            class P(ast.NodeTransformer):
                def visit_Call(s_, node):
                    if id(node) in thunks:
                        return ast.copy_location(thunks[id(node)], node)
                    return s_.generic_visit(node)
            st = P().visit(st)
            ast.fix_missing_locations(st)
        lams = []

        def find(n, top=True):
            for ch in ast.iter_child_nodes(n):
                if isinstance(ch, ast.Lambda):
                    b = ch.body
                    if self.callee(b) and not self._single_expr(b) and not (ch.args.defaults or ch.args.vararg or ch.args.kwarg or ch.args.kwonlyargs):
                        lams.append(ch)
                    continue
                if isinstance(ch, (ast.FunctionDef, ast.AsyncFunctionDef, ast.ClassDef)):
                    continue
                find(ch, False)
        find(st)
        # a bound private method handed over as a value (`x.do(self._finish)`) is the closure `lambda: self._finish()` when it takes no argument
        bound = []

        def find_bound(n):
            for ch in ast.iter_child_nodes(n):
                if isinstance(ch, (ast.FunctionDef, ast.AsyncFunctionDef, ast.ClassDef, ast.Lambda)):
                    continue
                if isinstance(ch, ast.Call):
                    for a in ch.args:
                        if isinstance(a, ast.Attribute) and isinstance(a.value, ast.Name) and a.value.id == "self" and isinstance(a.ctx, ast.Load):
                            probe = ast.Call(func=a, args=[], keywords=[])
                            r = self.callee(probe)
                            if r and r[2] == "method" and len(params(r[0])) == 1 and not r[0].args.vararg and not r[0].args.kwarg:
                                bound.append(a)
                find_bound(ch)
        find_bound(st)
        if not lams and not bound and not objs:
            return [st] if thunks else None
        defs_ = []
        names = {}
        noargs_ = lambda: ast.arguments(posonlyargs=[], args=[], vararg=None, kwonlyargs=[], kw_defaults=[], kwarg=None, defaults=[])     # noqa: E731
        for a in objs:
            # an instance of a private callable class built in place and handed over: the closure that builds it and calls it (the object is then read as locals)
            self.count += 1
            nm, ob = f"_lam{self.count}", f"_obj{self.count}"
            names[id(a)] = nm
            defs_.append(ast.FunctionDef(name=nm, args=noargs_(), decorator_list=[], returns=None, type_comment=None, type_params=[], body=[
                ast.Assign(targets=[ast.Name(id=ob, ctx=ast.Store())], value=clone(a)),
                ast.Return(value=ast.Call(func=ast.Attribute(value=ast.Name(id=ob, ctx=ast.Load()), attr="__call__", ctx=ast.Load()), args=[], keywords=[]))]))
        for lam in lams:
            self.count += 1
            nm = f"_lam{self.count}"
            names[id(lam)] = nm
            defs_.append(ast.FunctionDef(name=nm, args=lam.args, body=[ast.Return(value=lam.body)], decorator_list=[], returns=None, type_comment=None, type_params=[]))

        for a in bound:
            self.count += 1
            nm = f"_lam{self.count}"
            names[id(a)] = nm
            noargs = ast.arguments(posonlyargs=[], args=[], vararg=None, kwonlyargs=[], kw_defaults=[], kwarg=None, defaults=[])
            defs_.append(ast.FunctionDef(name=nm, args=noargs, body=[ast.Return(value=ast.Call(func=clone(a), args=[], keywords=[]))], decorator_list=[], returns=None,
                                         type_comment=None, type_params=[]))

        class R(ast.NodeTransformer):
            def visit_Lambda(s_, node):
                if id(node) in names:
                    return ast.Name(id=names[id(node)], ctx=ast.Load())
                return node

            def visit_Attribute(s_, node):
                if id(node) in names:
                    return ast.Name(id=names[id(node)], ctx=ast.Load())
                return s_.generic_visit(node)

            def visit_Call(s_, node):
                if id(node) in names:
                    return ast.Name(id=names[id(node)], ctx=ast.Load())
                return s_.generic_visit(node)
        st2 = R().visit(st)
        self._fix(defs_ + [st2], st)
        return defs_ + [st2]

    def stmt(self, st, level):
        if isinstance(st, (ast.FunctionDef, ast.AsyncFunctionDef)):
            sc = self._scalarise(st)
            st.body = sc if sc is not None else self.stmts(st.body, 0)
            return [st]
        if isinstance(st, ast.ClassDef):
            return [st]
        hoisted = self._hoist_lambdas(st) if level < self.depth else None
        if hoisted is not None:
            return self.stmts(hoisted, level)
        if level < self.depth:
            try:
                new = self._expand_with(st, level) or self._expand_stmt(st, level)
                if new is not None:
                    return new
            except _NoInline as e:
                c = next((x for x in walk_local(st) if self.callee(x)), None)
                if c is not None:
                    self.refused[self.callee(c)[0].name] = str(e)
        for fld in ("body", "orelse", "finalbody"):
            v = getattr(st, fld, None)
            if isinstance(v, list) and v and isinstance(v[0], ast.stmt):
                setattr(st, fld, self.stmts(v, level))
        for h in getattr(st, "handlers", []) or []:
            h.body = self.stmts(h.body, level)
        if level < self.depth:
            self._exprs(st, level)
        return [st]

    def _expand_stmt(self, st, level):
        call, mode, neg = None, None, False
        if isinstance(st, ast.Expr) and self.callee(st.value):
            call, mode = st.value, "expr"
        elif isinstance(st, ast.Return) and st.value is not None and self.callee(st.value):
            call, mode = st.value, "return"
        elif isinstance(st, ast.Assign) and len(st.targets) == 1 and self.callee(st.value):
            call, mode = st.value, "assign"
        elif isinstance(st, ast.AnnAssign) and st.value is not None and self.callee(st.value):
            call, mode = st.value, "annassign"
        elif isinstance(st, ast.If):
            t = st.test
            if isinstance(t, ast.UnaryOp) and isinstance(t.op, ast.Not) and self.callee(t.operand):
                call, mode, neg = t.operand, "if", True
            elif self.callee(t):
                call, mode = t, "if"
        if call is None:
            # helper calls nested in the expressions of a simple statement: bind them to temporaries first (left-to-right)
            if isinstance(st, (ast.Expr, ast.Assign, ast.AnnAssign, ast.AugAssign, ast.Return, ast.If, ast.Raise)) :
                roots = [st.test] if isinstance(st, ast.If) else [x for x in ast.iter_child_nodes(st) if isinstance(x, ast.expr)]
                nested = [x for r in roots for x in walk_local(r) if self.callee(x) and not isinstance(x, ast.Lambda)]
                nested = [x for x in nested if not self._single_expr(x)]
                # a call inside a comprehension / generator expression / lambda lives in that scope (its arguments are bound there): never hoisted out of it
                nested = [x for x in nested if not any(isinstance(p, (ast.ListComp, ast.SetComp, ast.DictComp, ast.GeneratorExp, ast.Lambda)) for p in self._ancestors_in(st, x))]
                if nested:
                    x = nested[0]
                    self.count += 1
                    tmp = f"_ret{self.count}"
                    pre = ast.Assign(targets=[ast.Name(id=tmp, ctx=ast.Store())], value=x)

                    class R(ast.NodeTransformer):
                        def visit_Call(self_, node):
                            if node is x:
                                return ast.Name(id=tmp, ctx=ast.Load())
                            return self_.generic_visit(node)
                    st2 = R().visit(st)
                    self._fix([pre, st2], st)
                    return self.stmts([pre, st2], level)
            return None
        pre, body = self._body(call)
        if mode == "expr":
            new = _structure_returns(body, lambda v: [ast.Expr(v)] if v is not None and not _simple_expr(v) else [])
        elif mode == "return":
            new = body if _terminates(body) else body + [ast.Return(value=ast.Constant(None))]
        elif mode in ("assign", "annassign"):
            tgt = st.targets[0] if mode == "assign" else st.target
            new = _structure_returns(body + ([] if _terminates(body) else [ast.Return(value=ast.Constant(None))]),
                                     lambda v: [ast.Assign(targets=[clone(tgt)], value=v if v is not None else ast.Constant(None))])
        else:
            new = _structure_returns(body + ([] if _terminates(body) else [ast.Return(value=ast.Constant(None))]),
                                     lambda v: self._specialise_if(st, call, neg, v))
        new = pre + (new or [])
        new = new or [ast.Pass()]
        self._fix(new, st)
        return self.stmts(new, level + 1)

    def _ancestors_in(self, root, node):
        path = []

        def rec(n, acc):
            if n is node:
                path.extend(acc)
                return True
            for ch in ast.iter_child_nodes(n):
                if rec(ch, acc + [n]):
                    return True
            return False
        rec(root, [])
        return path

    def _single_expr(self, call):
        try:
            h, recv, kind = self.callee(call)
            body = [s for s in h.body if not (isinstance(s, ast.Expr) and isinstance(s.value, ast.Constant))]
            _as_expression(body)
            actual = self._bind(h, recv, kind, call)
            return all(_simple_expr(v) or isinstance(v, (ast.Lambda, ast.Tuple)) for v in actual.values())
        except _NoInline:
            return False

    def _exprs(self, st, level):
        outer = self

        class T(ast.NodeTransformer):
            def visit_Call(self, node):
                self.generic_visit(node)
                if not outer.callee(node) or not outer._single_expr(node):
                    return node
                h, recv, kind = outer.callee(node)
                actual = outer._bind(h, recv, kind, node)
                body = [s for s in clone(h.body) if not (isinstance(s, ast.Expr) and isinstance(s.value, ast.Constant))]
                e = _as_expression(body)
                e = _Rename(actual, {}).visit(e)
                outer.inlined[h.name] = outer.inlined.get(h.name, 0) + 1
                return ast.copy_location(e, node)

            def visit_FunctionDef(self, node):
                return node

            visit_AsyncFunctionDef = visit_ClassDef = visit_FunctionDef

        for fld, val in list(ast.iter_fields(st)):
            if isinstance(val, ast.expr):
                setattr(st, fld, T().visit(val))
            elif isinstance(val, list) and val and isinstance(val[0], ast.expr):
                setattr(st, fld, [T().visit(v) for v in val])
            elif isinstance(val, list) and val and isinstance(val[0], ast.withitem):
                for it in val:
                    it.context_expr = T().visit(it.context_expr)
        ast.fix_missing_locations(st)

    # ---- loops over constant tuples ------------------------------------------------------------------
    @staticmethod
    def unroll(stmts):
        out = []
        for st in stmts:
            for fld in ("body", "orelse", "finalbody"):
                v = getattr(st, fld, None)
                if isinstance(v, list) and v and isinstance(v[0], ast.stmt) and not isinstance(st, ast.ClassDef):
                    setattr(st, fld, Normaliser.unroll(v))
            for h in getattr(st, "handlers", []) or []:
                h.body = Normaliser.unroll(h.body)
            if isinstance(st, ast.For) and isinstance(st.iter, (ast.Tuple, ast.List)) and not st.orelse and len(st.iter.elts) <= 8 \
                    and not any(isinstance(x, (ast.Break, ast.Continue)) for b in st.body for x in walk_local(b)):
                names = [st.target] if isinstance(st.target, ast.Name) else (list(st.target.elts) if isinstance(st.target, (ast.Tuple, ast.List)) else None)
                ok = names is not None and all(isinstance(n, ast.Name) for n in names)
                rows = []
                for e in st.iter.elts:
                    if isinstance(st.target, ast.Name):
                        rows.append([e])
                    elif isinstance(e, (ast.Tuple, ast.List)) and names is not None and len(e.elts) == len(names):
                        rows.append(list(e.elts))
                    else:
                        ok = False
                rebound = {x.id for b in st.body for x in ast.walk(b) if isinstance(x, ast.Name) and isinstance(x.ctx, ast.Store)}
                if ok and not (rebound & {n.id for n in names}):
                    for row in rows:
                        sub = _Rename({n.id: v for n, v in zip(names, row)}, {})
                        body = [sub.visit(clone(b)) for b in st.body]
                        for b in body:
                            ast.copy_location(b, st)
                            ast.fix_missing_locations(b)
                        out.extend(body)
                    continue
            out.append(st)
        return out

    # ---- single-assignment pure temporaries --------------------------------------------------------------
    # calls that neither have effects nor raise on the values they are given here (int()/float() can raise: moving them would move a failure point)
    _PURE_CALLS = {"str", "len", "bool", "isinstance", "os.getpid", "repr"}

    @classmethod
    def _pure(cls, e, frozen_names, func_attr_writes):
        for x in ast.walk(e):
            if isinstance(x, ast.Call):
                if (dotted(x.func) or "") not in cls._PURE_CALLS or x.keywords:
                    return False
            elif isinstance(x, (ast.Subscript, ast.Lambda, ast.Await, ast.Yield, ast.YieldFrom, ast.NamedExpr, ast.Starred, ast.ListComp, ast.SetComp,
                                ast.DictComp, ast.GeneratorExp, ast.List, ast.Dict, ast.Set, ast.JoinedStr)):
                return False
            elif isinstance(x, ast.Attribute) and x.attr in func_attr_writes:
                return False
            elif isinstance(x, ast.Name) and x.id not in frozen_names:
                return False
        return True

    @classmethod
    def subst_temporaries(cls, func):
        """Replace the uses of locals that are assigned exactly once to a pure expression over never-reassigned names by that expression
        (``isDead = e.errno == errno.ESRCH; if isDead:`` reads as ``if e.errno == errno.ESRCH:``).  The assignment itself stays."""
        counts: Dict[str, int] = {}
        single: Dict[str, ast.expr] = {}
        attr_writes = set()
        for n in walk_local(func):
            if n is func:
                continue
            tg = []
            if isinstance(n, ast.Assign):
                tg = n.targets
            elif isinstance(n, (ast.AugAssign, ast.AnnAssign)):
                tg = [n.target]
            elif isinstance(n, (ast.For, ast.AsyncFor)):
                tg = [n.target]
            elif isinstance(n, ast.withitem) and n.optional_vars is not None:
                tg = [n.optional_vars]
            elif isinstance(n, ast.ExceptHandler) and n.name:
                counts[n.name] = counts.get(n.name, 0) + 1
            elif isinstance(n, ast.NamedExpr):
                tg = [n.target]
            elif isinstance(n, ast.Delete):
                tg = n.targets
            elif isinstance(n, (ast.FunctionDef, ast.AsyncFunctionDef, ast.ClassDef)):
                counts[n.name] = counts.get(n.name, 0) + 2
            elif isinstance(n, (ast.Import, ast.ImportFrom)):
                for al in n.names:          # `from m import f as name` binds the local like an assignment does
                    nm_ = al.asname or al.name.split(".")[0]
                    counts[nm_] = counts.get(nm_, 0) + 1
            for t in tg:
                for e in ast.walk(t):
                    if isinstance(e, ast.Name) and isinstance(e.ctx, (ast.Store, ast.Del)):
                        counts[e.id] = counts.get(e.id, 0) + 1      # `self.x = ..` / `d[k] = ..` do not rebind self / d
                    elif isinstance(e, ast.Attribute) and isinstance(e.ctx, (ast.Store, ast.Del)):
                        attr_writes.add(e.attr)
            if isinstance(n, ast.Assign) and len(n.targets) == 1 and isinstance(n.targets[0], ast.Name):
                single[n.targets[0].id] = n.value
            elif isinstance(n, ast.AnnAssign) and isinstance(n.target, ast.Name) and n.value is not None:
                single[n.target.id] = n.value
            elif isinstance(n, ast.AugAssign) and isinstance(n.target, ast.Attribute):
                attr_writes.add(n.target.attr)
        ps = set(params(func)) if hasattr(func, "args") else set()
        if hasattr(func, "args"):
            ps |= {a.arg for a in func.args.kwonlyargs} | ({func.args.vararg.arg} if func.args.vararg else set()) | ({func.args.kwarg.arg} if func.args.kwarg else set())
        local_names = set(counts) | ps
        # nested functions may rebind through nonlocal: be conservative - any name stored in a nested scope counts as reassigned
        for n in ast.walk(func):
            if isinstance(n, ast.Nonlocal):
                for nm in n.names:
                    counts[nm] = counts.get(nm, 0) + 2
        frozen = {n for n in local_names if counts.get(n, 0) <= (0 if n in ps else 1)} | {"True", "False", "None"}

        def is_global(name):
            return name not in local_names
        mapping = {}
        for name, val in single.items():
            if counts.get(name, 0) != 1 or name in ps:
                continue
            names_ok = all(x.id in frozen or is_global(x.id) for x in ast.walk(val) if isinstance(x, ast.Name))
            if names_ok and cls._pure(val, {x.id for x in ast.walk(val) if isinstance(x, ast.Name)}, attr_writes) and not isinstance(val, (ast.Constant,)) :
                mapping[name] = val
            elif names_ok and isinstance(val, ast.Constant) and isinstance(val.value, (str, bytes, int)) and not isinstance(val.value, bool):
                mapping[name] = val
        if not mapping:
            return False
        # close the mapping under itself (a temporary defined from another temporary)
        for _ in range(4):
            for k in list(mapping):
                mapping[k] = _Rename({m: v for m, v in mapping.items() if m != k}, {}).visit(clone(mapping[k]))

        class T(ast.NodeTransformer):
            def visit_Name(s_, node):
                if isinstance(node.ctx, ast.Load) and node.id in mapping:
                    return ast.copy_location(clone(mapping[node.id]), node)
                return node

            def visit_FunctionDef(s_, node):
                return node

            visit_AsyncFunctionDef = visit_Lambda = visit_ClassDef = visit_FunctionDef

        def into_nested(fn_):
            """a closure reads the enclosing function's single-assignment value: the same substitution applies inside it, unless it binds one of the names itself"""
            bound_ = {x.id for x in ast.walk(fn_) if isinstance(x, ast.Name) and isinstance(x.ctx, (ast.Store, ast.Del))} | {a_.arg for a_ in ast.walk(fn_) if isinstance(a_, ast.arg)}
            bound_ |= {d.name for d in ast.walk(fn_) if isinstance(d, (ast.FunctionDef, ast.AsyncFunctionDef, ast.ClassDef)) and d is not fn_}
            sub_ = {k: v for k, v in mapping.items() if k not in bound_ and not ({x.id for x in ast.walk(v) if isinstance(x, ast.Name)} & bound_)}
            if not sub_:
                return

            class TN(ast.NodeTransformer):
                def visit_Name(s_, node):
                    if isinstance(node.ctx, ast.Load) and node.id in sub_:
                        return ast.copy_location(clone(sub_[node.id]), node)
                    return node
            fn_.body = [TN().visit(b) for b in fn_.body]

        def rewrite(stmts):
            for st in stmts:
                if isinstance(st, (ast.FunctionDef, ast.AsyncFunctionDef)):
                    into_nested(st)
                    continue
                if isinstance(st, ast.ClassDef):
                    continue
                for fld, val in list(ast.iter_fields(st)):
                    if isinstance(val, ast.expr):
                        if isinstance(st, (ast.Assign, ast.AnnAssign)) and fld in ("targets", "target"):
                            continue
                        setattr(st, fld, T().visit(val))
                    elif isinstance(val, list) and val and isinstance(val[0], ast.stmt):
                        rewrite(val)
                    elif isinstance(val, list) and val and isinstance(val[0], ast.expr) and fld != "targets":
                        setattr(st, fld, [T().visit(v) for v in val])
                    elif isinstance(val, list) and val and isinstance(val[0], ast.withitem):
                        for it in val:
                            it.context_expr = T().visit(it.context_expr)
                    elif isinstance(val, list) and val and isinstance(val[0], ast.ExceptHandler):
                        for h in val:
                            rewrite(h.body)
        rewrite(func.body)
        # a substituted temporary that nobody reads any more: its (pure) assignment is dropped
        still = {x.id for x in ast.walk(func) if isinstance(x, ast.Name) and isinstance(x.ctx, ast.Load)}
        dead = {k for k in mapping if k not in still}

        def prune(stmts):
            out = []
            for st in stmts:
                if isinstance(st, ast.Assign) and len(st.targets) == 1 and isinstance(st.targets[0], ast.Name) and st.targets[0].id in dead:
                    continue
                if isinstance(st, ast.AnnAssign) and isinstance(st.target, ast.Name) and st.target.id in dead and st.value is not None:
                    continue
                if not isinstance(st, (ast.FunctionDef, ast.AsyncFunctionDef, ast.ClassDef)):
                    for fld in ("body", "orelse", "finalbody"):
                        v = getattr(st, fld, None)
                        if isinstance(v, list) and v and isinstance(v[0], ast.stmt):
                            nv = prune(v)
                            setattr(st, fld, nv or ([ast.Pass()] if fld == "body" else []))
                    for h in getattr(st, "handlers", []) or []:
                        h.body = prune(h.body) or [ast.Pass()]
                out.append(st)
            return out
        if dead:
            func.body = prune(func.body) or [ast.Pass()]
        ast.fix_missing_locations(func)
        return True

    # ---- f(*(a, b)) -> f(a, b) ---------------------------------------------------------------------------------
    @staticmethod
    def splice_starred(func):
        """a call whose starred argument is a literal tuple / list (what `operation(*args)` becomes once a *args helper is expanded) reads as the plain call"""
        class T(ast.NodeTransformer):
            def visit_Call(s_, node):
                s_.generic_visit(node)
                if any(isinstance(a, ast.Starred) and isinstance(a.value, (ast.Tuple, ast.List)) for a in node.args):
                    new = []
                    for a in node.args:
                        if isinstance(a, ast.Starred) and isinstance(a.value, (ast.Tuple, ast.List)):
                            new.extend(a.value.elts)
                        else:
                            new.append(a)
                    node.args = new
                return node
        T().visit(func)
        ast.fix_missing_locations(func)

    # ---- forward substitution of adjacent single-use temporaries ---------------------------------------------
    @staticmethod
    def forward_subst(func):
        """``t = E`` immediately followed by the only statement that reads ``t`` (and ``t`` is assigned nowhere else): the reader sees ``E`` and
        the assignment disappears - whatever E is (``exists = os.path.exists(p); if exists:`` reads ``if os.path.exists(p):``)."""
        loads: Dict[str, int] = {}
        stores: Dict[str, int] = {}
        for n in ast.walk(func):
            if isinstance(n, ast.Name):
                if isinstance(n.ctx, ast.Load):
                    loads[n.id] = loads.get(n.id, 0) + 1
                else:
                    stores[n.id] = stores.get(n.id, 0) + 1
            elif isinstance(n, (ast.Nonlocal, ast.Global)):
                for nm in n.names:
                    stores[nm] = stores.get(nm, 0) + 2
        ps = set(params(func)) if hasattr(func, "args") else set()
        changed = [False]

        def head_exprs(st):
            """the expressions of ``st`` that are evaluated first, before any nested block"""
            if isinstance(st, (ast.If, ast.While)):
                return ["test"]
            if isinstance(st, (ast.For, ast.AsyncFor)):
                return ["iter"]
            if isinstance(st, (ast.Expr, ast.Return, ast.Assign, ast.AnnAssign, ast.AugAssign)):
                return ["value"]
            if isinstance(st, ast.Raise):
                return ["exc"]
            if isinstance(st, ast.Assert):
                return ["test"]
            return []

        def block(stmts):
            out = []
            i = 0
            while i < len(stmts):
                st = stmts[i]
                nxt = stmts[i + 1] if i + 1 < len(stmts) else None
                if isinstance(st, ast.Assign) and len(st.targets) == 1 and isinstance(st.targets[0], ast.Name) and nxt is not None:
                    t = st.targets[0].id
                    if stores.get(t, 0) == 1 and loads.get(t, 0) == 1 and t not in ps and not isinstance(st.value, (ast.Lambda, ast.Yield, ast.YieldFrom, ast.Await)):
                        for fld in head_exprs(nxt):
                            e = getattr(nxt, fld, None)
                            if e is not None and any(isinstance(x, ast.Name) and x.id == t and isinstance(x.ctx, ast.Load) for x in walk_local(e)) \
                                    and not any(isinstance(x, ast.Lambda) for x in ast.walk(e)):
                                setattr(nxt, fld, _Rename({t: st.value}, {}).visit(e))
                                ast.fix_missing_locations(nxt)
                                changed[0] = True
                                st = None
                                break
                if st is not None:
                    out.append(st)
                i += 1
            for st in out:
                if isinstance(st, (ast.FunctionDef, ast.AsyncFunctionDef, ast.ClassDef)):
                    continue
                for fld in ("body", "orelse", "finalbody"):
                    v = getattr(st, fld, None)
                    if isinstance(v, list) and v and isinstance(v[0], ast.stmt):
                        setattr(st, fld, block(v) or [ast.Pass()] if fld == "body" else block(v))
                for h in getattr(st, "handlers", []) or []:
                    h.body = block(h.body) or [ast.Pass()]
            return out
        for _ in range(3):
            changed[0] = False
            func.body = block(func.body) or [ast.Pass()]
            if not changed[0]:
                break
            loads.clear()
            stores.clear()
            for n in ast.walk(func):
                if isinstance(n, ast.Name):
                    d = loads if isinstance(n.ctx, ast.Load) else stores
                    d[n.id] = d.get(n.id, 0) + 1
        ast.fix_missing_locations(func)

    # ---- local closures with a single-expression body ------------------------------------------------------
    @staticmethod
    def inline_local_closures(func):
        """``def f(a): return E`` nested in ``func`` and called there as ``f(x)``: the call reads as E[a := x] (the def stays)."""
        closures = {}
        for st in func.body:
            if isinstance(st, ast.FunctionDef) and not st.decorator_list and not (st.args.vararg or st.args.kwarg or st.args.kwonlyargs or st.args.defaults):
                body = [b for b in st.body if not (isinstance(b, ast.Expr) and isinstance(b.value, ast.Constant))]
                if len(body) == 1 and isinstance(body[0], ast.Return) and body[0].value is not None:
                    closures[st.name] = (st, body[0].value)
        stores = [x.id for x in walk_local(func) if isinstance(x, ast.Name) and isinstance(x.ctx, ast.Store)]
        closures = {k: v for k, v in closures.items() if k not in stores}
        if not closures:
            return False
        changed = [False]

        class T(ast.NodeTransformer):
            def visit_Call(s_, node):
                s_.generic_visit(node)
                if isinstance(node.func, ast.Name) and node.func.id in closures and not node.keywords:
                    d, e = closures[node.func.id]
                    ps = [a.arg for a in d.args.args]
                    if len(ps) == len(node.args) and all(_simple_expr(a) for a in node.args):
                        changed[0] = True
                        return ast.copy_location(_Rename(dict(zip(ps, node.args)), {}).visit(clone(e)), node)
                return node

            def visit_FunctionDef(s_, node):
                return node

            visit_AsyncFunctionDef = visit_ClassDef = visit_FunctionDef
        func.body = [st if isinstance(st, (ast.FunctionDef, ast.AsyncFunctionDef, ast.ClassDef)) else T().visit(st) for st in func.body]
        ast.fix_missing_locations(func)
        return changed[0]

    # ---- module-level constants ------------------------------------------------------------------------
    @staticmethod
    def module_constants(tree) -> Dict[str, ast.expr]:
        """NAME -> literal for module-level names bound exactly once (anywhere in the module) to a str/bytes/int literal or a tuple of such."""
        def literal(e):
            if isinstance(e, ast.Constant) and isinstance(e.value, (str, bytes, int)) and not isinstance(e.value, bool):
                return True
            return isinstance(e, ast.Tuple) and bool(e.elts) and all(literal(x) for x in e.elts)
        stores: Dict[str, int] = {}
        for n in ast.walk(tree):
            if isinstance(n, ast.Name) and isinstance(n.ctx, (ast.Store, ast.Del)):
                stores[n.id] = stores.get(n.id, 0) + 1
            elif isinstance(n, (ast.FunctionDef, ast.AsyncFunctionDef, ast.ClassDef)):
                stores[n.name] = stores.get(n.name, 0) + 2
            elif isinstance(n, ast.arg):
                stores[n.arg] = stores.get(n.arg, 0) + 2
            elif isinstance(n, ast.alias):
                nm = (n.asname or n.name).split(".")[0]
                stores[nm] = stores.get(nm, 0) + 2
        out = {}
        for st in tree.body:
            tgt, val = None, None
            if isinstance(st, ast.Assign) and len(st.targets) == 1 and isinstance(st.targets[0], ast.Name):
                tgt, val = st.targets[0].id, st.value
            elif isinstance(st, ast.AnnAssign) and isinstance(st.target, ast.Name) and st.value is not None:
                tgt, val = st.target.id, st.value
            if tgt and stores.get(tgt) == 1 and literal(val) and (tgt.isupper() or tgt.startswith("_")) and tgt != "__all__":
                out[tgt] = val
        return out

    @staticmethod
    def class_constants(tree) -> Dict[str, ast.expr]:
        """_NAME -> literal for PRIVATE class attributes bound exactly once (in one class body of the module, never through an attribute store) to a
        str/bytes/int literal or a tuple of such: `self._NAME` / `cls._NAME` / `Class._NAME` then read as the literal."""
        def literal(e):
            if isinstance(e, ast.Constant) and isinstance(e.value, (str, bytes, int)) and not isinstance(e.value, bool):
                return True
            return isinstance(e, ast.Tuple) and bool(e.elts) and all(literal(x) for x in e.elts)
        cand: Dict[str, List[ast.expr]] = {}
        for c in ast.walk(tree):
            if isinstance(c, ast.ClassDef):
                for st in c.body:
                    tgt, val = None, None
                    if isinstance(st, ast.Assign) and len(st.targets) == 1 and isinstance(st.targets[0], ast.Name):
                        tgt, val = st.targets[0].id, st.value
                    elif isinstance(st, ast.AnnAssign) and isinstance(st.target, ast.Name) and st.value is not None:
                        tgt, val = st.target.id, st.value
                    if tgt and tgt.startswith("_") and not tgt.startswith("__"):
                        cand.setdefault(tgt, []).append(val)
        stored = {n.attr for n in ast.walk(tree) if isinstance(n, ast.Attribute) and isinstance(n.ctx, (ast.Store, ast.Del))}
        return {k: v[0] for k, v in cand.items() if len(v) == 1 and literal(v[0]) and k not in stored}

    # ---- whole module -----------------------------------------------------------------------------------
    def run(self):
        """A Module-like object over the normalised tree (``_parent`` links set), or the original module when nothing changed."""
        tree = clone(self.mod.tree)
        consts = Normaliser.module_constants(tree)
        cconsts = Normaliser.class_constants(tree)
        class_names = {c.name for c in ast.walk(tree) if isinstance(c, ast.ClassDef)}

        class _ClassConst(ast.NodeTransformer):
            def visit_Attribute(s_, node):
                s_.generic_visit(node)
                if isinstance(node.ctx, ast.Load) and node.attr in cconsts and isinstance(node.value, ast.Name) and (node.value.id in ("self", "cls") or node.value.id in class_names):
                    return ast.copy_location(clone(cconsts[node.attr]), node)
                return node
        # helpers are looked up in the ORIGINAL definitions (self.methods/functions), expansion happens on the copy
        def visit(body, owner=None):
            for st in body:
                if isinstance(st, (ast.FunctionDef, ast.AsyncFunctionDef)):
                    q = f"{owner}.{st.name}" if owner else st.name
                    if self.scope is not None and q not in self.scope and (owner is None or owner not in self.scope):
                        continue
                    sc = self._scalarise(st)
                    st.body = sc if sc is not None else self.stmts(st.body, 0)
                    if consts:
                        sub_ = _Rename(consts, {})
                        st.body = [sub_.visit(b) for b in st.body]
                    if cconsts:
                        st.body = [_ClassConst().visit(b) for b in st.body]
                    st.body = Normaliser.unroll(st.body)
                    Normaliser.splice_starred(st)
                    for fn in [x for x in ast.walk(st) if isinstance(x, (ast.FunctionDef, ast.AsyncFunctionDef))]:
                        Normaliser.inline_local_closures(fn)
                        Normaliser.subst_temporaries(fn)
                        Normaliser.forward_subst(fn)
                elif isinstance(st, ast.ClassDef):
                    visit(st.body, st.name)
                elif isinstance(st, (ast.If, ast.Try)):
                    visit(st.body, owner)
                    visit(getattr(st, "orelse", []) or [], owner)
        visit(tree.body)
        # drop helper definitions that were expanded at every call site and are not referenced as values
        names = {n for n in self.inlined if n not in self.refused}
        if names:
            class Refs(ast.NodeVisitor):
                def __init__(s):
                    s.left = set()

                def visit_Attribute(s, n):
                    if n.attr in names:
                        s.left.add(n.attr)
                    s.generic_visit(n)

                def visit_Name(s, n):
                    if n.id in names:
                        s.left.add(n.id)
            r = Refs()
            r.visit(tree)
            gone = names - r.left

            def prune(body):
                keep = []
                for st in body:
                    if isinstance(st, ast.FunctionDef) and st.name in gone:
                        continue
                    if isinstance(st, ast.ClassDef):
                        st.body = prune(st.body) or [ast.Pass()]
                    elif isinstance(st, (ast.If, ast.Try)):
                        st.body = prune(st.body) or [ast.Pass()]
                        if getattr(st, "orelse", None):
                            st.orelse = prune(st.orelse)
                    keep.append(st)
                return keep
            tree.body = prune(tree.body)
            self.removed = sorted(gone)
        else:
            self.removed = []
        ast.fix_missing_locations(tree)
        for parent in ast.walk(tree):
            for child in ast.iter_child_nodes(parent):
                child._parent = parent  # type: ignore[attr-defined]
        tree._parent = None  # type: ignore[attr-defined]
        new = type(self.mod).__new__(type(self.mod))
        new.__dict__.update(self.mod.__dict__)
        new.tree = tree
        return new


def normalise(ctx, table: Dict[str, Iterable[str]], scopes: Optional[Dict[str, Iterable[str]]] = None):
    """Install normalised views of the given modules in ``ctx`` ({module path: names the rules look up, never expanded}).
    Idempotent per ctx; notes which helpers were read as if inlined."""
    done = ctx.__dict__.setdefault("_normalised", set())
    for rel, known in table.items():
        if rel in done:
            continue
        done.add(rel)
        mod = ctx.mod(rel)
        n = Normaliser(mod, known, scope=(scopes or {}).get(rel))
        try:
            new = n.run()
        except RecursionError:
            continue
        if n.inlined or True:
            ctx.tree._mods[rel] = new
        if n.inlined:
            ctx.note(f"{rel}: private helpers read as if expanded at their call sites: {', '.join(sorted(n.inlined))}"
                     + (f"; method objects read as locals: {', '.join(sorted(set(n.scalarised)))}" if n.scalarised else "")
                     + (f"; not expandable: {n.refused}" if n.refused else ""))


def leaf_values(func, expr, defs=None, depth: int = 6, _seen=frozenset(), _conds=(), _chain=()):
    """Every expression a value can come from: local names are expanded through EVERY plain definition they have in ``func``,
    conditional expressions through both arms.  -> [(leaf expr, ((test, arm), ...), (defining assignment statements, ...))]"""
    if defs is None:
        defs = local_defs(func, track_mutation=False)
    if isinstance(expr, ast.IfExp):
        return leaf_values(func, expr.body, defs, depth, _seen, _conds + ((expr.test, True),), _chain) + \
            leaf_values(func, expr.orelse, defs, depth, _seen, _conds + ((expr.test, False),), _chain)
    if isinstance(expr, ast.Name) and depth > 0 and expr.id not in _seen:
        ds = [d for d in defs.get(expr.id, []) if d is not None]
        if ds and len(ds) == len(defs.get(expr.id, [])):
            out = []
            for d in ds:
                out += leaf_values(func, d, defs, depth - 1, _seen | {expr.id}, _conds, _chain + (getattr(d, "_parent", None),))
            return out
    return [(expr, tuple(_conds), tuple(_chain))]


# ---- a very small statement interpreter (for functions that are evaluated instead of shape-matched) --------------

class MiniStop(Exception):
    """construct outside the interpreter's subset / step budget exhausted (-> AnalysisError of the calling section)"""


class _MiniReturn(Exception):
    def __init__(self, v):
        self.v = v


class _MiniBreak(Exception):
    pass


class _MiniContinue(Exception):
    pass


class _MiniRaise(Exception):
    def __init__(self, name):
        Exception.__init__(self, name)
        self.name = name


def mini_call(func, args: Dict[str, object], budget: int = 2000, builtins: Optional[Dict[str, object]] = None):
    """Interpret ``func`` (assignments, if/while/for, try/except <Name>, return/break/continue, calls of the given builtins and of methods
    of the Python objects handed in) on concrete or symbolic arguments.  Nothing of the repository is executed by CPython."""
    env = dict(args)
    frames: List[Optional[list]] = [None]       # per active call: list collecting yielded values (None: not a generator)
    bi = {"iter": iter, "next": next, "len": len, "list": list, "tuple": tuple, "reversed": reversed, "range": range, "enumerate": enumerate,
          "isinstance": isinstance, "str": str, "bytes": bytes, "True": True, "False": False, "None": None}
    bi.update(builtins or {})
    steps = [0]

    def tick():
        steps[0] += 1
        if steps[0] > budget:
            raise MiniStop("step budget exhausted")

    def ev(e):
        tick()
        if isinstance(e, ast.Constant):
            return e.value
        if isinstance(e, ast.Name):
            if e.id in env:
                return env[e.id]
            if e.id in bi:
                return bi[e.id]
            raise MiniStop(f"unknown name {e.id}")
        if isinstance(e, ast.Attribute):
            v = ev(e.value)
            if isinstance(v, (str, bytes, list, tuple, dict)) or getattr(v, "_mini_symbolic", False):
                try:
                    return getattr(v, e.attr)
                except AttributeError:
                    raise MiniStop(f"attribute {e.attr}")
            raise MiniStop(f"attribute access on {type(v).__name__}")
        if isinstance(e, ast.Call):
            if e.keywords and any(k.arg is None for k in e.keywords):
                raise MiniStop("**kwargs")
            fn = ev(e.func)
            a = [ev(x) for x in e.args]
            kw = {k.arg: ev(k.value) for k in e.keywords}
            try:
                return fn(*a, **kw)
            except StopIteration:
                raise _MiniRaise("StopIteration")
            except OSError:
                raise _MiniRaise("OSError")
            except (IndexError, KeyError, ValueError, TypeError) as ex:
                raise _MiniRaise(type(ex).__name__)
        if isinstance(e, (ast.Tuple, ast.List)):
            vals = [ev(x) for x in e.elts]
            return tuple(vals) if isinstance(e, ast.Tuple) else vals
        if isinstance(e, ast.UnaryOp) and isinstance(e.op, ast.Not):
            return not ev(e.operand)
        if isinstance(e, ast.BoolOp):
            v = None
            for x in e.values:
                v = ev(x)
                if isinstance(e.op, ast.And) and not v:
                    return v
                if isinstance(e.op, ast.Or) and v:
                    return v
            return v
        if isinstance(e, ast.Compare) and len(e.ops) == 1:
            a, b = ev(e.left), ev(e.comparators[0])
            op = type(e.ops[0])
            table = {ast.Eq: lambda: a == b, ast.NotEq: lambda: a != b, ast.Is: lambda: a is b, ast.IsNot: lambda: a is not b, ast.In: lambda: a in b,
                     ast.NotIn: lambda: a not in b, ast.Lt: lambda: a < b, ast.LtE: lambda: a <= b, ast.Gt: lambda: a > b, ast.GtE: lambda: a >= b}
            return table[op]()
        if isinstance(e, ast.Subscript):
            v = ev(e.value)
            if isinstance(e.slice, ast.Slice):
                lo = ev(e.slice.lower) if e.slice.lower else None
                hi = ev(e.slice.upper) if e.slice.upper else None
                stp = ev(e.slice.step) if e.slice.step else None
                return v[lo:hi:stp]
            try:
                return v[ev(e.slice)]
            except (IndexError, KeyError) as ex:
                raise _MiniRaise(type(ex).__name__)
        if isinstance(e, ast.BinOp) and isinstance(e.op, (ast.Add, ast.Sub, ast.Mod, ast.Mult, ast.FloorDiv)):
            a, b = ev(e.left), ev(e.right)
            try:
                return {ast.Add: lambda: a + b, ast.Sub: lambda: a - b, ast.Mod: lambda: a % b, ast.Mult: lambda: a * b, ast.FloorDiv: lambda: a // b}[type(e.op)]()
            except (TypeError, ValueError, ZeroDivisionError) as ex:
                raise _MiniRaise(type(ex).__name__)
        if isinstance(e, ast.UnaryOp) and isinstance(e.op, ast.USub):
            return -ev(e.operand)
        if isinstance(e, (ast.ListComp, ast.SetComp, ast.GeneratorExp, ast.DictComp)):
            saved_ = dict(env)
            acc_ = []

            def gen_(i_):
                if i_ == len(e.generators):
                    acc_.append((ev(e.key), ev(e.value)) if isinstance(e, ast.DictComp) else ev(e.elt))
                    return
                c_ = e.generators[i_]
                if c_.is_async:
                    raise MiniStop("async comprehension")
                for v_ in ev(c_.iter):
                    tick()
                    assign(c_.target, v_)
                    if all(ev(t_) for t_ in c_.ifs):
                        gen_(i_ + 1)
            try:
                gen_(0)
            finally:
                bound_ = {x.id for c_ in e.generators for x in ast.walk(c_.target) if isinstance(x, ast.Name)}
                for k_ in bound_:       # comprehension variables live in their own scope
                    if k_ in saved_:
                        env[k_] = saved_[k_]
                    else:
                        env.pop(k_, None)
            return acc_ if isinstance(e, ast.ListComp) else set(acc_) if isinstance(e, ast.SetComp) else dict(acc_) if isinstance(e, ast.DictComp) else iter(acc_)
        if isinstance(e, ast.JoinedStr):
            out_ = ""
            for v_ in e.values:
                if isinstance(v_, ast.Constant):
                    out_ += str(v_.value)
                elif isinstance(v_, ast.FormattedValue) and v_.format_spec is None and v_.conversion == -1:
                    out_ += format(ev(v_.value))
                else:
                    raise MiniStop("f-string with conversion / format spec")
            return out_
        if isinstance(e, ast.IfExp):
            return ev(e.body) if ev(e.test) else ev(e.orelse)
        if isinstance(e, ast.Yield):
            if frames[-1] is None:
                raise MiniStop("yield outside a generator")
            frames[-1].append(ev(e.value) if e.value is not None else None)
            return None
        if isinstance(e, ast.Lambda):
            return closure(e, [a.arg for a in e.args.args], [ast.Return(value=e.body)], False)
        raise MiniStop(f"expression {type(e).__name__}")

    def closure(node, pnames, body, is_gen):
        def call(*a, **kw):
            nonlocal env
            if len(a) > len(pnames):
                raise MiniStop("closure arity")
            saved = env
            env = dict(env)                      # reads of enclosing names; writes stay local to the call
            env.update(dict(zip(pnames, a)))
            env.update(kw)
            frames.append([] if is_gen else None)
            try:
                try:
                    run(body)
                    rv = None
                except _MiniReturn as r:
                    rv = r.v
                out = frames[-1]
            finally:
                frames.pop()
                env = saved
            return iter(out) if is_gen else rv
        return call

    def assign(t, v):
        if isinstance(t, ast.Name):
            env[t.id] = v
        elif isinstance(t, (ast.Tuple, ast.List)):
            vs = list(v)
            if len(vs) != len(t.elts):
                raise _MiniRaise("ValueError")
            for x, y in zip(t.elts, vs):
                assign(x, y)
        elif isinstance(t, ast.Attribute) and getattr(ev(t.value), "_mini_symbolic", False):
            setattr(ev(t.value), t.attr, v)
        elif isinstance(t, ast.Subscript) and isinstance(ev(t.value), (list, dict)) and not isinstance(t.slice, ast.Slice):
            try:
                ev(t.value)[ev(t.slice)] = v
            except (IndexError, KeyError, TypeError) as ex:
                raise _MiniRaise(type(ex).__name__)
        else:
            raise MiniStop("assignment target")

    def run(stmts):
        for st in stmts:
            tick()
            if isinstance(st, ast.Expr):
                if not isinstance(st.value, ast.Constant):
                    ev(st.value)
            elif isinstance(st, ast.Assign):
                v = ev(st.value)
                for t in st.targets:
                    assign(t, v)
            elif isinstance(st, ast.AnnAssign):
                if st.value is not None:
                    assign(st.target, ev(st.value))
            elif isinstance(st, ast.Return):
                raise _MiniReturn(ev(st.value) if st.value is not None else None)
            elif isinstance(st, ast.FunctionDef):
                if st.decorator_list or st.args.vararg or st.args.kwarg or st.args.kwonlyargs or st.args.defaults:
                    raise MiniStop("nested function with decorators / defaults")
                gen = any(isinstance(x, (ast.Yield, ast.YieldFrom)) for x in walk_local(st) if x is not st)
                env[st.name] = closure(st, [a.arg for a in st.args.args], st.body, gen)
            elif isinstance(st, ast.Assert):
                pass
            elif isinstance(st, ast.AugAssign) and isinstance(st.target, ast.Name) and isinstance(st.op, (ast.Add, ast.Sub)):
                cur = ev(ast.Name(id=st.target.id, ctx=ast.Load()))
                v = ev(st.value)
                env[st.target.id] = cur + v if isinstance(st.op, ast.Add) else cur - v
            elif isinstance(st, ast.If):
                run(st.body if ev(st.test) else st.orelse)
            elif isinstance(st, ast.While):
                while ev(st.test):
                    try:
                        run(st.body)
                    except _MiniBreak:
                        break
                    except _MiniContinue:
                        continue
                else:
                    run(st.orelse)
            elif isinstance(st, ast.For):
                broke = False
                for v in ev(st.iter):
                    assign(st.target, v)
                    try:
                        run(st.body)
                    except _MiniBreak:
                        broke = True
                        break
                    except _MiniContinue:
                        continue
                if not broke:
                    run(st.orelse)
            elif isinstance(st, ast.Try):
                try:
                    try:
                        run(st.body)
                    except _MiniRaise as r:
                        for h in st.handlers:
                            names = [] if h.type is None else [dotted(x) for x in (h.type.elts if isinstance(h.type, ast.Tuple) else [h.type])]
                            if h.type is None or r.name in names or "Exception" in names or "BaseException" in names or \
                                    (r.name in ("IndexError", "KeyError") and "LookupError" in names):
                                run(h.body)
                                break
                        else:
                            raise
                    else:
                        run(st.orelse)
                finally:
                    run(st.finalbody)
            elif isinstance(st, ast.Break):
                raise _MiniBreak()
            elif isinstance(st, ast.Continue):
                raise _MiniContinue()
            elif isinstance(st, ast.Pass):
                pass
            elif isinstance(st, ast.Raise):
                raise _MiniRaise(dotted(st.exc.func if isinstance(st.exc, ast.Call) else st.exc) if st.exc is not None else "reraise")
            else:
                raise MiniStop(f"statement {type(st).__name__}")
    try:
        run([s for s in func.body])
    except _MiniReturn as r:
        return r.v
    return None


# ---- path search that respects boolean flags -----------------------------------------------------------------------

def flag_truth(test, env):
    """truth of a test over the known boolean / None locals ``env``: True / False, or None when it is not decided by them.  Read: ``flag``, ``not <t>``,
    ``flag is [not] None/True/False``, ``flag ==/!= None/True/False``, and / or of these."""
    if isinstance(test, ast.Name):
        return bool(env[test.id]) if test.id in env else None
    if isinstance(test, ast.Constant):
        return bool(test.value)
    if isinstance(test, ast.UnaryOp) and isinstance(test.op, ast.Not):
        v = flag_truth(test.operand, env)
        return None if v is None else not v
    if isinstance(test, ast.BoolOp):
        vs = [flag_truth(x, env) for x in test.values]
        if isinstance(test.op, ast.And):
            return False if any(v is False for v in vs) else (True if all(v is True for v in vs) else None)
        return True if any(v is True for v in vs) else (False if all(v is False for v in vs) else None)
    if isinstance(test, ast.Compare) and len(test.ops) == 1 and isinstance(test.ops[0], (ast.Is, ast.IsNot, ast.Eq, ast.NotEq)):
        a, b = test.left, test.comparators[0]
        if isinstance(a, ast.Constant) and isinstance(b, ast.Name):
            a, b = b, a
        if isinstance(a, ast.Name) and a.id in env and isinstance(b, ast.Constant) and (b.value is None or isinstance(b.value, bool)):
            same = env[a.id] is b.value
            return same if isinstance(test.ops[0], (ast.Is, ast.Eq)) else not same
    return None


def flag_value(expr, env):
    """(known, value) of a returned / assigned expression over the flags: a None / bool literal or a known flag"""
    if isinstance(expr, ast.Constant) and (expr.value is None or isinstance(expr.value, bool)):
        return True, expr.value
    if isinstance(expr, ast.Name) and expr.id in env:
        return True, env[expr.id]
    return False, None


def flag_search(g, starts, targets, avoid=(), edge_ok=None, env0=None, limit: int = 20000, accept=None):
    """Shortest path from ``starts`` to ``targets`` (not through ``avoid``) that is consistent with the boolean / None locals it passes: after
    ``flag = True`` a test ``flag`` / ``not flag`` is only left by the matching edge.  ``starts``: node ids, or (node id, {name: value}) pairs.
    ``accept(node id, env)``: optional extra condition on a target, judged with the flags known on arrival.  Returns the path (list of node ids) or None."""
    targets, avoid = set(targets), set(avoid)
    from collections import deque as _dq
    init = []
    for s in starts:
        if isinstance(s, tuple):
            init.append((s[0], frozenset((s[1] or {}).items())))
        else:
            init.append((s, frozenset((env0 or {}).items())))
    for st in init:
        if st[0] in targets and (accept is None or accept(st[0], dict(st[1]))):
            return [st[0]]                # the failing statement leads there directly
    prev = {st: None for st in init}
    dq = _dq(init)
    n_ = 0
    while dq:
        cur = dq.popleft()
        nid, envf = cur
        n_ += 1
        if n_ > limit:
            raise AnalysisError("flag-consistent path search exceeded its cap")
        if nid in targets and prev[cur] is not None and (accept is None or accept(nid, dict(envf))):
            out = [cur]
            while prev[out[-1]] is not None:
                out.append(prev[out[-1]])
            return [x[0] for x in reversed(out)]
        env = dict(envf)
        node = g.node(nid)
        # effect of the node on the flags
        if node.kind == "stmt" and isinstance(node.ast, (ast.Assign, ast.AnnAssign, ast.AugAssign)):
            tg = node.ast.targets if isinstance(node.ast, ast.Assign) else [node.ast.target]
            val = getattr(node.ast, "value", None)
            for t in tg:
                for e in ast.walk(t):
                    if isinstance(e, ast.Name):
                        if isinstance(node.ast, ast.Assign) and t is e and isinstance(val, ast.Constant) and (isinstance(val.value, bool) or val.value is None):
                            env[e.id] = val.value
                        else:
                            env.pop(e.id, None)
        elif node.kind == "for":
            for e in ast.walk(node.ast.target):
                if isinstance(e, ast.Name):
                    env.pop(e.id, None)
        nenv_ok = frozenset(env.items())
        for b, l in g.succ[nid]:
            if b in avoid and b not in targets:
                continue
            if edge_ok is not None and not edge_ok(nid, b, l):
                continue
            if node.kind == "test" and l in ("T", "F") and isinstance(node.ast, ast.expr):
                tv = flag_truth(node.ast, env)
                if tv is not None and tv != (l == "T"):
                    continue
            # an assignment that raised did not happen: on the exceptional edge the flags are those before the statement
            nxt = (b, envf if l == "exc" else nenv_ok)
            if nxt not in prev:
                prev[nxt] = cur
                dq.append(nxt)
    return None


def flags_at(g, node_id, limit: int = 20000):
    """the sets of known boolean / None locals with which control can reach ``node_id`` from the entry (list of dicts)"""
    from collections import deque as _dq
    start = (g.entry, frozenset())
    seen = {start}
    dq = _dq([start])
    out = []
    while dq:
        nid, envf = dq.popleft()
        if nid == node_id:
            if dict(envf) not in out:
                out.append(dict(envf))
            continue
        env = dict(envf)
        node = g.node(nid)
        if node.kind == "stmt" and isinstance(node.ast, (ast.Assign, ast.AnnAssign, ast.AugAssign)):
            tg = node.ast.targets if isinstance(node.ast, ast.Assign) else [node.ast.target]
            val = getattr(node.ast, "value", None)
            for t in tg:
                for e in ast.walk(t):
                    if isinstance(e, ast.Name):
                        if isinstance(node.ast, ast.Assign) and t is e and isinstance(val, ast.Constant) and (isinstance(val.value, bool) or val.value is None):
                            env[e.id] = val.value
                        else:
                            env.pop(e.id, None)
        nenv = frozenset(env.items())
        for b, l in g.succ[nid]:
            if node.kind == "test" and l in ("T", "F") and isinstance(node.ast, ast.expr) and flag_truth(node.ast, env) not in (None, l == "T"):
                continue
            nxt = (b, envf if l == "exc" else nenv)
            if nxt not in seen and len(seen) < limit:
                seen.add(nxt)
                dq.append(nxt)
    return out or [{}]
