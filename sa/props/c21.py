"""C21 - HTTP server handles pipelined requests one at a time and notifies finish once."""
from __future__ import annotations

import ast

from sa.selftest import Mutant, Silent
from sa.astx import walk_local
from sa.source import AnalysisError, methods
from sa.props._lib_e_machine import ObjV, Opaque, PyRaise, exc_name
from sa.props._lib_e import http_interp
from sa.props._lib_e_struct import c21_flow_control_siblings, c21_channel, c21_request, c21_transport_effects, structural
from sa.props._lib_e_http import Harness, WireError, parse_responses, request_info

PROPERTY = "C21"
HTTP = "web/http.py"
Q = "twisted.web.http."
QC = Q + "HTTPChannel"
QR = Q + "Request"

TECHNIQUE = 'typestate dominance + who-may-write + call-graph closure on inlined view; CFG reachability after the hand-over call; guard valuations; bounded interpreted histories'
EXPLANATION = (
    'Structural and finite-exhaustive rules run on a normalised view (private helpers inlined at their call sites, temporaries followed by partial evaluati'
    'on, guard clauses read through the CFG) and abstain with a note when a shape is not recognised; the bounded layer (source interpreted by an AST interp'
    'reter with model collaborators, compared with an oracle) covers every clause a second time and is the only evidence where stated. STRUCTURAL: busy fla'
    'g and raw mode dominate the application call-out; the busy flag is written True only on the way to a hand-over and False only in __init__ or on the wa'
    'y to the replay (typestate/, no function-name list); every HTTPChannel method that reaches transport.write/writeSequence/loseConnection/abortConnectio'
    'n through the intra-class call graph is either the write API of the head-of-line Request, confined to contexts where no request is handled, or dominat'
    "ed by 'not _handlingRequest' (callgraph/); notifications is only appended a fresh Deferred or reset, each firing loop fires callback(None) / errback(r"
    'eason) and resets the list on every path, _disconnected and finished are set before the call-outs, a firing loop over a detached copy of the list (whi'
    'ch forgets Deferreds registered by the callbacks) is refused unless it drains (notify/). FINITE-EXHAUSTIVE (every valuation of the guards, by partial '
    'evaluation of the inlined method): rawDataReceived buffers iff busy and writes nothing then; requestDone accepts only the head, replays the whole deta'
    'ched buffer with the flag cleared iff persistent, else closes, and wakes the producer; finish reaches _cleanup iff not finished and not disconnected; '
    'the idle timeout is suspended before the hand-over; pauseProducing pauses the network producer under exactly the valuations under which resumeProducin'
    'g resumes it (sibling agreement) (valuation/). Known finding F21n (bounded): a Deferred requested after finish / after connection loss never fires. BO'
    "UNDED ONLY: a pause/resume cycle at every point of a request's life leaves the producer resumed; Deferreds registered re-entrantly while firing fire o"
    'nce; order and integrity of the responses on the wire for pipelined histories, re-entrant callbacks, connection loss points (pipeline/, notify-scenari'
    'o/) - these are statements about interleavings of several calls, for which the per-method structural rules give the ingredients but not the compositio'
    "n. Not decided: byte order under real transports' timing. "
    "STRUCTURAL hand-over (handover/): channel.requestDone(request) replays the buffered pipelined bytes synchronously, so in every Request method that reaches it "
    "(closure over self.<method>() calls) no CFG node after the call uses self.channel / self.transport or calls a Request method that does (a leftover producer is "
    "unregistered before, never after, the next request is handed over)."
)
ASSUMPTIONS = [
    "the model transport delivers every byte it is given and never re-enters the channel",
    "Deferred is modelled as fire-once object raising on a second fire (C03)",
    "CPython semantics for the builtin values the interpreter delegates to",
]


def _req(path, version=b"HTTP/1.1", headers=b"", method=b"GET", body=b""):
    return method + b" " + path + b" " + version + b"\r\nHost: x\r\n" + headers + b"\r\n" + body


def _deliveries(stream):
    out = [("whole", [stream])]
    out += [(f"split@{i}", [stream[:i], stream[i:]]) for i in range(1, len(stream), 13)]
    out.append(("bytewise", [stream[i:i + 1] for i in range(len(stream))]))
    return out


def _answer(h, req, parts):
    for p in parts:
        h.call(req, "write", p)
    h.call(req, "finish")


def _uris(h):
    return [request_info(h, r)["uri"] for r in h.handed]


def _pipelining(ctx, h):
    paths = [b"/1", b"/2", b"/3"]
    stream = _req(paths[0]) + _req(paths[1], headers=b"Content-Length: 4\r\n", method=b"POST", body=b"body") + _req(paths[2])
    methods = [b"GET", b"POST", b"GET"]
    q = QC + ".dataReceived"
    # (1) the application answers later: one request at a time, the next only after finish(), responses in order
    bad = None
    for how, pieces in _deliveries(stream):
        def scen(h, pieces=pieces):
            ch = h.channel()
            trace = []
            for p in pieces:
                h.feed(ch, p)
                trace.append(len(h.handed))
            steps = []
            for k in range(3):
                if len(h.handed) <= k:
                    break
                before = len(h.handed)
                h.call(h.handed[k], "write", b"resp " + paths[k])
                mid = len(h.handed)
                h.call(h.handed[k], "finish")
                steps.append((before, mid, len(h.handed)))
            return trace, steps, _uris(h), h.wire(), h.transport.attrs["disconnecting"]
        o = h.run(scen)
        ok = o.kind == "ok"
        if ok:
            trace, steps, uris, wire, closed = o.value
            ok = max(trace) <= 1 and steps == [(1, 1, 2), (2, 2, 3), (3, 3, 3)] and uris == paths and not closed
            if ok:
                try:
                    rs = parse_responses(wire, methods, closed)
                    ok = [r["body"] for r in rs] == [b"resp " + p for p in paths]
                except WireError as e:
                    ok = False
                    o.value = o.value + (str(e),)
        if not ok:
            bad = (how, o)
            break
    ctx.check(bad is None, "pipeline/one-at-a-time-in-order", q + " | three pipelined requests, answered later",
              (f"delivery {bad[0]}: " + (f"handed-over counts after each delivery / around each finish, URIs, wire, closed = {bad[1].value!r}" if bad[1].kind == "ok"
               else f"{bad[1].kind} {bad[1].exc_name}") + "; expected at most one request handed over until its finish(), then the next, and the responses in request order") if bad else "",
              detail="whole / every 9th split / byte-by-byte: one request at a time, next only after finish(), wire = responses in order")
    # (2) answered inside the hand-over, and mixed
    for mode in ("immediate", "first-later"):
        def scen(h, mode=mode):
            pending = []

            def process(mm, req):
                if mode == "first-later" and not pending and not h.handed[1:]:
                    pending.append(req)
                    return
                _answer(h, req, [b"resp " + request_info(h, req)["uri"]])
            ch = h.channel(process=process)
            h.feed(ch, stream)
            n1 = len(h.handed)
            if pending:
                _answer(h, pending[0], [b"resp " + paths[0]])
            return n1, _uris(h), h.wire(), h.transport.attrs["disconnecting"]
        o = h.run(scen)
        ok = o.kind == "ok"
        detail = ""
        if ok:
            n1, uris, wire, closed = o.value
            ok = uris == paths and not closed and n1 == (3 if mode == "immediate" else 1)
            try:
                ok = ok and [r["body"] for r in parse_responses(wire, methods, closed)] == [b"resp " + p for p in paths]
            except WireError as e:
                ok, detail = False, str(e)
        ctx.check(ok, "pipeline/synchronous-finish", f"{q} | application answers {mode}",
                  f"pipelined requests answered {mode}: {o.value if o.kind == 'ok' else (o.kind, o.exc_name)!r} {detail}; expected all three handed over in order with ordered responses")
    # (3) nothing foreign on the wire / no close while a response is in progress
    for waiting in (False, True):
        for label, flood in (("valid pipelined requests", _req(b"/n") * 4000), ("garbage", b"\x00garbage " * 40000), ("one long line", b"A" * 300000)):
            def scen(h, flood=flood, waiting=waiting):
                ch = h.channel()
                h.feed(ch, _req(b"/slow"))
                r = h.handed[0]
                h.call(r, "write", b"part1")
                n0 = len(h.wire_log())
                if waiting:
                    h.call(ch, "pauseProducing")
                for i in range(0, len(flood), 16000):
                    h.feed(ch, flood[i:i + 16000])
                during = h.wire_log()[n0:]
                handed = len(h.handed)
                h.call(r, "write", b"part2")
                return during, handed
            o = h.run(scen)
            ok = o.kind == "ok" and o.value[0] == [] and o.value[1] == 1
            ctx.check(ok, "pipeline/no-channel-bytes-during-response", f"{q} | {label} flooding behind an unfinished response" + (" (transport asked to pause)" if waiting else ""),
                      (f"while the head-of-line response was in progress the transport received {o.value[0][:2]!r} and {o.value[1]} requests were handed over" if o.kind == "ok"
                       else f"{o.kind} {o.exc_name}") + ": bytes that do not belong to the response appear in the middle of it / the connection is closed under it")
    # (4) non-persistent connections
    for label, first in (("HTTP/1.0", _req(b"/old", version=b"HTTP/1.0")), ("Connection: close", _req(b"/bye", headers=b"Connection: close\r\n"))):
        def scen(h, first=first):
            ch = h.channel()
            h.feed(ch, first + _req(b"/after"))
            _answer(h, h.handed[0], [b"x"])
            h.feed(ch, _req(b"/after2"))
            return _uris(h), h.transport.attrs["disconnecting"], [k for k, d in h.wire_log()].count("close")
        o = h.run(scen)
        ok = o.kind == "ok" and len(o.value[0]) == 1 and o.value[1] is True
        ctx.check(ok, "pipeline/non-persistent-closes", f"{q} | {label}",
                  f"{label} request followed by pipelined requests: handed {o.value[0] if o.kind == 'ok' else o.exc_name!r}, closed={o.value[1] if o.kind == 'ok' else '?'}; "
                  "expected only the first request and a closed connection")
    # (4b) every schedule of deliver / pause / resume / finish: requests reach the application in arrival order, one at a time, responses in order
    import itertools
    reqs = [_req(b"/r%d" % i) for i in (1, 2, 3)]
    maxlen = 5 if ctx.tier == "quick" else 7
    bad = None
    n_sched = 0
    for length in range(2, maxlen + 1):
        for sched in itertools.product("DPRF", repeat=length):
            # prune schedules that are not meaningful: at most 3 deliveries, pause/resume alternate, the schedule starts with a delivery
            if sched[0] != "D" or sched.count("D") > 3 or sched.count("D") < 2 or "F" not in sched:
                continue
            paused, okp = False, True
            for op in sched:
                if op == "P":
                    okp, paused = okp and not paused, True
                elif op == "R":
                    okp, paused = okp and paused, False
            if not okp or (ctx.tier == "quick" and sched.count("P") + sched.count("R") == 0 and length > 4):
                continue
            n_sched += 1

            def scen(h, sched=sched):
                ch = h.channel()
                sent = finished = 0
                inflight_max = 0
                for op in sched:
                    if op == "D":
                        h.feed(ch, reqs[sent])
                        sent += 1
                    elif op == "P":
                        h.call(ch, "pauseProducing")
                    elif op == "R":
                        h.call(ch, "resumeProducing")
                    elif op == "F" and finished < len(h.handed):
                        _answer(h, h.handed[finished], [b"resp " + request_info(h, h.handed[finished])["uri"]])
                        finished += 1
                    inflight_max = max(inflight_max, len(h.handed) - finished)
                # drain: resume and answer everything that is still handed over
                if sched.count("P") > sched.count("R"):
                    h.call(ch, "resumeProducing")
                while finished < len(h.handed):
                    _answer(h, h.handed[finished], [b"resp " + request_info(h, h.handed[finished])["uri"]])
                    finished += 1
                return [i["uri"] for i in h.seen], inflight_max, sent, h.wire(), h.transport.attrs["disconnecting"]
            o = h.run(scen)
            ok = o.kind == "ok"
            if ok:
                uris, inflight, sent, wire, closed = o.value
                want = [b"/r%d" % i for i in range(1, sent + 1)]
                ok = uris == want and inflight <= 1 and not closed
                if ok:
                    try:
                        ok = [r["body"] for r in parse_responses(wire, [b"GET"] * sent, closed)] == [b"resp " + u for u in want]
                    except WireError:
                        ok = False
            if not ok:
                bad = ("".join(sched), o.value if o.kind == "ok" else (o.kind, o.exc_name))
                break
        if bad:
            break
    ctx.check(bad is None, "pipeline/schedules-keep-arrival-order", q + " | deliver / pause / resume / finish schedules",
              (f"schedule {bad[0]} (D = deliver the next request, P/R = transport pauses / resumes the channel, F = the application finishes the oldest request): handed-over URIs, max in flight, "
               f"sent, wire, closed = {bad[1]!r}; requests must reach the application in arrival order, one at a time, and be answered in that order (bytes held back in the pipelining "
               "buffer must not be overtaken by later input)") if bad else "",
              detail=f"{n_sched} schedules up to length {maxlen}")
    # (4c) responses that cannot have a body do not leave stray bytes between pipelined responses
    def scen(h):
        codes = {b"/1": 204, b"/2": 304, b"/3": 200}

        def process(mm, req):
            uri = request_info(h, req)["uri"]
            h.call(req, "setResponseCode", codes[uri])
            if codes[uri] == 200:
                h.call(req, "write", b"body")
            h.call(req, "finish")
        ch = h.channel(process=process)
        h.feed(ch, _req(b"/1") + _req(b"/2") + _req(b"/3"))
        return h.wire(), h.transport.attrs["disconnecting"]
    o = h.run(scen)
    ok = o.kind == "ok"
    detail = ""
    if ok:
        try:
            rs = parse_responses(o.value[0], [b"GET"] * 3, o.value[1])
            ok = [(r["code"], r["body"]) for r in rs] == [(204, b""), (304, b""), (200, b"body")]
        except WireError as e:
            ok, detail = False, str(e)
    ctx.check(ok, "pipeline/bodyless-responses-leave-no-stray-bytes", q + " | 204, 304, 200 pipelined",
              f"three pipelined responses 204 / 304 / 200 give {o.value[0][:200] if o.kind == 'ok' else o.exc_name!r} {detail}; a 204 / 304 carries neither a body nor a chunked terminator, "
              "otherwise stray bytes sit between it and the next response")
    # (5) wake-up of the paused network producer
    def scen(h):
        ch = h.channel()
        h.feed(ch, _req(b"/a") + _req(b"/b") * 600)
        paused = h.producer.attrs["paused"]
        n = len(h.producer.attrs["calls"])
        _answer(h, h.handed[0], [b"x"])
        return paused, 0 if "resume" in h.producer.attrs["calls"][n:] else 1, len(h.handed)
    o = h.run(scen)
    ctx.check(o.kind == "ok" and o.value[0] == 1 and o.value[1] == 0 and o.value[2] >= 2, "pipeline/wake-up", q + " | producer paused by buffered pipelined data",
              f"paused while handling / paused after finish / handed = {o.value if o.kind == 'ok' else o.exc_name!r}: the transport paused because of buffered pipelined data is never "
              "resumed (the next requests are not read) - expected (1, 0, >=2)")
    # (5b) a transport pause/resume cycle at every point of the connection's life leaves the network producer resumed
    for label, prefix, handling in (("idle connection", b"", False), ("request line received", b"GET /a HTTP/1.1\r\n", False), ("request cut in its headers", b"GET /a HTTP/1.1\r\nHo", False),
                                    ("request cut in its body", b"POST /a HTTP/1.1\r\nHost: x\r\nContent-Length: 5\r\n\r\nab", False), ("request being handled", _req(b"/a"), True),
                                    ("request handled, next one partly received", _req(b"/a") + b"GET /b HTTP/1.1\r\nHo", True)):
        def scen(h, prefix=prefix):
            ch = h.channel()
            if prefix:
                h.feed(ch, prefix)
            h.call(ch, "pauseProducing")
            p1 = h.producer.attrs["paused"]
            h.call(ch, "resumeProducing")
            p2 = h.producer.attrs["paused"]
            if h.handed:
                _answer(h, h.handed[0], [b"x"])
            return p1, p2, h.producer.attrs["paused"]
        o = h.run(scen)
        ok = o.kind == "ok" and o.value[1] == 0 and o.value[2] == 0
        ctx.check(ok, "pipeline/pause-resume-cycle", f"{q} | {label}",
                  f"network producer paused after pauseProducing / after resumeProducing / after the response = {o.value if o.kind == 'ok' else o.exc_name!r}; every pause made by pauseProducing must "
                  "be undone by the next resumeProducing (else the rest of the request is never read)")
    # (6) idle timeout not pending while a request is handled
    def scen(h):
        ch = h.channel(timeOut=60)
        p0 = len(h.call(h.clock, "pending"))
        h.feed(ch, _req(b"/a"))
        p1 = len(h.call(h.clock, "pending"))
        _answer(h, h.handed[0], [b"x"])
        p2 = len(h.call(h.clock, "pending"))
        return p0, p1, p2
    o = h.run(scen)
    ctx.check(o.kind == "ok" and o.value == (1, 0, 1), "pipeline/idle-timeout-disabled-while-handling", q + " | timeOut=60",
              f"pending idle-timeout calls before / while handling / after the response = {o.value if o.kind == 'ok' else o.exc_name!r}; expected (1, 0, 1): "
              "an armed timeout closes the transport in the middle of a slow response")
    # (7) only the head of the queue may finish
    def scen(h):
        ch = h.channel()
        h.feed(ch, _req(b"/a"))
        other = h.model_obj("ModelFile")
        try:
            h.call(ch, "requestDone", other)
            r = None
        except PyRaise as e:
            r = exc_name(e.exc)
        return r, len(ch.attrs["requests"])
    o = h.run(scen)
    ctx.check(o.kind == "ok" and o.value == ("TypeError", 1), "pipeline/only-head-may-finish", QC + ".requestDone | foreign request",
              f"requestDone() for an object that is not the head of the queue gives {o.value if o.kind == 'ok' else o.exc_name!r}; expected TypeError and an unchanged queue")


def _notify(ctx, h):
    q = QR + ".notifyFinish"

    def with_deferreds(h):
        h.m.stubs["Deferred"] = h.m.stubs["twisted.internet.defer.Deferred"] = lambda mm, a, k: h.model_obj("ModelDeferred")

    def results(ds):
        return [list(d.attrs["results"]) for d in ds]

    # finish fires each once with None; a later connection loss does not fire again
    def scen(h):
        with_deferreds(h)
        ch = h.channel()
        h.feed(ch, _req(b"/a"))
        r = h.handed[0]
        ds = [h.call(r, "notifyFinish"), h.call(r, "notifyFinish")]
        distinct = ds[0] is not ds[1] and all(isinstance(d, ObjV) for d in ds)
        _answer(h, r, [b"x"])
        after_finish = results(ds)
        h.call(ch, "connectionLost", Opaque("reason", True))
        h.call(r, "connectionLost", Opaque("reason2", True))
        return distinct, after_finish, results(ds)
    o = h.run(scen)
    want = [[("callback", None)], [("callback", None)]]
    ctx.check(o.kind == "ok" and o.value[0] and o.value[1] == want and o.value[2] == want, "notify-scenario/finish-fires-once-with-none", q + " | finish, then connection lost",
              f"two notifyFinish Deferreds: distinct={o.value[0] if o.kind == 'ok' else '?'}, after finish {o.value[1] if o.kind == 'ok' else o.exc_name!r}, after a later connectionLost "
              f"{o.value[2] if o.kind == 'ok' else ''!r}; expected each fired exactly once with None")
    # connection loss fires each once with the reason; finish afterwards is refused and fires nothing
    def scen(h):
        with_deferreds(h)
        ch = h.channel()
        h.feed(ch, _req(b"/a") + _req(b"/b"))
        r = h.handed[0]
        ds = [h.call(r, "notifyFinish"), h.call(r, "notifyFinish")]
        reason = Opaque("reason", True)
        h.call(ch, "connectionLost", reason)
        first = results(ds)
        same = all(len(x) == 1 and x[0][0] == "errback" and x[0][1] is reason for x in first)
        try:
            h.call(r, "write", b"late")
            h.call(r, "finish")
            fin = None
        except PyRaise as e:
            fin = exc_name(e.exc)
        h.call(ch, "connectionLost", reason)
        return same, fin, [len(x) for x in results(ds)], len(h.handed), h.wire()
    o = h.run(scen)
    ctx.check(o.kind == "ok" and o.value[0] and o.value[1] == "RuntimeError" and o.value[2] == [1, 1] and o.value[3] == 1 and o.value[4] == b"", "notify-scenario/connection-lost-fires-once-with-reason",
              q + " | connection lost while handling",
              f"fired-with-reason={o.value[0] if o.kind == 'ok' else '?'}, finish() afterwards -> {o.value[1] if o.kind == 'ok' else o.exc_name!r}, fire counts {o.value[2] if o.kind == 'ok' else ''!r}, "
              f"handed {o.value[3] if o.kind == 'ok' else ''!r}, wire {o.value[4] if o.kind == 'ok' else ''!r}; expected one errback(reason) each, RuntimeError from finish, nothing written or handed over")
    # a callback that calls finish() again (re-entrancy) must not fire / clean up twice
    def scen(h):
        with_deferreds(h)
        ch = h.channel()
        h.feed(ch, _req(b"/a") + _req(b"/b"))
        r = h.handed[0]
        d = h.call(r, "notifyFinish")
        seen = []

        def hook(mm, a, k):
            try:
                h.call(r, "finish")
                seen.append(None)
            except PyRaise as e:
                seen.append(exc_name(e.exc))
        h.m.stubs["HOOK"] = hook
        d.attrs["hook"] = Opaque("HOOK", True)
        try:
            _answer(h, r, [b"x"])
            outer = None
        except PyRaise as e:
            outer = exc_name(e.exc)
        return outer, seen, list(d.attrs["results"]), _uris(h)
    o = h.run(scen)
    ctx.check(o.kind == "ok" and o.value[0] is None and o.value[1] == [None] and o.value[2] == [("callback", None)] and o.value[3] == [b"/a", b"/b"], "notify-scenario/reentrant-finish",
              q + " | callback calls finish() again",
              f"finish() -> {o.value[0] if o.kind == 'ok' else o.exc_name!r}, inner finish() -> {o.value[1] if o.kind == 'ok' else ''!r}, fired {o.value[2] if o.kind == 'ok' else ''!r}, "
              f"handed {o.value[3] if o.kind == 'ok' else ''!r}; expected the second finish() to be a warned no-op, one callback(None), and the next request handed over once")
    # an errback that calls finish(): refused (the request is already marked disconnected), no second firing
    def scen(h):
        with_deferreds(h)
        ch = h.channel()
        h.feed(ch, _req(b"/a"))
        r = h.handed[0]
        d = h.call(r, "notifyFinish")
        d2 = h.call(r, "notifyFinish")
        seen = []

        def hook(mm, a, k):
            try:
                h.call(r, "finish")
                seen.append(None)
            except PyRaise as e:
                seen.append(exc_name(e.exc))
        h.m.stubs["HOOK"] = hook
        d.attrs["hook"] = Opaque("HOOK", True)
        try:
            h.call(ch, "connectionLost", Opaque("reason", True))
            outer = None
        except PyRaise as e:
            outer = exc_name(e.exc)
        return outer, seen, [len(x.attrs["results"]) for x in (d, d2)], h.wire()
    o = h.run(scen)
    ctx.check(o.kind == "ok" and o.value == (None, ["RuntimeError"], [1, 1], b""), "notify-scenario/disconnected-before-errback", q + " | errback calls finish()",
              f"connectionLost -> {o.value if o.kind == 'ok' else o.exc_name!r}; expected finish() inside the errback to raise RuntimeError, each Deferred fired once, nothing written")
    # a Deferred handed out re-entrantly, while the notifications are firing, fires too (exactly once)
    for how in ("finish", "connectionLost"):
        def scen(h, how=how):
            with_deferreds(h)
            ch = h.channel()
            h.feed(ch, _req(b"/a"))
            r = h.handed[0]
            d = h.call(r, "notifyFinish")
            later = []

            def hook(mm, a, k):
                if not later:
                    later.append(h.call(r, "notifyFinish"))
            h.m.stubs["HOOK"] = hook
            d.attrs["hook"] = Opaque("HOOK", True)
            reason = Opaque("reason", True)
            if how == "finish":
                _answer(h, r, [b"x"])
            else:
                h.call(ch, "connectionLost", reason)
            res = [list(x.attrs["results"]) for x in [d] + later]
            return res, [x[0][1] is reason if x and how != "finish" else None for x in res]
        o = h.run(scen)
        kind = "callback" if how == "finish" else "errback"
        ok = o.kind == "ok" and len(o.value[0]) == 2 and all(len(x) == 1 and x[0][0] == kind for x in o.value[0]) and (how == "finish" or all(o.value[1]))
        ctx.check(ok, "notify-scenario/registered-while-firing", f"{q} | notifyFinish() called from a callback during {how}",
                  f"results of the first Deferred and of the one requested while it fired: {o.value[0] if o.kind == 'ok' else o.exc_name!r}; expected each fired exactly once via {kind} "
                  "(a Deferred handed out while the notifications are firing must not be forgotten)")
    # a Deferred handed out after the response finished / after the connection was lost
    for how in ("finish", "connectionLost"):
        def scen(h, how=how):
            with_deferreds(h)
            ch = h.channel()
            h.feed(ch, _req(b"/a"))
            r = h.handed[0]
            if how == "finish":
                _answer(h, r, [b"x"])
            else:
                h.call(ch, "connectionLost", Opaque("reason", True))
            d = h.call(r, "notifyFinish")
            return list(d.attrs["results"])
        o = h.run(scen)
        ctx.check(o.kind == "ok" and len(o.value) == 1, "notify-scenario/registered-after-the-end", f"{q} | notifyFinish() called after {how}",
                  f"a Deferred requested after {how} has fired {len(o.value) if o.kind == 'ok' else o.exc_name!r} times: it is appended to a list nobody will fire again, so it never fires "
                  "('every notifyFinish Deferred fires exactly once')")
    # requests still being parsed / queued are told about the loss as well
    def scen(h):
        with_deferreds(h)
        ch = h.channel()
        h.feed(ch, _req(b"/a") + b"GET /partial HTTP/1.1\r\nHost")
        r = h.handed[0]
        d = h.call(r, "notifyFinish")
        reason = Opaque("reason", True)
        h.call(ch, "connectionLost", reason)
        return list(d.attrs["results"]) == [("errback", reason)], [rq.attrs.get("_disconnected") for rq in ch.attrs["requests"]]
    o = h.run(scen)
    ctx.check(o.kind == "ok" and o.value[0] and all(x is True for x in o.value[1]) and len(o.value[1]) >= 1, "notify-scenario/drain-on-connection-lost", QC + ".connectionLost",
              f"after connectionLost: head request notified={o.value[0] if o.kind == 'ok' else o.exc_name!r}, _disconnected of queued requests {o.value[1] if o.kind == 'ok' else ''!r}; "
              "every queued request must be told")


RULE_KINDS = {
    "typestate/": "structural",          # dominance / must-precede / who-may-write on the inlined view
    "callgraph/": "structural",          # transport effects closed over the intra-class call graph
    "handover/": "structural",           # CFG reachability after the hand-over call + uses-the-channel closure over the intra-class call graph
    "notify/": "structural",             # who-may-write, take-then-fire, must-precede
    "valuation/": "finite-exhaustive",   # every truth assignment of the guards of the (inlined) method, decided by partial evaluation
    "pipeline/": "bounded",              # interpreted scenarios
    "notify-scenario/": "bounded",
}


def check(ctx):
    I = http_interp(ctx)
    structural(ctx, "C21 one-request-at-a-time typestate", lambda s: c21_channel(s, I), "the bounded rules pipeline/*")
    structural(ctx, "C21 transport effects over the call graph", lambda s: c21_transport_effects(s, I), "pipeline/no-channel-bytes-during-response (bounded)")
    structural(ctx, "C21 flow-control sibling agreement", lambda s: c21_flow_control_siblings(s, I), "pipeline/pause-resume-cycle (bounded)")
    structural(ctx, "C21 notifyFinish take-then-fire", lambda s: c21_request(s, I), "the bounded rules notify-scenario/*")
    with ctx.section("pipelining"):
        _pipelining(ctx, Harness(ctx))
    with ctx.section("notifyFinish"):
        _notify(ctx, Harness(ctx))
    with ctx.section("handover"):
        _handover(ctx)


def _handover(ctx):
    """`channel.requestDone(request)` is the hand-over point: it replays the buffered pipelined bytes synchronously, so the next request is parsed and handed to the
    application inside that call.  'the next only after the previous response has finished' therefore needs the finishing request to have let go of the channel
    before the call: in every Request method, nothing that runs after the hand-over uses self.channel / self.transport, directly or through a Request method that does
    (producer registration lives on the channel: a leftover producer unregistered after the hand-over is still registered while the next request renders, and
    HTTPChannel.registerProducer raises out of finish() before the notifyFinish loop runs)."""
    cls = ctx.cls(HTTP, "Request")
    ms = methods(cls)
    CH = {"channel", "transport"}

    def self_attr_loads(node):
        return [x for x in walk_local(node) if isinstance(x, ast.Attribute) and isinstance(x.value, ast.Name) and x.value.id == "self" and x.attr in CH
                and not isinstance(x.ctx, ast.Del)]

    def self_calls(node):
        return [x.func.attr for x in walk_local(node) if isinstance(x, ast.Call) and isinstance(x.func, ast.Attribute) and isinstance(x.func.value, ast.Name)
                and x.func.value.id == "self" and x.func.attr in ms]

    def is_done_call(x):
        # self.channel.requestDone(self), or the same through a local holding the channel
        return (isinstance(x, ast.Call) and isinstance(x.func, ast.Attribute) and x.func.attr == "requestDone" and len(x.args) == 1
                and isinstance(x.args[0], ast.Name) and x.args[0].id == "self")

    # methods that use the channel, and methods that hand over, both closed over self.<method>() calls
    uses = {n for n, f in ms.items() if any(self_attr_loads(st) for st in f.body)}
    hands = {n for n, f in ms.items() if any(is_done_call(x) for st in f.body for x in walk_local(st))}
    ctx.need(hands, "a Request method calling self.channel.requestDone")
    changed = True
    while changed:
        changed = False
        for n, f in ms.items():
            called = {c for st in f.body for c in self_calls(st)}
            if n not in uses and called & uses:
                uses.add(n); changed = True
            if n not in hands and called & hands:
                hands.add(n); changed = True
    sites = 0
    for n in sorted(hands):
        f = ms[n]
        g = ctx.cfg(f)
        at = g.find(lambda x: is_done_call(x) or (isinstance(x, ast.Call) and isinstance(x.func, ast.Attribute) and isinstance(x.func.value, ast.Name)
                                                   and x.func.value.id == "self" and x.func.attr in hands and x.func.attr != n))
        if not at:
            continue
        sites += len(at)
        after = g.reach(at, include_srcs=False)
        bad = []
        for i in sorted(after):
            nd = g.node(i)
            if nd.ast is None or i in at and False:
                continue
            roots = [nd.ast]
            if nd.kind == "for":
                roots = [nd.ast.iter, nd.ast.target]
            elif nd.kind == "with":
                roots = [it.context_expr for it in nd.ast.items]
            elif nd.kind == "test":
                roots = [nd.ast]
            elif isinstance(nd.ast, (ast.If, ast.While, ast.Try, ast.For, ast.With, ast.FunctionDef, ast.AsyncFunctionDef, ast.ClassDef)):
                continue
            for r in roots:
                if self_attr_loads(r):
                    bad.append((nd, "uses self." + self_attr_loads(r)[0].attr))
                else:
                    for c in self_calls(r):
                        if c in uses and c not in hands:
                            bad.append((nd, f"calls self.{c}(), which uses the channel"))
        cons = Q + "Request." + n + " | after self.channel.requestDone(self)"
        if bad:
            for nd, what in bad:
                if nd.id in at and what.startswith("uses self.channel"):
                    continue          # the hand-over statement itself
                ctx.violation("handover/channel-released-before-requestDone", ctx.construct(Q + "Request." + n, nd.ast),
                              f"`{nd.text()[:80]}` runs after the channel was handed to the next pipelined request and {what}: the next request is parsed and rendered "
                              "inside requestDone(), i.e. before the previous response has let go of the connection (a leftover producer is still registered on the "
                              "channel, so the next request's registerProducer raises out of finish() and the notifyFinish Deferreds never fire)")
        if not any(not (nd.id in at and what.startswith("uses self.channel")) for nd, what in bad):
            ctx.ok("handover/channel-released-before-requestDone", cons, f"{len(after)} CFG nodes after the hand-over; none uses self.channel / self.transport or a method in "
                   f"{{{', '.join(sorted(uses - hands))[:200]}}}")
    ctx.floor("handover/channel-released-before-requestDone", sites, 1, "hand-over sites")


MUTANTS = [
    Mutant("channel-touched-after-handover", HTTP, "        self.channel.requestDone(self)\n        del self.channel\n",
           "        self.channel.requestDone(self)\n        self.channel._networkProducer.resumeProducing()\n        del self.channel\n",
           expect_rule="handover/channel-released-before-requestDone"),
    Mutant("leftover-producer-released-after-handover", HTTP, "            self.unregisterProducer()\n        self.channel.requestDone(self)\n        del self.channel\n",
           "            leftover = True\n        else:\n            leftover = False\n        self.channel.requestDone(self)\n        if leftover:\n            self.unregisterProducer()\n        del self.channel\n",
           expect_rule="handover/channel-released-before-requestDone"),
    Mutant("replay-postponed-while-transport-paused", HTTP, "            data = b\"\".join(self._dataBuffer)\n            self._dataBuffer = []\n            self.setLineMode(data)",
           "            if self._waitingForTransport:\n                self.setLineMode()\n            else:\n                data = b\"\".join(self._dataBuffer)\n                self._dataBuffer = []\n                self.setLineMode(data)",
           more=[(HTTP, "        if not self._handlingRequest:\n            self._networkProducer.resumeProducing()\n\n    def _send100Continue", "        if not self._handlingRequest:\n            self._networkProducer.resumeProducing()\n            if self._dataBuffer:\n                held, self._dataBuffer = b\"\".join(self._dataBuffer), []\n                self.setLineMode(held)\n\n    def _send100Continue")]),
    Mutant("chunked-framing-for-204-and-304", HTTP, "                and self.method != b\"HEAD\"\n                and self.code not in NO_BODY_CODES", "                and self.method != b\"HEAD\""),
    Mutant("notifications-detached-before-firing", HTTP, "        for d in self.notifications:\n            d.callback(None)\n        self.notifications = []", "        pending = self.notifications\n        self.notifications = []\n        for d in pending:\n            d.callback(None)"),
    Mutant("notifications-detached-before-firing-in-shared-helper", HTTP, "        for d in self.notifications:\n            d.callback(None)\n        self.notifications = []",
           "        self._settle(lambda d: d.callback(None))",
           more=[(HTTP, "        for d in self.notifications:\n            d.errback(reason)\n        self.notifications = []", "        self._settle(lambda d: d.errback(reason))"),
                 (HTTP, "    def loseConnection(self):\n        \"\"\"\n        Pass the loseConnection through to the underlying channel.", "    def _settle(self, how):\n        waiting, self.notifications = self.notifications, []\n        for d in waiting:\n            how(d)\n\n    def loseConnection(self):\n        \"\"\"\n        Pass the loseConnection through to the underlying channel.")]),
    Mutant("busy-flag-after-hand-over", HTTP, "        self._handlingRequest = True\n\n        # We go into raw mode", "        # We go into raw mode",
           more=[(HTTP, "        req.requestReceived(command, path, version)\n", "        req.requestReceived(command, path, version)\n        self._handlingRequest = True\n")]),
    Mutant("no-raw-mode-while-handling", HTTP, "        self.setRawMode()\n\n        req = self.requests[-1]", "        req = self.requests[-1]"),
    Mutant("buffering-falls-into-decoder", HTTP, "                self._networkProducer.pauseProducing()\n            return\n", "                self._networkProducer.pauseProducing()\n"),
    Mutant("replay-before-buffer-reset", HTTP, "            self._dataBuffer = []\n            self.setLineMode(data)", "            self.setLineMode(data)\n            self._dataBuffer = []"),
    Mutant("flag-cleared-after-replay", HTTP, "            self._handlingRequest = False\n\n            if self._savedTimeOut:", "            if self._savedTimeOut:",
           more=[(HTTP, "            self.setLineMode(data)\n        else:\n            self.loseConnection()", "            self.setLineMode(data)\n            self._handlingRequest = False\n        else:\n            self.loseConnection()")]),
    Mutant("buffer-reset-before-read", HTTP, "            data = b\"\".join(self._dataBuffer)\n            self._dataBuffer = []", "            self._dataBuffer = []\n            data = b\"\".join(self._dataBuffer)"),
    Mutant("head-check-dropped", HTTP, "        if request != self.requests[0]:\n            raise TypeError\n", ""),
    Mutant("replay-on-non-persistent", HTTP, "        if self.persistent:\n            self._handlingRequest = False", "        if True:\n            self._handlingRequest = False"),
    Mutant("missing-wake-up", HTTP, "        if not self._waitingForTransport:\n            self._networkProducer.resumeProducing()\n\n        if self.persistent:", "        if self.persistent:"),
    Mutant("cleanup-keeps-notifications", HTTP, "            d.callback(None)\n        self.notifications = []", "            d.callback(None)"),
    Mutant("connectionLost-keeps-notifications", HTTP, "            d.errback(reason)\n        self.notifications = []", "            d.errback(reason)"),
    Mutant("finished-set-after-cleanup", HTTP, "        self.finished = 1\n        if not self.queued:\n            self._cleanup()", "        if not self.queued:\n            self._cleanup()\n        self.finished = 1"),
    Mutant("finish-after-disconnect-allowed", HTTP, "        if self._disconnected:\n            raise RuntimeError(\n                \"Request.finish called on a request after its connection was lost; \"\n                \"use Request.notifyFinish to keep track of this.\"\n            )\n", ""),
    Mutant("disconnected-marked-after-errbacks", HTTP, "        self._disconnected = True\n        self.channel = None\n", "        self.channel = None\n",
           more=[(HTTP, "            d.errback(reason)\n        self.notifications = []", "            d.errback(reason)\n        self.notifications = []\n        self._disconnected = True")]),
    Mutant("notifyFinish-returns-first", HTTP, "        return self.notifications[-1]", "        return self.notifications[0]"),
    Mutant("drain-skips-head", HTTP, "        for request in self.requests:\n            request.connectionLost(reason)", "        for request in self.requests[1:]:\n            request.connectionLost(reason)"),
    Mutant("hard-cap-answers-400-mid-response", HTTP, "            self._dataBuffer.append(data)\n            if (\n",
           "            self._dataBuffer.append(data)\n            if sum(map(len, self._dataBuffer)) > 0x40000:\n                self._respondToBadRequestAndDisconnect()\n            if (\n"),
    Mutant("hard-cap-closes-mid-response", HTTP, "            self._dataBuffer.append(data)\n            if (\n",
           "            self._dataBuffer.append(data)\n            if sum(map(len, self._dataBuffer)) > 0x40000:\n                self.loseConnection()\n            if (\n"),
    Mutant("backpressure-notice-written-by-channel", HTTP, "        self._waitingForTransport = True\n\n        # The first step", "        self._waitingForTransport = True\n        self._send100Continue()\n\n        # The first step"),
    Mutant("resume-guard-differs-from-pause-guard", HTTP, "        # We only want to resume the network producer if we're not currently\n        # waiting for a response to show up.\n        if not self._handlingRequest:", "        # We only want to resume the network producer if we're not currently\n        # waiting for a response to show up.\n        if not self.requests:"),
    Mutant("idle-timeout-armed-while-handling", HTTP, "        if self.timeOut:\n            self._savedTimeOut = self.setTimeout(None)\n\n        self._handlingRequest = True", "        self._handlingRequest = True"),
    Mutant("replay-only-first-buffered-piece", HTTP, "            data = b\"\".join(self._dataBuffer)\n", "            data = b\"\".join(self._dataBuffer[:1])\n"),
    Mutant("cleanup-does-not-report-done", HTTP, "        self.channel.requestDone(self)\n        del self.channel", "        del self.channel"),
    Mutant("finish-fires-errback", HTTP, "            d.callback(None)", "            d.errback(None)"),
]
SILENT = [
    Silent("handover-content-closed-first", HTTP, "        self.channel.requestDone(self)\n        del self.channel\n        if self.content is not None:\n            try:\n                self.content.close()\n            except OSError:\n                # win32 suckiness, no idea why it does this\n                pass\n            del self.content\n",
           "        if self.content is not None:\n            try:\n                self.content.close()\n            except OSError:\n                pass\n            del self.content\n        self.channel.requestDone(self)\n        del self.channel\n"),
    Silent("400-reached-through-a-class-level-table-of-functions", HTTP, '    def _maybeChooseTransferDecoder(self, header, data):\n',
           '    _onFramingError = {"reject": _failChooseTransferDecoder}\n\n    def _maybeChooseTransferDecoder(self, header, data):\n', more=[(HTTP, '            if not data.isdigit():\n                return self._failChooseTransferDecoder()\n', '            if not data.isdigit():\n                return self._onFramingError["reject"](self)\n')]),
    Silent("notifications-fired-by-shared-helper-in-place", HTTP, "        for d in self.notifications:\n            d.callback(None)\n        self.notifications = []",
           "        self._settle(lambda d: d.callback(None))",
           more=[(HTTP, "        for d in self.notifications:\n            d.errback(reason)\n        self.notifications = []", "        self._settle(lambda d: d.errback(reason))"),
                 (HTTP, "    def loseConnection(self):\n        \"\"\"\n        Pass the loseConnection through to the underlying channel.", "    def _settle(self, how):\n        for d in self.notifications:\n            how(d)\n        self.notifications = []\n\n    def loseConnection(self):\n        \"\"\"\n        Pass the loseConnection through to the underlying channel.")]),
    Silent("buffer-handling-in-helpers", HTTP, "            data = b\"\".join(self._dataBuffer)\n            self._dataBuffer = []\n            self.setLineMode(data)", "            self.setLineMode(self._drainPipelined())",
           more=[(HTTP, "    def timeoutConnection(self):\n", "    def _drainPipelined(self):\n        pieces, self._dataBuffer = self._dataBuffer, []\n        return b\"\".join(pieces)\n\n    def timeoutConnection(self):\n")]),
    Silent("raw-data-branches-swapped", HTTP, "        if self._handlingRequest:\n            self._dataBuffer.append(data)\n            if (\n                sum(map(len, self._dataBuffer)) > self._optimisticEagerReadSize\n            ) and not self._waitingForTransport:",
           "        if not self._handlingRequest:\n            try:\n                self._transferDecoder.dataReceived(data)\n            except _MalformedChunkedDataError:\n                self._respondToBadRequestAndDisconnect()\n            return\n        if True:\n            self._dataBuffer.append(data)\n            if (\n                sum(map(len, self._dataBuffer)) > self._optimisticEagerReadSize\n            ) and not self._waitingForTransport:"),
    Silent("pop-first", HTTP, "        del self.requests[0]\n", "        self.requests.pop(0)\n"),
    Silent("head-check-identity", HTTP, "        if request != self.requests[0]:\n            raise TypeError", "        if request is not self.requests[0]:\n            raise TypeError"),
    Silent("buffer-swap-tuple", HTTP, "            data = b\"\".join(self._dataBuffer)\n            self._dataBuffer = []\n", "            data, self._dataBuffer = b\"\".join(self._dataBuffer), []\n"),
    Silent("buffer-cleared-in-place", HTTP, "            data = b\"\".join(self._dataBuffer)\n            self._dataBuffer = []\n", "            data = b\"\".join(self._dataBuffer)\n            self._dataBuffer.clear()\n"),
    Silent("notifyFinish-local", HTTP, "        self.notifications.append(Deferred())\n        return self.notifications[-1]", "        d: Deferred[None] = Deferred()\n        self.notifications.append(d)\n        return d"),
    Silent("busy-and-raw-swapped", HTTP, "        self._handlingRequest = True\n\n        # We go into raw mode here even though we will be receiving lines next\n        # in the protocol; however, this data will be buffered and then passed\n        # back to line mode in the setLineMode call in requestDone.\n        self.setRawMode()\n",
           "        self.setRawMode()\n        self._handlingRequest = True\n"),
    Silent("pause-condition-with-local", HTTP, "            if (\n                sum(map(len, self._dataBuffer)) > self._optimisticEagerReadSize\n            ) and not self._waitingForTransport:",
           "            buffered = sum(map(len, self._dataBuffer))\n            if buffered > self._optimisticEagerReadSize and not self._waitingForTransport:"),
    Silent("reject-helper-extracted", HTTP, "        self._receivedHeaderSize += len(line)\n        if self._receivedHeaderSize > self.totalHeadersSize:\n            self._respondToBadRequestAndDisconnect()\n            return\n",
           "        self._receivedHeaderSize += len(line)\n        if self._receivedHeaderSize > self.totalHeadersSize:\n            self._rejectOversized()\n            return\n",
           more=[(HTTP, "    def _finishRequestBody(self, data):\n", "    def _rejectOversized(self):\n        self._respondToBadRequestAndDisconnect()\n\n    def _finishRequestBody(self, data):\n")]),
    Silent("hard-cap-only-when-idle", HTTP, "        try:\n            self._transferDecoder.dataReceived(data)\n        except _MalformedChunkedDataError:\n            self._respondToBadRequestAndDisconnect()",
           "        if len(data) > 0x4000000:\n            self._respondToBadRequestAndDisconnect()\n            return\n        try:\n            self._transferDecoder.dataReceived(data)\n        except _MalformedChunkedDataError:\n            self._respondToBadRequestAndDisconnect()"),
    Silent("drain-over-copy", HTTP, "        for request in self.requests:\n            request.connectionLost(reason)", "        for req in list(self.requests):\n            req.connectionLost(reason)"),
    Silent("persistent-branches-swapped", HTTP, "            self.setLineMode(data)\n        else:\n            self.loseConnection()", "            self.setLineMode(data)\n            return\n        self.loseConnection()"),
]
