"""C21 - HTTP server handles pipelined requests one at a time and notifies finish once."""
from __future__ import annotations

import ast

from sa.astx import assigned_targets, call_attr, call_name, dotted, src, statements, walk_local
from sa.effects import class_accesses
from sa.selftest import Mutant, Silent
from sa.props._lib_e import (assigns_self, call_in, calls_named, http_interp, is_const, local_values, make_env, no_exc, ordered,
                             resolve_local, self_attr, site_label, walk)

PROPERTY = "C21"
HTTP = "web/http.py"
Q = "twisted.web.http."
QC = Q + "HTTPChannel."
QR = Q + "Request."

TECHNIQUE = "CFG must-precede/must-pass, who-may-write, take-then-fire on HTTPChannel/Request"
EXPLANATION = (
    "Decides (a) one request at a time: in allContentReceived the busy flag and raw mode are established before the application call-out; "
    "rawDataReceived only buffers while busy (and writes nothing of its own to the transport then) and only decodes while not; requestDone accepts only the head request, removes it from the front, "
    "and - only when persistent - clears the flag, detaches the buffered bytes and then replays them (in that order), else closes; it wakes the "
    "paused network producer; no new request is started on a non-persistent connection; _handlingRequest has exactly three writers; "
    "no HTTPChannel method that reaches transport.write/writeSequence/loseConnection/abortConnection (intra-class call graph) can do so while a request is "
    "being handled, except the write API used by the head-of-line Request: each such method is either confined to line mode / requestDone / the (disabled) idle "
    "timeout, or every effect site is dominated by 'not _handlingRequest'; "
    "(b) notifyFinish: the list is appended only by notifyFinish (which returns the Deferred it appended), fired with None only in _cleanup and "
    "with the reason only in connectionLost, each resetting the list on every path; _cleanup is reached only from finish under 'not finished and "
    "not disconnected' after finished was set; the channel's connectionLost drains every queued request. Not decided: byte order of responses "
    "on the wire, behaviour of application callbacks."
)
ASSUMPTIONS = [
    "Deferred.callback/errback do not raise for a Deferred fired once (C03)",
    "application code re-enters only through requestReceived / notifyFinish callbacks",
    "lineReceived/rawDataReceived are driven only by LineReceiver.dataReceived according to line_mode; TimeoutMixin.resetTimeout is a no-op while timeOut is None",
    "Request.requestReceived's own 400 (multipart parse failure) is the head-of-line request's response",
]


def _hit(vis, nodes):
    return any(n in vis for n in nodes)


def _channel(ctx, I):
    mod = ctx.mod(HTTP)
    cls = ctx.cls(HTTP, "HTTPChannel")
    # ---- allContentReceived ------------------------------------------------------------------------
    f = ctx.func(HTTP, "HTTPChannel.allContentReceived")
    g = ctx.cfg(f)
    q = QC + "allContentReceived"
    out = calls_named(g, ".requestReceived")
    ctx.need(out, "req.requestReceived call-out in allContentReceived")
    busy = assigns_self(g, "_handlingRequest", lambda v: is_const(v, True))
    w = ordered(g, busy, out)
    ctx.check(bool(busy) and w is None, "pipeline/busy-before-hand-over", q + " | self._handlingRequest = True",
              "the busy flag is not set before the application is called: a request finished synchronously (requestDone) is followed by the flag "
              "being set with nobody left to clear it, or pipelined bytes are parsed while the application still works", witness=g.describe(w))
    raw = calls_named(g, "self.setRawMode")
    w = ordered(g, raw, out)
    ctx.check(bool(raw) and w is None, "pipeline/raw-mode-before-hand-over", q + " | self.setRawMode()",
              "the channel is not switched to raw (buffering) mode before the hand-over: the next pipelined request line is parsed while this one is being handled",
              witness=g.describe(w))
    c = call_in(g.node(out[0]).ast, ".requestReceived")
    recv = c.func.value
    vals = [src(v) for v in resolve_local(f, recv)]
    ctx.check(vals == ["self.requests[-1]"], "pipeline/hand-over-newest", ctx.construct(q, c), "the request handed to the application is not the one just parsed")
    # ---- rawDataReceived ------------------------------------------------------------------------------
    f = ctx.func(HTTP, "HTTPChannel.rawDataReceived")
    g = ctx.cfg(f)
    q = QC + "rawDataReceived"
    p = f.args.args[1].arg
    dec = calls_named(g, "self._transferDecoder.dataReceived")
    buf = [n for n in calls_named(g, "self._dataBuffer.append") if src(call_in(g.node(n).ast, "self._dataBuffer.append").args[0]) == p]
    ctx.need(dec, "decoder call in rawDataReceived")
    for flag in (True, False):
        vis = walk(g, I, make_env({"self._handlingRequest": flag}))
        if flag:
            ok = _hit(vis, buf) and not _hit(vis, dec)
            why = "while a request is being handled, received bytes are not (only) buffered: they reach the body decoder of a request that is already complete"
        else:
            ok = _hit(vis, dec) and not _hit(vis, buf)
            why = "while no request is being handled, received body bytes are buffered instead of decoded"
        ctx.check(ok, "pipeline/buffer-while-busy", f"{q} | _handlingRequest={flag}", why)
    # ---- requestDone --------------------------------------------------------------------------------------
    f = ctx.func(HTTP, "HTTPChannel.requestDone")
    g = ctx.cfg(f)
    q = QC + "requestDone"
    rp = f.args.args[1].arg
    acc = [a for a in class_accesses(mod, cls, {"requests"}) if a.func == "HTTPChannel.requestDone"]
    ctx.check(bool(acc), "pipeline/head-removed", q, "the finished request is not removed from the queue")
    rem = []
    for a in acc:
        front = a.kind == "pop_first" or (a.kind == "delitem" and isinstance(a.node, ast.Delete) and any(
            isinstance(t, ast.Subscript) and is_const(t.slice, 0) for t in a.node.targets))
        ctx.check(front, "pipeline/fifo", ctx.construct(q, a.node), "requests are appended at the back but the finished one is not removed from the front")
        rem.extend(g.ids_of(a.node))
    appends = [a for a in class_accesses(mod, cls, {"requests"}) if a.func != "HTTPChannel.requestDone" and a.kind != "rebind-empty"]
    for a in appends:
        ctx.check(a.kind == "append", "pipeline/fifo", ctx.construct(Q + a.func, a.node), f"the request queue is filled by {a.kind}, not append")
    A, B = object(), object()
    vis_same = walk(g, I, make_env({rp: A, "self.requests[0]": A}))
    vis_diff = walk(g, I, make_env({rp: A, "self.requests[0]": B}))
    ctx.check(_hit(vis_same, rem) and not _hit(vis_diff, rem), "pipeline/only-head-may-finish", q + " | head check",
              "requestDone() for a request that is not the head of the queue removes a request (responses would be attributed to the wrong request)")
    clear = assigns_self(g, "_handlingRequest", lambda v: is_const(v, False))
    replay = calls_named(g, "self.setLineMode")
    lose = calls_named(g, "self.loseConnection", "self.transport.loseConnection")
    ctx.need(replay, "self.setLineMode(...) replay in requestDone")
    vis_p = walk(g, I, make_env({rp: A, "self.requests[0]": A, "self.persistent": 1}))
    vis_n = walk(g, I, make_env({rp: A, "self.requests[0]": A, "self.persistent": 0}))
    ctx.check(_hit(vis_p, replay) and _hit(vis_p, clear) and not _hit(vis_p, lose), "pipeline/persistent-replays", q + " | persistent",
              "on a persistent connection the finished request does not clear the busy flag and replay the buffered bytes")
    ctx.check(_hit(vis_n, lose) and not _hit(vis_n, replay), "pipeline/non-persistent-closes", q + " | not persistent",
              "on a non-persistent connection the buffered bytes are replayed as a new request / the connection is not closed")
    w = ordered(g, clear, replay)
    ctx.check(bool(clear) and w is None, "pipeline/flag-cleared-before-replay", q + " | self._handlingRequest = False",
              "the buffered bytes are replayed while the channel still claims to be busy: the next request's body is buffered instead of decoded",
              witness=g.describe(w))
    joins = [n for n in g.ids(lambda n: n.kind == "stmt" and isinstance(n.ast, ast.Assign)) if "self._dataBuffer" in src(g.node(n).ast.value) and
             any(isinstance(t, ast.Name) for t in assigned_targets(g.node(n).ast))]
    resets = [n for a in class_accesses(mod, cls, {"_dataBuffer"}) if a.func == "HTTPChannel.requestDone" and a.kind in ("rebind-empty", "clear", "assign")
              for n in g.ids_of(a.node)]
    for r in replay:
        c = call_in(g.node(r).ast, "self.setLineMode")
        a0 = c.args[0] if c.args else None
        okarg = isinstance(a0, ast.Name) and any(a0.id in [t.id for t in assigned_targets(g.node(j).ast) if isinstance(t, ast.Name)] for j in joins)
        if okarg:
            for j in joins:
                st = g.node(j).ast
                val = st.value.elts[[i for i, t in enumerate(st.targets[0].elts) if isinstance(t, ast.Name) and t.id == a0.id][0]] \
                    if isinstance(st.targets[0], ast.Tuple) and isinstance(st.value, ast.Tuple) else st.value
                try:
                    okarg = okarg and I.ev(val, make_env({"self._dataBuffer": [b"ab", b"", b"cd", b"e"]})) == b"abcde"
                except Exception:
                    okarg = False
        ctx.check(okarg, "pipeline/replay-buffered-bytes", ctx.construct(q, c), "what is replayed is not the concatenation of all buffered bytes in arrival order")
        w = ordered(g, resets, [r])
        ctx.check(bool(resets) and w is None, "pipeline/buffer-detached-before-replay", ctx.construct(q, c),
                  "the buffer is replayed before it is emptied: a request finishing inside the replay re-enters requestDone and replays the same bytes again",
                  witness=g.describe(w))
    for r in resets:
        w = ordered(g, joins, [r])
        ctx.check(bool(joins) and w is None, "pipeline/buffer-read-before-reset", ctx.construct(q, g.node(r).ast),
                  "the buffer is emptied before its content is taken: pipelined requests are lost", witness=g.describe(w))
    res = calls_named(g, "self._networkProducer.resumeProducing")
    vis_w = walk(g, I, make_env({rp: A, "self.requests[0]": A, "self._waitingForTransport": False}))
    ctx.check(_hit(vis_w, res), "pipeline/wake-up", q + " | resume network producer",
              "the transport paused by rawDataReceived while the request was handled is never resumed: the next pipelined requests are not read")
    for a in class_accesses(mod, cls, {"_handlingRequest"}):
        v = getattr(a.node, "value", None)
        ok = (a.func, getattr(v, "value", "?")) in (("HTTPChannel.__init__", False), ("HTTPChannel.allContentReceived", True), ("HTTPChannel.requestDone", False))
        ctx.check(ok and a.kind == "assign", "pipeline/who-may-write-busy-flag", ctx.construct(Q + a.func, a.node), "_handlingRequest is written in an unexpected place / with an unexpected value")
    # ---- no new request on a non-persistent connection ------------------------------------------------------------
    f = ctx.func(HTTP, "HTTPChannel.lineReceived")
    g = ctx.cfg(f)
    q = QC + "lineReceived"
    lp = f.args.args[1].arg
    mk = calls_named(g, "self.requestFactory") + calls_named(g, "self.requests.append")
    ctx.need(mk, "request creation in lineReceived")
    vis = walk(g, I, make_env({lp: b"GET / HTTP/1.1", "self.__first_line": 1, "self.persistent": 0}))
    ctx.check(not _hit(vis, mk), "pipeline/no-request-after-close", q + " | not persistent",
              "a request line received after the last (non-persistent) request creates a new request")
    vis = walk(g, I, make_env({lp: b"GET / HTTP/1.1", "self.__first_line": 1, "self.persistent": 1}))
    ctx.check(_hit(vis, mk), "pipeline/request-created", q + " | persistent", "a request line on a persistent connection does not create a request")
    # ---- drain on connection loss -------------------------------------------------------------------------------------
    f = ctx.func(HTTP, "HTTPChannel.connectionLost")
    g = ctx.cfg(f)
    q = QC + "connectionLost"
    rp = f.args.args[1].arg
    loops = [n for n in g.ids(lambda n: n.kind == "for") if src(g.node(n).ast.iter) in ("self.requests", "list(self.requests)", "self.requests[:]", "tuple(self.requests)")]
    ok = bool(loops)
    wit = None
    for n in loops:
        fo = g.node(n).ast
        calls = [c for c in ast.walk(fo) if isinstance(c, ast.Call) and call_attr(c) == "connectionLost" and isinstance(c.func.value, ast.Name)
                 and isinstance(fo.target, ast.Name) and c.func.value.id == fo.target.id]
        ok = ok and bool(calls) and all(len(c.args) == 1 and src(c.args[0]) == rp for c in calls)
        wit = wit or g.must_pass([g.entry], [n], exc=False)
    ctx.check(ok and wit is None, "notify/drain-on-connection-lost", q,
              "connectionLost does not pass the reason to every queued request: their notifyFinish Deferreds never fire", witness=g.describe(wit))


EFFECTS = ("self.transport.write", "self.transport.writeSequence", "self.transport.loseConnection", "self.transport.abortConnection")
REQUEST_API = {"writeHeaders": "Request.write emits its own header block through it", "write": "Request.write / finish emit the body through it",
               "writeSequence": "Request.write emits chunks through it", "loseConnection": "Request.loseConnection passes through"}
SAFE_ROOTS = {"lineReceived": "line mode is left before the hand-over (raw-mode-before-hand-over) and re-entered only after the busy flag is cleared (flag-cleared-before-replay)",
              "requestDone": "invoked by the head-of-line request when its response is complete",
              "timeoutConnection": "the idle timeout is disabled while a request is handled (idle-timeout-disabled-while-handling)",
              "forceAbortClient": "scheduled only by timeoutConnection"}


def _transport_effects(ctx, I):
    """Responses are not interleaved: while a request is being handled the channel itself neither writes to the
    transport nor closes it.  Every HTTPChannel method that can reach transport.write/writeSequence/loseConnection/
    abortConnection through the intra-class call graph is classified: the write API used by the head-of-line Request;
    methods that run only in a context where no request is in progress (derived: all their call sites lie in such a
    method or are dominated by 'not self._handlingRequest'); everything else (externally driven entry points such as
    rawDataReceived) must have each effect site dominated by 'not self._handlingRequest'."""
    from sa.source import methods
    cls = ctx.cls(HTTP, "HTTPChannel")
    ms = methods(cls)
    cfgs = {n: ctx.cfg(m) for n, m in ms.items()}
    direct, calls = {}, {}
    for n, g in cfgs.items():
        direct[n] = calls_named(g, *EFFECTS)
        calls[n] = []
        for node in g.ids(lambda x: x.kind in ("stmt", "test", "for", "with")):
            for c in walk_local(g.node(node).ast):
                if isinstance(c, ast.Call) and isinstance(c.func, ast.Attribute) and self_attr(c.func) and c.func.attr in ms:
                    calls[n].append((c.func.attr, node))
    W = {n for n in ms if direct[n]}
    changed = True
    while changed:
        changed = False
        for n in ms:
            if n not in W and any(c in W for c, _ in calls[n]):
                W.add(n)
                changed = True
    ctx.check(all(a in W for a in REQUEST_API), "pipeline/write-api", QC + "writeHeaders/write/writeSequence/loseConnection",
              "the write API used by Request no longer reaches the transport")
    busy_vis = {n: walk(cfgs[n], I, make_env({"self._handlingRequest": True})) for n in W}

    def site_guarded(m, node):
        return node not in busy_vis[m]
    callers = {n: [(m, node) for m in ms for c, node in calls[m] if c == n] for n in ms}
    safe = {n for n in SAFE_ROOTS if n in ms}
    changed = True
    while changed:
        changed = False
        for n in W - safe - set(REQUEST_API):
            cs = callers[n]
            if cs and all(m in safe or (m in W and site_guarded(m, node)) for m, node in cs):
                safe.add(n)
                changed = True
    for n in sorted(W - set(REQUEST_API)):
        q = QC + n
        if n in safe:
            ctx.ok("pipeline/no-channel-bytes-during-response", q,
                   SAFE_ROOTS.get(n) or ("reached only from " + ", ".join(sorted({m for m, _ in callers[n]})) + " in a context where no request is being handled"))
            continue
        if callers[n]:
            continue  # not an entry point: the unjustified call site is reported in its (entry-point) caller
        g = cfgs[n]
        sites = list(direct[n]) + [node for c, node in calls[n] if c in W]
        for node in sorted(set(sites)):
            ctx.check(site_guarded(n, node), "pipeline/no-channel-bytes-during-response", ctx.construct(q, g.node(node).ast),
                      f"{n} can run while a request is being handled and reaches the transport (write / close) without being dominated by 'not self._handlingRequest': "
                      "bytes that do not belong to the head-of-line response (e.g. a 400 for pipelined input not parsed yet) appear in the middle of it, or the "
                      "connection is closed under the response", witness=g.describe(g.path([g.entry], [node], edge_ok=no_exc)))
    ctx.floor("pipeline/no-channel-bytes-during-response", len(W - set(REQUEST_API)), 6)
    # the idle timeout cannot fire while a request is being handled
    f = ctx.func(HTTP, "HTTPChannel.allContentReceived")
    g = ctx.cfg(f)
    out = calls_named(g, ".requestReceived")
    off = [n for n in calls_named(g, "self.setTimeout") if (lambda c: len(c.args) == 1 and isinstance(c.args[0], ast.Constant) and c.args[0].value is None)(call_in(g.node(n).ast, "self.setTimeout"))]
    vis = walk(g, I, make_env({"self.timeOut": 60}))
    late = g.path(out, off, edge_ok=no_exc, strict=True) if off else None
    ctx.check(bool(off) and _hit(vis, off) and late is None and all(g.path([o], out, edge_ok=no_exc) for o in off), "pipeline/idle-timeout-disabled-while-handling",
              QC + "allContentReceived | self.setTimeout(None)",
              "the idle timeout stays armed while the application produces the response: timeoutConnection closes the transport in the middle of it")


def _request(ctx, I):
    mod = ctx.mod(HTTP)
    cls = ctx.cls(HTTP, "Request")
    allowed = {("Request.__init__", "rebind-empty"), ("Request.notifyFinish", "append"), ("Request._cleanup", "rebind-empty"),
               ("Request.connectionLost", "rebind-empty")}
    acc = class_accesses(mod, cls, {"notifications"})
    for a in acc:
        ctx.check((a.func, a.kind) in allowed, "notify/who-may-write", ctx.construct(Q + a.func, a.node),
                  f"Request.notifications is mutated ({a.kind}) in an unexpected place")
    ctx.floor("notify/who-may-write", len(acc), 3)
    # notifyFinish returns the Deferred it registered
    f = ctx.func(HTTP, "Request.notifyFinish")
    g = ctx.cfg(f)
    q = QR + "notifyFinish"
    apps = calls_named(g, "self.notifications.append")
    ctx.check(bool(apps), "notify/registered", q, "notifyFinish no longer registers a Deferred")
    for n in apps:
        c = call_in(g.node(n).ast, "self.notifications.append")
        a = c.args[0]
        vals = resolve_local(f, a)
        fresh = all(isinstance(v, ast.Call) and call_name(v) == "Deferred" for v in vals)
        ctx.check(fresh, "notify/fresh-deferred", ctx.construct(q, c), "the registered object is not a fresh Deferred (two callers would share one)")
        for r in g.ids(lambda m: m.kind == "stmt" and isinstance(m.ast, ast.Return)):
            rv = g.node(r).ast.value
            same = (isinstance(a, ast.Name) and isinstance(rv, ast.Name) and rv.id == a.id) or \
                (rv is not None and src(rv) == "self.notifications[-1]" and ordered(g, [n], [r]) is None)
            ctx.check(same, "notify/returns-registered", ctx.construct(q, g.node(r).ast),
                      "notifyFinish returns a Deferred other than the one it just registered (the caller's Deferred never fires / fires for someone else)")
    # fire sites
    for meth, fire, what in (("_cleanup", "callback", "None"), ("connectionLost", "errback", "the connection-lost reason")):
        f = ctx.func(HTTP, "Request." + meth)
        g = ctx.cfg(f)
        q = QR + meth
        loops = []
        for n in g.ids(lambda n: n.kind == "for"):
            fo = g.node(n).ast
            its = [src(v) for v in resolve_local(f, fo.iter)]
            if any("self.notifications" in s for s in its):
                loops.append(n)
        ctx.check(bool(loops), "notify/fired", q, f"{meth} no longer fires the notifyFinish Deferreds")
        resets = [n for a in acc if a.func == "Request." + meth and a.kind in ("rebind-empty", "clear") for n in g.ids_of(a.node)]
        for n in loops:
            fo = g.node(n).ast
            calls = [c for c in ast.walk(fo) if isinstance(c, ast.Call) and isinstance(c.func, ast.Attribute) and isinstance(c.func.value, ast.Name)
                     and isinstance(fo.target, ast.Name) and c.func.value.id == fo.target.id]
            okf = len(calls) == 1 and call_attr(calls[0]) == fire and len(calls[0].args) == 1
            if okf and meth == "_cleanup":
                okf = isinstance(calls[0].args[0], ast.Constant) and calls[0].args[0].value is None
            if okf and meth == "connectionLost":
                okf = src(calls[0].args[0]) == f.args.args[1].arg
            ctx.check(okf, "notify/fired-with", ctx.construct(q, calls[0] if calls else fo),
                      f"the notifyFinish Deferreds are not each fired exactly once with {what} via {fire}()")
            direct = src(fo.iter) == "self.notifications"
            if direct:
                w = g.must_pass([n], resets, exc=False)
            else:
                w = ordered(g, resets, [n])
            ctx.check(bool(resets) and w is None, "notify/list-reset", f"{q} | reset of self.notifications",
                      f"the fired Deferreds stay in self.notifications after {meth}: a later connectionLost/_cleanup fires them a second time (AlreadyCalledError)",
                      witness=g.describe(w))
    # connectionLost marks the request before firing
    f = ctx.func(HTTP, "Request.connectionLost")
    g = ctx.cfg(f)
    q = QR + "connectionLost"
    marks = assigns_self(g, "_disconnected", lambda v: is_const(v, True))
    loops = g.ids(lambda n: n.kind == "for")
    w = ordered(g, marks, loops)
    ctx.check(bool(marks) and w is None, "notify/disconnected-before-errback", q + " | self._disconnected = True",
              "the request is not marked disconnected before the errbacks run: an errback calling finish() reaches _cleanup and fires the list again",
              witness=g.describe(w))
    # finish: once, not after disconnect, finished set before _cleanup
    f = ctx.func(HTTP, "Request.finish")
    g = ctx.cfg(f)
    q = QR + "finish"
    cl = calls_named(g, "self._cleanup")
    ctx.need(cl, "self._cleanup() in Request.finish")
    fin = assigns_self(g, "finished", lambda v: isinstance(v, ast.Constant) and bool(v.value))
    w = ordered(g, fin, cl)
    ctx.check(bool(fin) and w is None, "notify/finished-before-cleanup", q + " | self.finished = 1",
              "finished is not set before _cleanup() runs: a notifyFinish callback (or requestDone replay) calling finish() again runs _cleanup twice",
              witness=g.describe(w))
    for finv, disc in ((0, False), (1, False), (0, True), (1, True)):
        vis = walk(g, I, make_env({"self.finished": finv, "self._disconnected": disc, "self.queued": False, "self.startedWriting": 1, "self.chunked": 0}))
        want = not finv and not disc
        ctx.check(_hit(vis, cl) == want, "notify/cleanup-once", f"{q} | finished={finv} disconnected={disc}",
                  ("finish() does not reach _cleanup (the response never completes, notifyFinish never fires)" if want else
                   "finish() on an already finished / disconnected request reaches _cleanup: notifyFinish fires twice / requestDone is called for a request not at the head"))
    for m in [n for n in cls.body if isinstance(n, (ast.FunctionDef, ast.AsyncFunctionDef)) and n.name != "finish"]:
        bad = [c for c in ast.walk(m) if isinstance(c, ast.Call) and call_name(c) == "self._cleanup"]
        ctx.check(not bad, "notify/cleanup-only-from-finish", QR + m.name, "_cleanup is also called outside the once-guarded finish()")
    # _cleanup tells the channel (so the next pipelined request is started) exactly once, with itself
    f = ctx.func(HTTP, "Request._cleanup")
    g = ctx.cfg(f)
    q = QR + "_cleanup"
    rd = calls_named(g, "self.channel.requestDone")
    w = g.must_pass([g.entry], rd, exc=False)
    okarg = all(len(call_in(g.node(n).ast, "self.channel.requestDone").args) == 1 and src(call_in(g.node(n).ast, "self.channel.requestDone").args[0]) == "self" for n in rd)
    ctx.check(len(rd) == 1 and w is None and okarg, "pipeline/request-done-reported", q,
              "the channel is not told (exactly once, with this request) that the response is finished: the next pipelined request is never started",
              witness=g.describe(w))


def check(ctx):
    I = http_interp(ctx)
    with ctx.section("HTTPChannel pipelining"):
        _channel(ctx, I)
    with ctx.section("transport effects while busy"):
        _transport_effects(ctx, I)
    with ctx.section("Request notifyFinish"):
        _request(ctx, I)


MUTANTS = [
    Mutant("busy-flag-after-hand-over", HTTP, "        self._handlingRequest = True\n\n        # We go into raw mode", "        # We go into raw mode",
           more=[(HTTP, "        req.requestReceived(command, path, version)\n", "        req.requestReceived(command, path, version)\n        self._handlingRequest = True\n")],
           expect_rule="pipeline/busy-before-hand-over"),
    Mutant("no-raw-mode-while-handling", HTTP, "        self.setRawMode()\n\n        req = self.requests[-1]", "        req = self.requests[-1]", expect_rule="pipeline/raw-mode-before-hand-over"),
    Mutant("buffering-falls-into-decoder", HTTP, "                self._networkProducer.pauseProducing()\n            return\n", "                self._networkProducer.pauseProducing()\n",
           expect_rule="pipeline/buffer-while-busy"),
    Mutant("replay-before-buffer-reset", HTTP, "            self._dataBuffer = []\n            self.setLineMode(data)", "            self.setLineMode(data)\n            self._dataBuffer = []",
           expect_rule="pipeline/buffer-detached-before-replay"),
    Mutant("flag-cleared-after-replay", HTTP, "            self._handlingRequest = False\n\n            if self._savedTimeOut:", "            if self._savedTimeOut:",
           more=[(HTTP, "            self.setLineMode(data)\n        else:\n            self.loseConnection()", "            self.setLineMode(data)\n            self._handlingRequest = False\n        else:\n            self.loseConnection()")],
           expect_rule="pipeline/flag-cleared-before-replay"),
    Mutant("buffer-reset-before-read", HTTP, "            data = b\"\".join(self._dataBuffer)\n            self._dataBuffer = []", "            self._dataBuffer = []\n            data = b\"\".join(self._dataBuffer)",
           expect_rule="pipeline/buffer-read-before-reset"),
    Mutant("queue-consumed-from-back", HTTP, "        del self.requests[0]\n", "        del self.requests[-1]\n", expect_rule="pipeline/fifo"),
    Mutant("head-check-dropped", HTTP, "        if request != self.requests[0]:\n            raise TypeError\n", "", expect_rule="pipeline/only-head-may-finish"),
    Mutant("replay-on-non-persistent", HTTP, "        if self.persistent:\n            self._handlingRequest = False", "        if True:\n            self._handlingRequest = False", expect_rule="pipeline/non-persistent-closes"),
    Mutant("missing-wake-up", HTTP, "        if not self._waitingForTransport:\n            self._networkProducer.resumeProducing()\n\n        if self.persistent:", "        if self.persistent:",
           expect_rule="pipeline/wake-up"),
    Mutant("request-after-close-accepted", HTTP, "            if not self.persistent:\n                self.dataReceived = self.lineReceived = lambda *args: None\n                return\n", "",
           expect_rule="pipeline/no-request-after-close"),
    Mutant("cleanup-keeps-notifications", HTTP, "            d.callback(None)\n        self.notifications = []", "            d.callback(None)", expect_rule="notify/"),
    Mutant("connectionLost-keeps-notifications", HTTP, "            d.errback(reason)\n        self.notifications = []", "            d.errback(reason)", expect_rule="notify/"),
    Mutant("finished-set-after-cleanup", HTTP, "        self.finished = 1\n        if not self.queued:\n            self._cleanup()", "        if not self.queued:\n            self._cleanup()\n        self.finished = 1",
           expect_rule="notify/finished-before-cleanup"),
    Mutant("finish-after-disconnect-allowed", HTTP, "        if self._disconnected:\n            raise RuntimeError(\n                \"Request.finish called on a request after its connection was lost; \"\n                \"use Request.notifyFinish to keep track of this.\"\n            )\n", "",
           expect_rule="notify/cleanup-once"),
    Mutant("disconnected-marked-after-errbacks", HTTP, "        self._disconnected = True\n        self.channel = None\n", "        self.channel = None\n",
           more=[(HTTP, "            d.errback(reason)\n        self.notifications = []", "            d.errback(reason)\n        self.notifications = []\n        self._disconnected = True")],
           expect_rule="notify/disconnected-before-errback"),
    Mutant("notifyFinish-returns-first", HTTP, "        return self.notifications[-1]", "        return self.notifications[0]", expect_rule="notify/returns-registered"),
    Mutant("drain-skips-head", HTTP, "        for request in self.requests:\n            request.connectionLost(reason)", "        for request in self.requests[1:]:\n            request.connectionLost(reason)",
           expect_rule="notify/drain-on-connection-lost"),
    Mutant("hard-cap-answers-400-mid-response", HTTP, "            self._dataBuffer.append(data)\n            if (\n",
           "            self._dataBuffer.append(data)\n            if len(self._dataBuffer) > 4096:\n                self._respondToBadRequestAndDisconnect()\n            if (\n",
           expect_rule="pipeline/no-channel-bytes-during-response"),
    Mutant("hard-cap-closes-mid-response", HTTP, "            self._dataBuffer.append(data)\n            if (\n",
           "            self._dataBuffer.append(data)\n            if len(self._dataBuffer) > 4096:\n                self.loseConnection()\n            if (\n",
           expect_rule="pipeline/no-channel-bytes-during-response"),
    Mutant("backpressure-notice-written-by-channel", HTTP, "        self._waitingForTransport = True\n\n        # The first step", "        self._waitingForTransport = True\n        self._send100Continue()\n\n        # The first step",
           expect_rule="pipeline/no-channel-bytes-during-response"),
    Mutant("idle-timeout-armed-while-handling", HTTP, "        if self.timeOut:\n            self._savedTimeOut = self.setTimeout(None)\n\n        self._handlingRequest = True", "        self._handlingRequest = True",
           expect_rule="pipeline/idle-timeout-disabled-while-handling"),
    Mutant("replay-only-first-buffered-piece", HTTP, "            data = b\"\".join(self._dataBuffer)\n", "            data = b\"\".join(self._dataBuffer[:1])\n", expect_rule="pipeline/replay-buffered-bytes"),
    Mutant("cleanup-does-not-report-done", HTTP, "        self.channel.requestDone(self)\n        del self.channel", "        del self.channel", expect_rule="pipeline/request-done-reported"),
    Mutant("busy-while-idle", HTTP, "        self.requests = []\n        self._handlingRequest = False", "        self.requests = []\n        self._handlingRequest = True", expect_rule="pipeline/who-may-write-busy-flag"),
    Mutant("finish-fires-errback", HTTP, "            d.callback(None)", "            d.errback(None)", expect_rule="notify/fired-with"),
]
SILENT = [
    Silent("pop-first", HTTP, "        del self.requests[0]\n", "        self.requests.pop(0)\n"),
    Silent("head-check-identity", HTTP, "        if request != self.requests[0]:\n            raise TypeError", "        if request is not self.requests[0]:\n            raise TypeError"),
    Silent("buffer-swap-tuple", HTTP, "            data = b\"\".join(self._dataBuffer)\n            self._dataBuffer = []\n", "            data, self._dataBuffer = b\"\".join(self._dataBuffer), []\n"),
    Silent("buffer-cleared-in-place", HTTP, "            data = b\"\".join(self._dataBuffer)\n            self._dataBuffer = []\n", "            data = b\"\".join(self._dataBuffer)\n            self._dataBuffer.clear()\n"),
    Silent("take-then-fire", HTTP, "        for d in self.notifications:\n            d.callback(None)\n        self.notifications = []", "        pending = self.notifications\n        self.notifications = []\n        for d in pending:\n            d.callback(None)"),
    Silent("notifyFinish-local", HTTP, "        self.notifications.append(Deferred())\n        return self.notifications[-1]", "        d: Deferred[None] = Deferred()\n        self.notifications.append(d)\n        return d"),
    Silent("busy-and-raw-swapped", HTTP, "        self._handlingRequest = True\n\n        # We go into raw mode here even though we will be receiving lines next\n        # in the protocol; however, this data will be buffered and then passed\n        # back to line mode in the setLineMode call in requestDone.\n        self.setRawMode()\n",
           "        self.setRawMode()\n        self._handlingRequest = True\n"),
    Silent("pause-condition-with-local", HTTP, "            if (\n                sum(map(len, self._dataBuffer)) > self._optimisticEagerReadSize\n            ) and not self._waitingForTransport:",
           "            buffered = sum(map(len, self._dataBuffer))\n            if buffered > self._optimisticEagerReadSize and not self._waitingForTransport:"),
    Silent("reject-helper-extracted", HTTP, "        self._receivedHeaderSize += len(line)\n        if self._receivedHeaderSize > self.totalHeadersSize:\n            self._respondToBadRequestAndDisconnect()\n            return\n",
           "        self._receivedHeaderSize += len(line)\n        if self._receivedHeaderSize > self.totalHeadersSize:\n            self._rejectOversized()\n            return\n",
           more=[(HTTP, "    def _finishRequestBody(self, data):\n", "    def _rejectOversized(self):\n        self._respondToBadRequestAndDisconnect()\n\n    def _finishRequestBody(self, data):\n")]),
    Silent("hard-cap-only-when-idle", HTTP, "        try:\n            self._transferDecoder.dataReceived(data)\n        except _MalformedChunkedDataError:\n            self._respondToBadRequestAndDisconnect()",
           "        if len(data) > 0x4000000:\n            self._respondToBadRequestAndDisconnect()\n            return\n        try:\n            self._transferDecoder.dataReceived(data)\n        except _MalformedChunkedDataError:\n            self._respondToBadRequestAndDisconnect()"),
    Silent("drain-over-copy", HTTP, "        for request in self.requests:\n            request.connectionLost(reason)", "        for req in list(self.requests):\n            req.connectionLost(reason)"),
    Silent("persistent-branches-swapped", HTTP, "            self.setLineMode(data)\n        else:\n            self.loseConnection()", "            self.setLineMode(data)\n            return\n        self.loseConnection()"),
]
