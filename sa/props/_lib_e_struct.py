"""Structural / finite-exhaustive deciders for C19-C22, run on a normalised view of the code.

Normalised view: private helper methods / module functions are inlined at their call sites (sa.props._lib_a.Inliner with
this batch's anchor list), so that dominance / must-pass-through / provenance / who-may-write questions are asked on the
combined code; guard clauses need no rewriting because the rules ask CFG questions (edge guards, decided walks), not
syntactic nesting; pure single-assignment temporaries are followed by the partial evaluator of ``walk`` and by
``resolve_local``.

Abstention: every group runs in a transaction (``structural``).  A rule reports VIOLATION only for a site it positively
recognised; when an anchor / shape is not recognised the whole group is dropped and a note names the bounded rule that
covers the clause (no violation, no error)."""
from __future__ import annotations

import ast
from typing import Callable, Dict, List, Optional

from sa.astx import assigned_targets, call_attr, call_name, dotted, src, statements, walk_local
from sa.cfg import CFG
from sa.source import AnalysisError, methods
from sa.props._lib_a import Inliner, clone, _simple_expr

ANCHORS_E = {"_respondToBadRequestAndDisconnect", "_failChooseTransferDecoder", "_maybeChooseTransferDecoder", "_finishRequestBody", "_cleanup",
             "_send100Continue", "_parseRequestLine", "_istoken", "_ishexdigits", "_hexint", "_decint", "_sanitizeLinearWhitespace", "_getContentFile",
             "_parseContentType", "_getMultiPartArgs", "_authorize", "_PullToPush", "_NoPushProducer", "_IdentityTransferDecoder", "_ChunkedTransferDecoder"}


class Abstain(Exception):
    """The shape the rule reads is not there: the group leaves its clause to the bounded layer."""


class SInliner(Inliner):
    def _callee(self, call: ast.Call):
        f = call.func
        if isinstance(f, ast.Attribute) and f.attr.startswith("_") and f.attr not in ANCHORS_E and not f.attr.startswith("__") \
                and _simple_expr(f.value) and len(self.methods.get(f.attr, [])) == 1 and not f.attr.startswith("_dataReceived_"):
            return self.methods[f.attr][0], f.value
        if isinstance(f, ast.Name) and f.id.startswith("_") and f.id not in ANCHORS_E and f.id in self.functions:
            return self.functions[f.id], None
        return None, None


class SCtx:
    """Transactional view of a Ctx: functions come inlined, obligations are buffered, missing anchors abstain."""

    def __init__(self, ctx):
        self._ctx = ctx
        self.buf: List[tuple] = []
        self.tier = ctx.tier
        self.tree = ctx.tree
        self._views: Dict[tuple, ast.AST] = ctx.__dict__.setdefault("_e_views", {})
        self._cfgs: Dict[int, CFG] = ctx.__dict__.setdefault("_e_cfgs", {})

    def mod(self, rel):
        return self._ctx.mod(rel)

    def cls(self, rel, qual):
        try:
            return self._ctx.cls(rel, qual)
        except AnalysisError as e:
            raise Abstain(str(e))

    def raw_func(self, rel, qual):
        try:
            return self._ctx.func(rel, qual)
        except AnalysisError as e:
            raise Abstain(str(e))

    def func(self, rel, qual, which=0):
        key = (rel, qual)
        if key not in self._views:
            f = self.raw_func(rel, qual)
            inl = SInliner(self._ctx.mod(rel))
            try:
                g = inl.function(f)
            except Exception as e:           # the inliner could not normalise: read the function as written
                g, inl.inlined = f, []
            self._views[key] = g if inl.inlined else f
            if inl.inlined:
                self._ctx.note(f"{qual}: private helpers read as if inlined: {', '.join(sorted(set(inl.inlined)))}")
        return self._views[key]

    def cfg(self, func, **kw):
        g = self._cfgs.get(id(func))
        if g is None:
            g = CFG(func)
            self._cfgs[id(func)] = g
            self._keep = getattr(self, "_keep", [])
            self._keep.append(func)
        return g

    @staticmethod
    def construct(qual, node=None):
        from sa.report import Ctx
        return Ctx.construct(qual, node)

    def ok(self, rule, construct, detail=""):
        self.buf.append(("ok", rule, construct, detail, ""))

    def violation(self, rule, construct, fails, witness=""):
        self.buf.append(("bad", rule, construct, fails, witness))

    def check(self, cond, rule, construct, fails, detail="", witness=""):
        if cond:
            self.ok(rule, construct, detail)
        else:
            self.violation(rule, construct, fails, witness)
        return bool(cond)

    def need(self, thing, what):
        if thing is None or thing == [] or thing is False or thing == set():
            raise Abstain("not found: " + what)
        return thing

    def floor(self, rule, count, minimum, what="sites"):
        if count < minimum:
            raise Abstain(f"{rule}: only {count} {what} recognised")

    def note(self, text):
        self._ctx.note(text)

    def commit(self):
        for kind, rule, construct, text, wit in self.buf:
            if kind == "ok":
                self._ctx.ok(rule, construct, text)
            else:
                self._ctx.violation(rule, construct, text, wit)
        self.buf = []


def structural(ctx, name: str, fn: Callable[[SCtx], None], covered_by: str) -> bool:
    """Run one structural / finite-exhaustive rule group on the normalised view; abstain (note) when the shape is not
    recognised.  Returns True when the group delivered verdicts."""
    s = SCtx(ctx)
    try:
        fn(s)
    except (Abstain, AnalysisError) as e:
        ctx.note(f"{name}: shape not recognised ({str(e)[:120]}), clause left to {covered_by}")
        return False
    except (AttributeError, IndexError, KeyError, StopIteration, TypeError, ValueError) as e:
        ctx.note(f"{name}: shape not recognised ({type(e).__name__}: {str(e)[:100]}), clause left to {covered_by}")
        return False
    s.commit()
    return True


def class_methods(sctx: SCtx, rel: str, cls_name: str) -> Dict[str, ast.AST]:
    """name -> inlined view of every method of the class."""
    cls = sctx.cls(rel, cls_name)
    return {n: sctx.func(rel, f"{cls_name}.{n}") for n in methods(cls)}
