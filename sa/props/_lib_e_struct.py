"""Structural / finite-exhaustive deciders for C19-C22, run on a normalised view of the code.

Normalised view: private helper methods / module functions are inlined at their call sites (sa.props._lib_a.Inliner with
this batch's anchor list), so that dominance / must-pass-through / provenance / who-may-write questions are asked on the
combined code; guard clauses need no rewriting because the rules ask CFG questions (edge guards, decided walks), not
syntactic nesting; pure single-assignment temporaries are followed by the partial evaluator of ``walk`` and by
``resolve_local``.

Abstention: every group runs in a transaction (``structural``).  A rule reports VIOLATION only for a site it positively
recognised; when an anchor / shape is not recognised the whole group is dropped and a note names the bounded rule that
covers the clause (no violation, no error)."""
from __future__ import annotations

import ast
from typing import Callable, Dict, List, Optional

from sa.astx import assigned_targets, call_attr, call_name, dotted, src, statements, walk_local
from sa.cfg import CFG
from sa.source import AnalysisError, methods
from sa.props._lib_a import Inliner, clone, _simple_expr

ANCHORS_E = {"_respondToBadRequestAndDisconnect", "_failChooseTransferDecoder", "_maybeChooseTransferDecoder", "_finishRequestBody", "_cleanup",
             "_send100Continue", "_parseRequestLine", "_istoken", "_ishexdigits", "_hexint", "_decint", "_sanitizeLinearWhitespace", "_getContentFile",
             "_parseContentType", "_getMultiPartArgs", "_authorize", "_PullToPush", "_NoPushProducer", "_IdentityTransferDecoder", "_ChunkedTransferDecoder"}


class Abstain(Exception):
    """The shape the rule reads is not there: the group leaves its clause to the bounded layer."""


class SInliner(Inliner):
    def _callee(self, call: ast.Call):
        f = call.func
        if isinstance(f, ast.Attribute) and f.attr.startswith("_") and f.attr not in ANCHORS_E and not f.attr.startswith("__") \
                and _simple_expr(f.value) and len(self.methods.get(f.attr, [])) == 1 and not f.attr.startswith("_dataReceived_"):
            return self.methods[f.attr][0], f.value
        if isinstance(f, ast.Name) and f.id.startswith("_") and f.id not in ANCHORS_E and f.id in self.functions:
            return self.functions[f.id], None
        return None, None


class SCtx:
    """Transactional view of a Ctx: functions come inlined, obligations are buffered, missing anchors abstain."""

    def __init__(self, ctx):
        self._ctx = ctx
        self.buf: List[tuple] = []
        self.tier = ctx.tier
        self.tree = ctx.tree
        self._views: Dict[tuple, ast.AST] = ctx.__dict__.setdefault("_e_views", {})
        self._cfgs: Dict[int, CFG] = ctx.__dict__.setdefault("_e_cfgs", {})

    def mod(self, rel):
        return self._ctx.mod(rel)

    def cls(self, rel, qual):
        try:
            return self._ctx.cls(rel, qual)
        except AnalysisError as e:
            raise Abstain(str(e))

    def raw_func(self, rel, qual):
        try:
            return self._ctx.func(rel, qual)
        except AnalysisError as e:
            raise Abstain(str(e))

    def func(self, rel, qual, which=0):
        key = (rel, qual)
        if key not in self._views:
            f = self.raw_func(rel, qual)
            inl = SInliner(self._ctx.mod(rel))
            try:
                g = inl.function(f)
            except Exception as e:           # the inliner could not normalise: read the function as written
                g, inl.inlined = f, []
            self._views[key] = g if inl.inlined else f
            if inl.inlined:
                self._ctx.note(f"{qual}: private helpers read as if inlined: {', '.join(sorted(set(inl.inlined)))}")
        return self._views[key]

    def cfg(self, func, **kw):
        g = self._cfgs.get(id(func))
        if g is None:
            g = CFG(func)
            self._cfgs[id(func)] = g
            self._keep = getattr(self, "_keep", [])
            self._keep.append(func)
        return g

    @staticmethod
    def construct(qual, node=None):
        from sa.report import Ctx
        return Ctx.construct(qual, node)

    def ok(self, rule, construct, detail=""):
        self.buf.append(("ok", rule, construct, detail, ""))

    def violation(self, rule, construct, fails, witness=""):
        self.buf.append(("bad", rule, construct, fails, witness))

    def check(self, cond, rule, construct, fails, detail="", witness=""):
        if cond:
            self.ok(rule, construct, detail)
        else:
            self.violation(rule, construct, fails, witness)
        return bool(cond)

    def vcheck(self, cond, und, *a, **k):
        """check decided by a valuation walk: a failure that may stem from an undecided guard is not a positive finding -> abstain"""
        if not cond and und:
            raise Abstain("a guard on the way is not decided by the valuation")
        return self.check(cond, *a, **k)

    def need(self, thing, what):
        if thing is None or thing == [] or thing is False or thing == set():
            raise Abstain("not found: " + what)
        return thing

    def floor(self, rule, count, minimum, what="sites"):
        if count < minimum:
            raise Abstain(f"{rule}: only {count} {what} recognised")

    def note(self, text):
        self._ctx.note(text)

    def commit(self):
        for kind, rule, construct, text, wit in self.buf:
            if kind == "ok":
                self._ctx.ok(rule, construct, text)
            else:
                self._ctx.violation(rule, construct, text, wit)
        self.buf = []


def structural(ctx, name: str, fn: Callable[[SCtx], None], covered_by: str) -> bool:
    """Run one structural / finite-exhaustive rule group on the normalised view; abstain (note) when the shape is not
    recognised.  Returns True when the group delivered verdicts."""
    s = SCtx(ctx)
    try:
        fn(s)
    except Abstain as e:
        s.commit()      # the verdicts delivered before the unrecognised shape stand; the remaining rules of the group abstain
        ctx.note(f"{name}: shape not recognised ({str(e)[:120]}), remaining clauses of the group left to {covered_by}")
        return False
    except AnalysisError as e:
        ctx.note(f"{name}: shape not recognised ({str(e)[:120]}), clause left to {covered_by}")
        return False
    except (AttributeError, IndexError, KeyError, StopIteration, TypeError, ValueError) as e:
        ctx.note(f"{name}: shape not recognised ({type(e).__name__}: {str(e)[:100]}), clause left to {covered_by}")
        return False
    s.commit()
    return True


def class_methods(sctx: SCtx, rel: str, cls_name: str) -> Dict[str, ast.AST]:
    """name -> inlined view of every method of the class."""
    cls = sctx.cls(rel, cls_name)
    return {n: sctx.func(rel, f"{cls_name}.{n}") for n in methods(cls)}


# =====================================================================================================================
# C21
# =====================================================================================================================
from sa.effects import class_accesses  # noqa: E402
from sa.props._lib_e import (Unknown, assigns_self, call_in, calls_named, is_const, make_env, no_exc, ordered, resolve_local, self_attr, walk)  # noqa: E402

HTTP = "web/http.py"
Q = "twisted.web.http."


def _hit(vis, nodes):
    return any(n in vis for n in nodes)


def _is_inlined_helper(name: str, callers: Dict[str, list]) -> bool:
    return name.startswith("_") and not name.startswith("__") and name not in ANCHORS_E and bool(callers.get(name))


def _class_callers(cls: ast.ClassDef) -> Dict[str, list]:
    ms = methods(cls)
    out: Dict[str, list] = {n: [] for n in ms}
    for n, m in ms.items():
        for c in ast.walk(m):
            if isinstance(c, ast.Call) and isinstance(c.func, ast.Attribute) and self_attr(c.func) and c.func.attr in ms and c.func.attr != n:
                out[c.func.attr].append(n)
    return out


def c21_channel(s: SCtx, I) -> None:
    QC = Q + "HTTPChannel."
    cls = s.cls(HTTP, "HTTPChannel")
    ms = methods(cls)
    callers = _class_callers(cls)
    roots = [n for n in ms if not _is_inlined_helper(n, callers)]
    views = {n: s.func(HTTP, "HTTPChannel." + n) for n in roots}
    # ---- hand-over: busy flag and raw mode precede the application call-out (dominance on the inlined view)
    hand = [(n, f) for n, f in views.items() if any(isinstance(c, ast.Call) and call_attr(c) == "requestReceived" for c in ast.walk(f))]
    s.need(hand, "method that hands the request to the application (.requestReceived call-out)")
    for n, f in hand:
        g = s.cfg(f)
        out = calls_named(g, ".requestReceived")
        busy = assigns_self(g, "_handlingRequest", lambda v: is_const(v, True))
        raw = calls_named(g, "self.setRawMode")
        s.need(busy and raw, "busy flag assignment and setRawMode() in the hand-over method")
        w = ordered(g, busy, out)
        s.check(w is None, "typestate/busy-before-hand-over", QC + n + " | self._handlingRequest = True",
                "a path reaches the application call-out without the busy flag set: pipelined bytes are parsed while the application still works", witness=g.describe(w))
        w = ordered(g, raw, out)
        s.check(w is None, "typestate/raw-mode-before-hand-over", QC + n + " | self.setRawMode()",
                "a path reaches the application call-out in line mode: the next pipelined request line is parsed while this one is being handled", witness=g.describe(w))
    # ---- who may write the busy flag (closed over helpers by inlining; no function-name list)
    n_writes = 0
    for n, f in views.items():
        g = s.cfg(f)
        for w in assigns_self(g, "_handlingRequest"):
            n_writes += 1
            v = g.node(w).ast.value
            cons = s.construct(QC + n, g.node(w).ast)
            if is_const(v, True):
                out = calls_named(g, ".requestReceived")
                s.need(out, "anchor: out") and s.check(g.path([w], out, edge_ok=no_exc) is not None, "typestate/who-may-write-busy-flag", cons,
                        "the busy flag is set in a place that does not go on to hand a request to the application (nobody will clear it: the connection stalls)")
            elif is_const(v, False):
                replay = calls_named(g, "self.setLineMode")
                s.check(n == "__init__" or (bool(replay) and g.path([w], replay, edge_ok=no_exc) is not None), "typestate/who-may-write-busy-flag", cons,
                        "the busy flag is cleared in a place that does not go on to replay the buffered bytes (a second request is parsed while one is being handled)")
            else:
                raise Abstain("busy flag assigned a non-literal")
    s.floor("typestate/who-may-write-busy-flag", n_writes, 3)
    # ---- rawDataReceived: while busy only buffer, while idle only decode (every valuation of the flag)
    f = views.get("rawDataReceived") or s.need(None, "rawDataReceived")
    g = s.cfg(f)
    p = f.args.args[1].arg
    dec = calls_named(g, "self._transferDecoder.dataReceived")
    buf = [n for n in calls_named(g, "self._dataBuffer.append") if src(call_in(g.node(n).ast, "self._dataBuffer.append").args[0]) == p]
    own = calls_named(g, "self._respondToBadRequestAndDisconnect", "self.transport.write", "self.transport.writeSequence", "self._send100Continue", "self.loseConnection",
                      "self.transport.loseConnection", "self.transport.abortConnection")
    s.need(dec and buf, "decoder call and buffer append in rawDataReceived")
    for flag in (True, False):
        U = []
        vis = walk(g, I, make_env({"self._handlingRequest": flag}), undecided=U)
        U = [u for u in U if "_handlingRequest" in src(g.node(u).ast)]
        if flag:
            s.vcheck(_hit(vis, buf) and not _hit(vis, dec), U, "valuation/buffer-while-busy", QC + "rawDataReceived | _handlingRequest=True",
                    "while a request is being handled, received bytes reach the body decoder of a request that is already complete / are not buffered")
            bad = [n for n in own if n in vis]
            s.vcheck(not bad, U, "valuation/no-channel-bytes-while-busy", QC + "rawDataReceived | _handlingRequest=True",
                    "while a response is in progress the channel itself writes to / closes the transport: " + (src(g.node(bad[0]).ast)[:60] if bad else ""),
                    witness=g.describe(g.path([g.entry], bad)) if bad else "")
        else:
            s.vcheck(_hit(vis, dec) and not _hit(vis, buf), U, "valuation/buffer-while-busy", QC + "rawDataReceived | _handlingRequest=False",
                    "while no request is being handled, received body bytes are buffered instead of decoded")
    # ---- requestDone: head check, persistence, order flag-clear / detach / replay (partial evaluation of the inlined code)
    f = views.get("requestDone") or s.need(None, "requestDone")
    g = s.cfg(f)
    rp = f.args.args[1].arg
    replay = calls_named(g, "self.setLineMode")
    lose = calls_named(g, "self.loseConnection", "self.transport.loseConnection")
    s.need(replay and lose, "setLineMode replay and loseConnection in requestDone")
    A, B = object(), object()
    seen = []

    def on(node, e):
        if node.id in replay:
            c = call_in(node.ast, "self.setLineMode")
            try:
                val = I.ev(c.args[0], e) if c.args else (I.ev(c.keywords[0].value, e) if c.keywords else b"")
            except Exception:
                val = Unknown
            seen.append((val, e.get("self._dataBuffer", Unknown), e.get("self._handlingRequest", Unknown)))
    base = {rp: A, "self.requests[0]": A, "self.requests": [A], "self._dataBuffer": [b"ab", b"", b"cd"], "self._handlingRequest": True, "self._waitingForTransport": False,
            "self._savedTimeOut": None}
    vis_p = walk(g, I, make_env(dict(base, **{"self.persistent": 1})), on_node=on)
    # the same with the transport having asked the channel to pause: the channel still becomes ready to parse, so nothing may stay held back
    walk(g, I, make_env(dict(base, **{"self.persistent": 1, "self._waitingForTransport": True})), on_node=on)
    vis_n = walk(g, I, make_env(dict(base, **{"self.persistent": 0})))
    s.check(_hit(vis_p, replay) and not _hit(vis_p, lose), "valuation/persistent-replays", QC + "requestDone | persistent",
            "on a persistent connection the finished request does not replay the buffered bytes / closes the connection")
    s.check(_hit(vis_n, lose) and not _hit(vis_n, replay), "valuation/non-persistent-closes", QC + "requestDone | not persistent",
            "on a non-persistent connection the buffered bytes are replayed as a new request / the connection is not closed")
    if not seen or any(v is Unknown or b is Unknown or fl is Unknown for v, b, fl in seen):
        raise Abstain("replay argument / buffer state not determined by partial evaluation")
    for val, bufnow, flag in seen:
        s.check(val == b"abcd", "valuation/replay-buffered-bytes", QC + "requestDone | replayed value",
                f"with [b'ab', b'', b'cd'] buffered the channel goes back to parsing with {val!r} (for some value of _waitingForTransport): bytes held back in the pipelining buffer are lost or overtaken by later input")
        s.check(list(bufnow) == [], "valuation/buffer-detached-before-replay", QC + "requestDone | buffer at replay",
                f"when the replay starts the buffer still holds {bufnow!r}: a request finishing inside the replay replays the same bytes again")
        s.check(flag is False, "valuation/flag-cleared-before-replay", QC + "requestDone | flag at replay",
                "the buffered bytes are replayed while the channel still claims to be busy: the next request's body is buffered instead of decoded")
    vis_other = walk(g, I, make_env(dict(base, **{"self.requests[0]": B, "self.requests": [B], "self.persistent": 1})))
    rem = [n for n in g.ids(lambda x: x.kind == "stmt") if (isinstance(g.node(n).ast, ast.Delete) and "self.requests" in src(g.node(n).ast)) or call_in(g.node(n).ast, "self.requests.pop", "self.requests.popleft", "self.requests.remove")]
    s.need(rem, "removal of the finished request from self.requests")
    s.check(_hit(vis_p, rem) and not _hit(vis_other, rem) and not _hit(vis_other, replay), "valuation/only-head-may-finish", QC + "requestDone | head check",
            "requestDone() for a request that is not the head of the queue removes a request / replays buffered bytes")
    res = calls_named(g, "self._networkProducer.resumeProducing")
    s.need(res, "resumeProducing in requestDone")
    s.check(_hit(vis_p, res), "valuation/wake-up", QC + "requestDone | resume network producer", "the network producer paused while the request was handled is not resumed")


def c21_request(s: SCtx, I) -> None:
    QR = Q + "Request."
    mod = s.mod(HTTP)
    cls = s.cls(HTTP, "Request")
    callers = _class_callers(cls)
    ms = methods(cls)
    roots = [n for n in ms if not _is_inlined_helper(n, callers)]
    views = {n: s.func(HTTP, "Request." + n) for n in roots}
    # who may write the list: only 'append a fresh Deferred' and 'reset to empty' (name-free)
    acc = class_accesses(mod, cls, {"notifications"})
    s.floor("notify/who-may-write", len(acc), 3)
    for a in acc:
        ok = a.kind in ("rebind-empty", "clear")
        if a.kind == "append":
            f = s.raw_func(HTTP, a.func)
            arg = a.node.args[0] if a.node.args else None
            ok = arg is not None and all(isinstance(v, ast.Call) and call_name(v) == "Deferred" for v in resolve_local(f, arg))
        elif a.kind == "assign":
            v = a.node.value
            ok = isinstance(v, (ast.Tuple,)) or isinstance(v, ast.List) and not v.elts or (isinstance(v, ast.Tuple) and all(isinstance(e, ast.List) and not e.elts or True for e in v.elts))
        s.check(ok, "notify/who-may-write", s.construct(Q + a.func, a.node), f"Request.notifications is mutated by {a.kind}: only appending a fresh Deferred and resetting to empty keep 'fired exactly once'")
    # _cleanup is reached only under 'not finished and not disconnected', after finished was set (every call site, inlined views)
    n_sites = 0
    for n, f in views.items():
        g = s.cfg(f)
        cl = calls_named(g, "self._cleanup")
        if not cl:
            continue
        n_sites += len(cl)
        fin = assigns_self(g, "finished", lambda v: isinstance(v, ast.Constant) and bool(v.value))
        w = ordered(g, fin, cl)
        s.need(fin, "anchor: fin") and s.check(w is None, "notify/finished-before-cleanup", QR + n + " | self._cleanup()",
                "finished is not set before _cleanup() runs: a notifyFinish callback calling finish() again runs _cleanup twice", witness=g.describe(w))
        for finv, disc in ((0, False), (1, False), (0, True), (1, True)):
            vis = walk(g, I, make_env({"self.finished": finv, "self._disconnected": disc, "self.queued": False, "self.startedWriting": 1, "self.chunked": 0}))
            want = not finv and not disc
            s.check(_hit(vis, cl) == want, "valuation/cleanup-once", f"{QR}{n} | finished={finv} disconnected={disc}",
                    "finish() does not reach _cleanup" if want else "an already finished / disconnected request reaches _cleanup: notifyFinish fires twice")
    s.floor("valuation/cleanup-once", n_sites, 1)
    # the two firing sites: loop over the list calling callback(None) / errback(reason), list reset on every path
    for meth, fire in (("_cleanup", "callback"), ("connectionLost", "errback")):
        f = views.get(meth) or s.need(None, meth)
        g = s.cfg(f)
        def sources(e):
            vals = list(resolve_local(f, e))
            if isinstance(e, ast.Name):
                for st in ast.walk(f):       # swap idiom:  a, self.x = self.x, []
                    if isinstance(st, ast.Assign) and len(st.targets) == 1 and isinstance(st.targets[0], ast.Tuple) and isinstance(st.value, ast.Tuple) \
                            and len(st.targets[0].elts) == len(st.value.elts):
                        for t, v in zip(st.targets[0].elts, st.value.elts):
                            if isinstance(t, ast.Name) and t.id == e.id:
                                vals.append(v)
            return vals
        loops = [n for n in g.ids(lambda x: x.kind == "for") if any("self.notifications" in src(v) for v in sources(g.node(n).ast.iter))]
        s.need(loops, f"loop over self.notifications in {meth}")
        resets = [n for n in g.ids(lambda x: x.kind == "stmt") if (isinstance(g.node(n).ast, (ast.Assign, ast.AnnAssign)) and any(self_attr(t, "notifications") for t in assigned_targets(g.node(n).ast)))
                  or call_in(g.node(n).ast, "self.notifications.clear")]
        for n in loops:
            fo = g.node(n).ast
            calls = [c for c in ast.walk(fo) if isinstance(c, ast.Call) and isinstance(c.func, ast.Attribute) and isinstance(c.func.value, ast.Name)
                     and isinstance(fo.target, ast.Name) and c.func.value.id == fo.target.id]
            s.need(len(calls) == 1 and call_attr(calls[0]) in ("callback", "errback"), f"direct {fire}() call on the loop variable in {meth}")
            okf = call_attr(calls[0]) == fire and len(calls[0].args) == 1 and (
                (meth == "_cleanup" and isinstance(calls[0].args[0], ast.Constant) and calls[0].args[0].value is None) or
                (meth == "connectionLost" and src(calls[0].args[0]) == f.args.args[1].arg))
            s.check(okf, "notify/fired-with", s.construct(QR + meth, calls[0]), f"the notifyFinish Deferreds are not fired with {'None via callback' if meth == '_cleanup' else 'the reason via errback'}")
            direct = src(fo.iter) == "self.notifications"
            if not direct:
                drained = any(isinstance(x, ast.While) and "self.notifications" in src(x.test) and any(y is fo for y in ast.walk(x)) for x in ast.walk(f))
                s.check(drained, "notify/fires-registrations-made-while-firing", f"{QR}{meth} | loop over a detached copy of self.notifications",
                        f"{meth} fires a detached copy of the list: a Deferred handed out by notifyFinish() from one of the callbacks lands in the fresh list, which nobody fires - it never fires "
                        "(iterate self.notifications in place, or drain until it is empty)")
            else:
                s.ok("notify/fires-registrations-made-while-firing", f"{QR}{meth} | in-place iteration", "appends made while firing are visited by the same loop")
            w = g.must_pass([n], resets, exc=False) if direct else ordered(g, resets, [n])
            s.need(resets, "anchor: resets") and s.check(w is None, "notify/list-reset", f"{QR}{meth} | reset of self.notifications",
                    f"the fired Deferreds stay in self.notifications after {meth}: a later connectionLost/_cleanup fires them a second time", witness=g.describe(w))
    f = views["connectionLost"]
    g = s.cfg(f)
    marks = assigns_self(g, "_disconnected", lambda v: is_const(v, True))
    loops = g.ids(lambda x: x.kind == "for")
    s.need(marks, "_disconnected = True in connectionLost")
    w = ordered(g, marks, loops)
    s.check(w is None, "notify/disconnected-before-errback", QR + "connectionLost | self._disconnected = True",
            "the request is not marked disconnected before the errbacks run: an errback calling finish() reaches _cleanup", witness=g.describe(w))


EFFECTS = ("self.transport.write", "self.transport.writeSequence", "self.transport.loseConnection", "self.transport.abortConnection")
REQUEST_API = {"writeHeaders": "Request.write emits its own header block through it", "write": "Request.write / finish emit the body through it",
               "writeSequence": "Request.write emits chunks through it", "loseConnection": "Request.loseConnection passes through"}
SAFE_ROOTS = {"lineReceived": "line mode is left before the hand-over (raw-mode-before-hand-over) and re-entered only after the busy flag is cleared (flag-cleared-before-replay)",
              "requestDone": "invoked by the head-of-line request when its response is complete",
              "timeoutConnection": "the idle timeout is disabled while a request is handled (idle-timeout-disabled-while-handling)",
              "forceAbortClient": "scheduled only by timeoutConnection"}



def c21_transport_effects(s: SCtx, I) -> None:
    ctx = s
    QC = Q + 'HTTPChannel.'
    """Responses are not interleaved: while a request is being handled the channel itself neither writes to the
    transport nor closes it.  Every HTTPChannel method that can reach transport.write/writeSequence/loseConnection/
    abortConnection through the intra-class call graph is classified: the write API used by the head-of-line Request;
    methods that run only in a context where no request is in progress (derived: all their call sites lie in such a
    method or are dominated by 'not self._handlingRequest'); everything else (externally driven entry points such as
    rawDataReceived) must have each effect site dominated by 'not self._handlingRequest'."""
    cls = ctx.cls(HTTP, "HTTPChannel")
    ms = methods(cls)
    cfgs = {n: ctx.cfg(m) for n, m in ms.items()}
    # class-level tables of the class's own functions ( _table = {key: _method, ...} ): a method that reads the table may call any of them
    tables = {}
    for st in cls.body:
        if isinstance(st, (ast.Assign, ast.AnnAssign)) and isinstance(getattr(st, "value", None), (ast.Dict, ast.Tuple, ast.List)):
            v = st.value
            elems = list(v.values) if isinstance(v, ast.Dict) else list(v.elts)
            fns = [e.id for e in elems if isinstance(e, ast.Name) and e.id in ms]
            if fns:
                for t in (st.targets if isinstance(st, ast.Assign) else [st.target]):
                    if isinstance(t, ast.Name):
                        tables[t.id] = fns
    direct, calls = {}, {}
    for n, g in cfgs.items():
        direct[n] = calls_named(g, *EFFECTS)
        calls[n] = []
        for node in g.ids(lambda x: x.kind in ("stmt", "test", "for", "with")):
            for c in walk_local(g.node(node).ast):
                if isinstance(c, ast.Call) and isinstance(c.func, ast.Attribute) and self_attr(c.func) and c.func.attr in ms:
                    calls[n].append((c.func.attr, node))
                elif isinstance(c, ast.Attribute) and self_attr(c) and c.attr in tables:
                    for fn in tables[c.attr]:
                        calls[n].append((fn, node))
    W = {n for n in ms if direct[n]}
    changed = True
    while changed:
        changed = False
        for n in ms:
            if n not in W and any(c in W for c, _ in calls[n]):
                W.add(n)
                changed = True
    ctx.check(all(a in W for a in REQUEST_API), "callgraph/write-api", QC + "writeHeaders/write/writeSequence/loseConnection",
              "the write API used by Request no longer reaches the transport")
    busy_vis = {n: walk(cfgs[n], I, make_env({"self._handlingRequest": True})) for n in W}

    def site_guarded(m, node):
        return node not in busy_vis[m]
    callers = {n: [(m, node) for m in ms for c, node in calls[m] if c == n] for n in ms}
    safe = {n for n in SAFE_ROOTS if n in ms}
    changed = True
    while changed:
        changed = False
        for n in W - safe - set(REQUEST_API):
            cs = callers[n]
            if cs and all(m in safe or (m in W and site_guarded(m, node)) for m, node in cs):
                safe.add(n)
                changed = True
    for n in sorted(W - set(REQUEST_API)):
        q = QC + n
        if n in safe:
            ctx.ok("callgraph/no-channel-bytes-during-response", q,
                   SAFE_ROOTS.get(n) or ("reached only from " + ", ".join(sorted({m for m, _ in callers[n]})) + " in a context where no request is being handled"))
            continue
        if callers[n]:
            continue  # not an entry point: the unjustified call site is reported in its (entry-point) caller
        g = cfgs[n]
        sites = list(direct[n]) + [node for c, node in calls[n] if c in W]
        for node in sorted(set(sites)):
            ctx.check(site_guarded(n, node), "callgraph/no-channel-bytes-during-response", ctx.construct(q, g.node(node).ast),
                      f"{n} can run while a request is being handled and reaches the transport (write / close) without being dominated by 'not self._handlingRequest': "
                      "bytes that do not belong to the head-of-line response (e.g. a 400 for pipelined input not parsed yet) appear in the middle of it, or the "
                      "connection is closed under the response", witness=g.describe(g.path([g.entry], [node], edge_ok=no_exc)))
    ctx.floor("callgraph/no-channel-bytes-during-response", len(W - set(REQUEST_API)), 6)
    # the idle timeout cannot fire while a request is being handled
    f = ctx.func(HTTP, "HTTPChannel.allContentReceived")
    g = ctx.cfg(f)
    out = calls_named(g, ".requestReceived")
    off = [n for n in calls_named(g, "self.setTimeout") if (lambda c: len(c.args) == 1 and isinstance(c.args[0], ast.Constant) and c.args[0].value is None)(call_in(g.node(n).ast, "self.setTimeout"))]
    vis = walk(g, I, make_env({"self.timeOut": 60}))
    late = g.path(out, off, edge_ok=no_exc, strict=True) if off else None
    ctx.need(off, "anchor: off") and ctx.check(_hit(vis, off) and late is None and all(g.path([o], out, edge_ok=no_exc) for o in off), "valuation/idle-timeout-disabled-while-handling",
              QC + "allContentReceived | self.setTimeout(None)",
              "the idle timeout stays armed while the application produces the response: timeoutConnection closes the transport in the middle of it")


# =====================================================================================================================
# C19
# =====================================================================================================================
from sa.props._lib_e import catches, handlers_of, is_falsy_return, local_values, only_nodes_until_exit, site_label, Unsupported, Raised  # noqa: E402

def _closest_def(g, f, name, at):
    """Value of the assignment to local ``name`` that dominates node ``at`` and is nearest to it."""
    defs = [n for n in g.ids(lambda n: n.kind == "stmt" and isinstance(n.ast, ast.Assign)
                             and any(isinstance(t, ast.Name) and t.id == name for t in assigned_targets(n.ast)))
            if g.dominates(n, at) and n != at]
    if not defs:
        return None
    best = [d for d in defs if all(g.dominates(o, d) for o in defs)]
    return g.node(best[0]).ast.value if best else None


def c19_framing_decision(s: SCtx, I) -> None:
    ctx = s
    QC = Q + 'HTTPChannel.'
    FAIL, RESPOND, CHOOSE = 'self._failChooseTransferDecoder', 'self._respondToBadRequestAndDisconnect', 'self._maybeChooseTransferDecoder'
    f = ctx.func(HTTP, "HTTPChannel._maybeChooseTransferDecoder")
    g = ctx.cfg(f)
    q = QC + "_maybeChooseTransferDecoder"
    hp, dp = f.args.args[1].arg, f.args.args[2].arg
    fail = calls_named(g, FAIL, RESPOND)
    ident = calls_named(g, "_IdentityTransferDecoder")
    chunk = calls_named(g, "_ChunkedTransferDecoder")
    install = assigns_self(g, "_transferDecoder")
    setlen = assigns_self(g, "length")
    trues = g.ids(lambda n: n.kind == "stmt" and isinstance(n.ast, ast.Return) and not is_falsy_return(n.ast) and not call_in(n.ast, FAIL))
    ctx.need(fail and ident and chunk and install and trues, "fail / decoder constructions / installation / return True in _maybeChooseTransferDecoder")
    ctx.need(setlen, "self.length assignment") and ctx.check(True, "provenance/length-and-decoder-together", q + " | self.length", "self.length is never set when a body decoder is chosen: the request is completed at the end of the headers and its body is parsed as the next request")

    UND = []

    opaque_returns = [n for n in g.ids(lambda x: x.kind == "stmt" and isinstance(x.ast, ast.Return) and x.ast.value is not None and not isinstance(x.ast.value, ast.Constant))
                      if n not in fail]

    def run(h, d, dec):
        del UND[:]
        vis = walk(g, I, make_env({hp: h, dp: d, "self._transferDecoder": dec}), undecided=UND)
        # a path that ends in a return whose value this rule cannot classify (a call through a table, a helper ...) is not understood
        UND.extend(n for n in opaque_returns if n in vis)
        return vis

    def hit(vis, nodes):
        return any(n in vis for n in nodes)

    OBJ = object()
    cl_values = [b"5", b"0", b"007", b"12345678901234567890", b"", b"+5", b"-5", b" 5", b"5 ", b"0x5", b"5,5", b"5, 5", b"5\x0b", b"\x0c5",
                 b"1_0", b"\xd9\xa5", b"5.0", b"1e3", b"\xb2", b"5\r", b"5\n", b"a", b"5;q"]
    for d in cl_values:
        valid = d != b"" and all(48 <= c <= 57 for c in d)
        vis = run(b"Content-Length", d, None)
        if valid:
            ok = hit(vis, ident) and hit(vis, install) and hit(vis, setlen) and hit(vis, trues) and not hit(vis, fail) and not hit(vis, chunk)
            why = f"Content-Length: {d!r} (1*DIGIT) does not install the identity decoder"
        else:
            ok = hit(vis, fail) and not hit(vis, ident) and not hit(vis, install) and not hit(vis, trues)
            why = f"Content-Length: {d!r} is not 1*DIGIT but is not rejected with 400 (it reaches int() / a decoder is installed / True is returned)"
        ctx.vcheck(ok, UND, "decision/content-length-digits", f"{q} | Content-Length: {d!r}", why)
    te_values = [b"chunked", b"Chunked", b"CHUNKED", b"gzip, chunked", b"chunked, gzip", b"xchunked", b"chunkedx", b" chunked", b"chunked\t",
                 b"chunked,chunked", b"identity", b"Identity", b"gzip", b"", b"chunked;q=1", b"\x0bchunked", b"identity, chunked", b"deflate"]
    for d in te_values:
        vis = run(b"Transfer-Encoding", d, None)
        low = d.lower()
        if low == b"chunked":
            ok = hit(vis, chunk) and hit(vis, install) and hit(vis, setlen) and hit(vis, trues) and not hit(vis, fail) and not hit(vis, ident)
            why = f"Transfer-Encoding: {d!r} does not install the chunked decoder"
        elif low == b"identity":
            ok = hit(vis, trues) and not hit(vis, fail) and not hit(vis, chunk) and not hit(vis, ident) and not hit(vis, install)
            why = f"Transfer-Encoding: {d!r} must leave the framing unchanged"
        else:
            ok = hit(vis, fail) and not hit(vis, chunk) and not hit(vis, install) and not hit(vis, trues)
            why = f"unsupported transfer coding {d!r} is not rejected with 400 (a decoder is installed or the header is accepted)"
        ctx.vcheck(ok, UND, "decision/transfer-coding", f"{q} | Transfer-Encoding: {d!r}", why)
    for h, d in ((b"Content-Length", b"5"), (b"Transfer-Encoding", b"chunked")):
        vis = run(h, d, OBJ)
        ok = hit(vis, fail) and not hit(vis, install) and not hit(vis, setlen) and not hit(vis, trues)
        ctx.vcheck(ok, UND, "decision/conflict-rejected", f"{q} | second framing header {h.decode()}",
                  f"a request that already has a body decoder (repeated Content-Length, or Content-Length with Transfer-Encoding) is not "
                  f"rejected when {h.decode()}: {d.decode()} arrives")
    for h in (b"X", b"Content-Lengthx", b"Content-Type", b"Te", b"Host"):
        vis = run(h, b"5", None)
        ok = hit(vis, trues) and not hit(vis, fail) and not hit(vis, install) and not hit(vis, ident) and not hit(vis, chunk)
        ctx.vcheck(ok, UND, "decision/other-headers-neutral", f"{q} | header {h!r}", f"header {h!r} changes the framing or is rejected")


    # coupled installation: length and decoder from the same validated value
    for n in ident:
        c = call_in(g.node(n).ast, "_IdentityTransferDecoder")
        a0 = c.args[0] if c.args else None
        v = a0
        if isinstance(a0, ast.Name):
            v = _closest_def(g, f, a0.id, n)
        ok = isinstance(v, ast.Call) and call_name(v) == "int" and len(v.args) in (1, 2) and isinstance(v.args[0], ast.Name) and v.args[0].id == dp \
            and (len(v.args) == 1 or is_const(v.args[1], 10))
        ctx.check(ok, "provenance/identity-length-is-content-length", ctx.construct(q, c),
                  "the identity decoder is not created with int(<Content-Length value>)")
        for s in setlen:
            sv = g.node(s).ast.value
            ok = isinstance(a0, ast.Name) and isinstance(sv, ast.Name) and sv.id == a0.id
            ctx.check(ok, "provenance/length-matches-decoder", ctx.construct(q, g.node(s).ast),
                      "self.length is not set from the same value the identity decoder counts with")
    for n in chunk:
        for s in setlen:
            sv = g.node(s).ast.value
            v = _closest_def(g, f, sv.id, n) if isinstance(sv, ast.Name) else sv
            ctx.check(isinstance(v, ast.Constant) and v.value is None, "provenance/chunked-length-none", ctx.construct(q, g.node(n).ast),
                      "for chunked coding self.length is not None: lineReceived would treat the request as having a fixed/empty body")
    for n in ident + chunk:
        c = call_in(g.node(n).ast, "_IdentityTransferDecoder", "_ChunkedTransferDecoder")
        args = list(c.args) + [k.value for k in c.keywords]
        ok = len(args) >= 2 and src(args[-1]) == "self._finishRequestBody" and src(args[-2]).endswith(".handleContentChunk") and \
            src(args[-2]).startswith("self.requests[-1]")
        ctx.check(ok, "provenance/decoder-callbacks", ctx.construct(q, c),
                  "body bytes do not go to the current request's handleContentChunk / the bytes after the body are not given back through _finishRequestBody")
    for i in install:
        w1 = ordered(g, setlen, [i])
        w2 = g.must_pass([i], setlen, exc=False)
        ctx.check(w1 is None or w2 is None, "provenance/length-and-decoder-together", ctx.construct(q, g.node(i).ast),
                  "a decoder is installed on a path that does not set self.length (the request would be completed before its body)",
                  witness=g.describe(w2))
        v = g.node(i).ast.value
        src_ok = isinstance(v, ast.Name) and all(isinstance(x, ast.Call) and call_name(x) in ("_IdentityTransferDecoder", "_ChunkedTransferDecoder")
                                                for x in local_values(f, v.id))
        ctx.check(src_ok, "provenance/installed-decoder-is-chosen", ctx.construct(q, g.node(i).ast), "the installed decoder is not the one chosen from the header")

    # _failChooseTransferDecoder
    ff = ctx.func(HTTP, "HTTPChannel._failChooseTransferDecoder")
    gf = ctx.cfg(ff)
    qf = QC + "_failChooseTransferDecoder"
    rs = calls_named(gf, RESPOND)
    wit = gf.must_pass([gf.entry], rs, exc=False)
    ctx.need(rs, "anchor: rs") and ctx.check(wit is None, "mustpass/fail-sends-400", qf, "_failChooseTransferDecoder can return without answering 400", witness=gf.describe(wit))
    for r in gf.ids(lambda n: n.kind == "stmt" and isinstance(n.ast, ast.Return)):
        ctx.check(is_falsy_return(gf.node(r).ast) and gf.node(r).ast.value is not None, "mustpass/fail-returns-false", ctx.construct(qf, gf.node(r).ast),
                  "_failChooseTransferDecoder reports success: the header with invalid framing is accepted")


def c19_bad_request_helper(s: SCtx) -> None:
    ctx = s
    QC = Q + 'HTTPChannel.'
    f = ctx.func(HTTP, "HTTPChannel._respondToBadRequestAndDisconnect")
    g = ctx.cfg(f)
    q = QC + "_respondToBadRequestAndDisconnect"
    ws = calls_named(g, "self.transport.write", "self.transport.writeSequence")
    ctx.need(ws, "transport.write in _respondToBadRequestAndDisconnect")
    for n in ws:
        c = call_in(g.node(n).ast, "self.transport.write", "self.transport.writeSequence")
        a = c.args[0] if c.args else None
        v = a.value if isinstance(a, ast.Constant) and isinstance(a.value, bytes) else None
        ok = v is not None and v.startswith(b"HTTP/1.1 400 ") and v.endswith(b"\r\n\r\n") and v.count(b"\r\n") == 2
        ctx.check(ok, "mustpass/400-status-line", ctx.construct(q, c), "the bad-request response is not exactly a 400 status line followed by an empty line")
    lose = calls_named(g, "self.loseConnection", "self.transport.loseConnection", "self.transport.abortConnection")
    wit = g.must_pass([g.entry], lose, exc=False)
    ctx.need(lose, "anchor: lose") and ctx.check(wit is None, "mustpass/400-then-close", q, "the 400 is sent but the connection is not closed: following bytes are still parsed",
              witness=g.describe(wit))
    wit = ordered(g, ws, lose)
    ctx.check(wit is None, "mustpass/400-before-close", q, "the connection is closed before the 400 is written", witness=g.describe(wit))
    f2 = ctx.func(HTTP, "HTTPChannel.loseConnection")
    g2 = ctx.cfg(f2)
    tl = calls_named(g2, "self.transport.loseConnection", "self.transport.abortConnection")
    wit = g2.must_pass([g2.entry], tl, exc=False)
    ctx.need(tl, "anchor: tl") and ctx.check(wit is None, "mustpass/channel-close-reaches-transport", QC + "loseConnection",
              "HTTPChannel.loseConnection can return without closing the transport", witness=g2.describe(wit))


RESPOND = "self._respondToBadRequestAndDisconnect"


def _channel_views(s: SCtx):
    cls = s.cls(HTTP, "HTTPChannel")
    callers = _class_callers(cls)
    roots = [n for n in methods(cls) if not _is_inlined_helper(n, callers)]
    return cls, {n: s.func(HTTP, "HTTPChannel." + n) for n in roots}


def _allowed_after_reject(node) -> bool:
    st = node.ast
    if node.kind in ("join", "test", "for", "handler", "with", "with_exit"):
        return node.kind in ("join", "test")
    if isinstance(st, ast.Return):
        return is_falsy_return(st)
    if isinstance(st, ast.Pass):
        return True
    if isinstance(st, ast.Expr) and isinstance(st.value, ast.Call) and (call_name(st.value) or "").startswith("self._log."):
        return True
    if isinstance(st, ast.Expr) and isinstance(st.value, ast.Constant):
        return True
    if isinstance(st, (ast.Assign, ast.AnnAssign)) and isinstance(getattr(st, "value", None), ast.Constant):
        return True
    return False


def c19_reject_discipline(s: SCtx, I) -> None:
    """must-pass-through: after every 400 site the (inlined) method only returns falsy values - decided by following, from the
    site, the branches the constants assigned on the way decide; an undecided branch makes the rule abstain for that site."""
    QC = Q + "HTTPChannel."
    cls, views = _channel_views(s)
    n_sites = 0
    for n, f in views.items():
        g = s.cfg(f)
        for site in calls_named(g, RESPOND):
            n_sites += 1
            und = []
            starts = [d for d, l in g.succ[site] if l != "exc"]
            vis = walk(g, I, {}, starts=starts, undecided=und)
            cons = f"{QC}{n} | 400 {site_label(g, site)}"
            if und:
                s.note(f"reject/stop-after-400: {cons}: a branch after the 400 is not decided by constants, site left to the bounded rules framing/*")
                continue
            facts = {}
            for t, lab in g.edge_guards(site):          # what the dominating guards say about plain boolean temporaries
                te = g.node(t).ast
                if isinstance(te, ast.Name):
                    facts[te.id] = (lab == "T")
            unknown_ret = False

            def allowed(node):
                nonlocal unknown_ret
                if _allowed_after_reject(node):
                    return True
                st = node.ast
                if node.kind == "stmt" and isinstance(st, ast.Return) and st.value is not None:
                    try:
                        return not I.ev(st.value, dict(facts))
                    except Exception:
                        unknown_ret = True
                        return True
                return False
            bad = [v for v in vis if v not in (g.exit, g.raise_exit) and not allowed(g.node(v))]
            if unknown_ret and not bad:
                s.note(f"mustpass/stop-after-400: {cons}: the value returned after the 400 is not determined by the dominating guards, site left to the bounded rules framing/*")
                continue
            s.check(not bad, "mustpass/stop-after-400", cons,
                    "after answering 400 the method goes on (state is changed / the request proceeds / a true result is returned): " + (src(g.node(bad[0]).ast)[:70] if bad else ""),
                    witness=g.describe(g.path(starts, bad, edge_ok=no_exc)) if bad else "")
    s.floor("mustpass/stop-after-400", n_sites, 3)
    # the validating methods' boolean results are used
    ms = methods(cls)
    validators = set()
    for _ in range(3):
        for n, m in ms.items():
            rets = [r for r in ast.walk(m) if isinstance(r, ast.Return) and r.value is not None]
            rejects = any(isinstance(c, ast.Call) and (call_name(c) == RESPOND or (isinstance(c.func, ast.Attribute) and self_attr(c.func) and c.func.attr in validators)) for c in ast.walk(m))
            falsy = any(isinstance(r.value, ast.Constant) and r.value.value is False for r in rets)
            truthy = any(isinstance(r.value, ast.Constant) and r.value.value is True for r in rets)
            if rejects and falsy and (truthy or any(isinstance(r.value, ast.Call) for r in rets)):
                validators.add(n)
            elif rejects and rets and all(isinstance(r.value, ast.Constant) and r.value.value is False for r in rets):
                validators.add(n)
    s.need(validators, "validating methods (400 then return False)")
    count = 0
    for n, m in ms.items():
        for st in ast.walk(m):
            calls = [c for c in ast.walk(st) if isinstance(c, ast.Call) and isinstance(c.func, ast.Attribute) and self_attr(c.func) and c.func.attr in validators] \
                if isinstance(st, ast.stmt) and not isinstance(st, (ast.FunctionDef, ast.If, ast.For, ast.While, ast.Try, ast.With)) else []
            for c in calls:
                count += 1
                cons = f"{Q}HTTPChannel | result of {c.func.attr}() at a call site in {n}: {src(st)[:60]}"
                if isinstance(st, ast.Expr) and st.value is c:
                    s.violation("mustpass/result-used", f"{Q}HTTPChannel | result of {c.func.attr}() dropped",
                                f"the boolean result of {c.func.attr}() is dropped in {n}: after the 400 the channel keeps parsing this request (it is handed to the application when the "
                                "transport keeps delivering, e.g. TLS until close_notify)")
                else:
                    s.ok("mustpass/result-used", cons, "result returned / tested / stored")
        for tst in [x.test for x in ast.walk(m) if isinstance(x, (ast.If, ast.While, ast.IfExp))]:
            for c in ast.walk(tst):
                if isinstance(c, ast.Call) and isinstance(c.func, ast.Attribute) and self_attr(c.func) and c.func.attr in validators:
                    count += 1
                    s.ok("mustpass/result-used", f"{Q}HTTPChannel | result of {c.func.attr}() tested in {n}", "result tested")
    s.floor("mustpass/result-used", count, 4)
    # every delivery to the body decoder converts _MalformedChunkedDataError into a 400
    n_dec = 0
    for n, f in views.items():
        g = s.cfg(f)
        sites = calls_named(g, RESPOND)
        for d in calls_named(g, "self._transferDecoder.dataReceived"):
            n_dec += 1
            hs = [h for h in handlers_of(g, d) if catches(I, g.node(h).ast, "_MalformedChunkedDataError")]
            wit = None
            for h in hs:
                wit = wit or g.must_pass([h], sites, exc=False)
            s.need(hs, "anchor: hs") and s.check(wit is None, "mustpass/malformed-chunk-gives-400", s.construct(QC + n, g.node(d).ast),
                    "malformed chunked data (_MalformedChunkedDataError) raised by the body decoder is not answered with 400", witness=g.describe(wit) if wit else "no handler")
    s.floor("mustpass/malformed-chunk-gives-400", n_dec, 1)


def c19_int_provenance(s: SCtx, I) -> None:
    """provenance + dominance: every int() applied to header data is dominated by a test that rejects non-digits."""
    QC = Q + "HTTPChannel."
    f = s.func(HTTP, "HTTPChannel._maybeChooseTransferDecoder")
    g = s.cfg(f)
    dp = f.args.args[2].arg
    ints = [n for n in g.ids(lambda x: x.kind == "stmt") if any(isinstance(c, ast.Call) and isinstance(c.func, ast.Name) and c.func.id == "int" and c.args and
                                                                any(isinstance(v, ast.Name) and v.id == dp for v in resolve_local(f, c.args[0])) for c in walk_local(g.node(n).ast))]
    s.need(ints, "int(<header value>) in _maybeChooseTransferDecoder")
    for n in ints:
        ok = True
        for bad in (b"+5", b"-5", b" 5", b"5 ", b"", b"0x5", b"5_0", b"\xd9\xa5", b"5\n"):
            vis = walk(g, I, make_env({dp: bad, f.args.args[1].arg: b"Content-Length", "self._transferDecoder": None}))
            ok = ok and n not in vis
        s.check(ok, "provenance/content-length-validated-before-int", s.construct(QC + "_maybeChooseTransferDecoder", g.node(n).ast),
                "int() is reached with a Content-Length value that is not 1*DIGIT (int accepts sign, whitespace, underscores)")


def c19_identity_decoder(s: SCtx, ctx) -> None:
    """finite-exhaustive: dataReceived looks at its argument only through len(data) compared with contentLength and slices at
    contentLength (checked on the code), so one representative per ordering class (shorter / equal / longer, contentLength 0) is exhaustive."""
    from sa.props._lib_e_machine import Machine, Opaque, PyRaise, exc_name, ClassV
    f = s.raw_func(HTTP, "_IdentityTransferDecoder.dataReceived")
    p = f.args.args[1].arg
    for t in [x.test for x in ast.walk(f) if isinstance(x, (ast.If, ast.While, ast.IfExp))]:
        for nm in [x for x in ast.walk(t) if isinstance(x, ast.Name) and x.id == p]:
            par = getattr(nm, "_parent", None)
            if not (isinstance(par, ast.Call) and call_name(par) == "len"):
                raise Abstain("dataReceived tests its argument other than through len()")
    m = Machine(ctx.tree, budget=50000, allowed={"web/http.py"})
    cls = m.global_lookup(m.module(HTTP), "_IdentityTransferDecoder")
    if not isinstance(cls, ClassV):
        raise Abstain("_IdentityTransferDecoder")
    bad = None
    for cl in (0, 1, 3):
        for pieces in ([b"abc"], [b"ab"], [b"abcde"], [b"a", b"bc"], [b"a", b"bcde"], [b"", b"abc"], [b"abc", b""]):
            def thunk(mm, cl=cl, pieces=pieces):
                d = mm.instantiate(cls, [cl, Opaque("dataCallback", True), Opaque("finishCallback", True)], {})
                err = None
                for x in pieces:
                    try:
                        mm.call(mm.get_attr(d, "dataReceived"), [x])
                    except PyRaise as e:
                        err = exc_name(e.exc)
                        break
                return err
            outs = m.explore(thunk, max_paths=2)
            if len(outs) != 1 or outs[0].kind != "ok":
                raise Abstain("identity decoder not decidable by interpretation")
            o = outs[0]
            data = b"".join(e.args[0] for e in o.events if e.kind == "call" and e.name == "dataCallback")
            fin = [e.args[0] for e in o.events if e.kind == "call" and e.name == "finishCallback"]
            stream = b"".join(pieces)
            # pieces after completion are refused (RuntimeError): compute what the first completing piece leaves
            total, want_fin, want_data, late = 0, None, b"", False
            for x in pieces:
                if want_fin is not None:
                    late = True
                    break
                if total + len(x) >= cl:
                    want_data += x[:cl - total]
                    want_fin = x[cl - total:]
                else:
                    want_data += x
                total += len(x)
            ok = data == want_data and fin == ([want_fin] if want_fin is not None else []) and (o.value == ("RuntimeError" if late else None))
            if not ok and bad is None:
                bad = (cl, pieces, data, fin, o.value)
    s.check(bad is None, "ordering/identity-decoder", Q + "_IdentityTransferDecoder.dataReceived",
            (f"contentLength={bad[0]} deliveries {bad[1]!r}: body {bad[2]!r}, finishCallback {bad[3]!r}, exception {bad[4]}; the body must be exactly contentLength bytes, finished when the "
             "last one arrives, the rest handed back once, later deliveries refused") if bad else "",
            detail="every ordering of len(data) vs remaining contentLength (shorter, equal, longer, zero), one and two deliveries; the method inspects data only via len() (checked)")


# =====================================================================================================================
# C20
# =====================================================================================================================
import itertools  # noqa: E402


def _abstain_if_undecided(g, und):
    und = [u for u in und if not any(k in src(g.node(u).ast) for k in ("self._log", "hasattr", ".factory"))]   # logging decisions do not reach a wire sink
    if und:
        raise Abstain("a guard is not decided by the valuation: " + src(g.node(und[0]).ast)[:70])


def _is_san(x):
    return isinstance(x, ast.Call) and call_name(x) == "_sanitizeLinearWhitespace"


def c20_status_provenance(s: SCtx) -> None:
    ctx = s
    QR = Q + 'Request.'
    HDRS = 'web/http_headers.py'
    SAN = '_sanitizeLinearWhitespace'
    f = ctx.func(HTTP, "Request.write")
    g = ctx.cfg(f)
    q = QR + "write"
    wh = calls_named(g, "self.channel.writeHeaders")
    ctx.need(wh, "self.channel.writeHeaders call in Request.write")
    cls = ctx.cls(HTTP, "Request")
    mod = ctx.mod(HTTP)
    for n in wh:
        c = call_in(g.node(n).ast, "self.channel.writeHeaders")
        ctx.need(len(c.args) == 4 and not c.keywords, "writeHeaders(version, code, reason, headers) positional call")
        av, ac, ar, ah = c.args
        # reason
        vals = resolve_local(f, ar)
        at_sink = bool(vals) and all(_is_san(v) for v in vals)
        ok = at_sink
        if not ok and all(self_attr(v, "code_message") for v in vals):
            ws = [a for a in class_accesses(mod, cls, {"code_message"}) if a.kind == "assign"]
            ok = bool(ws) and all(_is_san(a.node.value) or "RESPONSES" in src(a.node.value) and not any(
                isinstance(x, ast.Name) and x.id in [p.arg for p in ctx.raw_func(HTTP, a.func).args.args][2:] for x in ast.walk(a.node.value)) for a in ws)
        ctx.check(ok, "status/reason-sanitised", ctx.construct(q, c),
                  "the reason phrase reaches the status line unsanitised: setResponseCode(200, b'OK\\r\\nX-Injected: yes') injects a header / splits the response")
        # code
        vals = resolve_local(f, ac)
        def numeric(v):
            if isinstance(v, ast.BinOp) and isinstance(v.op, ast.Mod) and isinstance(v.left, ast.Constant) and v.left.value in (b"%d", "%d", b"%i", b"%u"):
                return True
            if isinstance(v, ast.Call) and call_name(v) in ("intToBytes", "networkString", "str", "bytes") and "int(" in src(v):
                return True
            if isinstance(v, ast.Call) and call_name(v) in ("intToBytes",):
                return True
            t = src(v)
            if not isinstance(v, (ast.Name, ast.Attribute)) and ("str(" in t or "int(" in t or "%d" in t or ":d}" in t):
                return True
            return False
        raw = [v for v in vals if isinstance(v, (ast.Name, ast.Attribute))]
        if raw or all(numeric(v) for v in vals):
            ctx.check(not raw, "status/code-numeric", ctx.construct(q, c), "the status code is written as given instead of being formatted as a decimal number")
        else:
            ctx.need(False, f"recognised numeric formatting of the status code ({[src(v) for v in vals]})")
        # version
        vals = resolve_local(f, av)
        ctx.check(all(self_attr(v, "clientproto") for v in vals), "status/version-validated", ctx.construct(q, c),
                  "the response version is not the request's validated clientproto")
        ctx.check(all(src(v) == "self.responseHeaders" for v in resolve_local(f, ah)), "status/headers-object", ctx.construct(q, c), "the headers written are not the Request's Headers object")
    # clientproto only from the channel's validated request line
    rr = ctx.func(HTTP, "Request.requestReceived")
    p3 = rr.args.args[3].arg if len(rr.args.args) >= 4 else None
    for a in [a for a in class_accesses(mod, cls, {"clientproto"}) if a.kind == "assign"]:
        v = a.node.value
        ctx.check(a.func == "Request.requestReceived" and isinstance(v, ast.Name) and v.id == p3, "status/version-validated", ctx.construct(Q + a.func, a.node),
                  "clientproto is assigned from something other than the version validated by _parseRequestLine")
    # every header mutation precedes the moment the headers are written
    muts = calls_named(g, "self.responseHeaders.setRawHeaders", "self.responseHeaders.addRawHeader", "self.responseHeaders.removeHeader")
    for m in muts:
        late = g.path(wh, [m], edge_ok=no_exc, strict=True)
        ctx.check(late is None, "headers/complete-before-written", ctx.construct(q, call_in(g.node(m).ast, ".setRawHeaders", ".addRawHeader", ".removeHeader")),
                  "a response header is set after the header block was written (it is silently lost)", witness=g.describe(late))


def c20_cookies(s: SCtx) -> None:
    ctx = s
    QR = Q + 'Request.'
    HDRS = 'web/http_headers.py'
    SAN = '_sanitizeLinearWhitespace'
    f = ctx.func(HTTP, "Request.addCookie")
    g = ctx.cfg(f)
    q = QR + "addCookie"
    apps = calls_named(g, "self.cookies.append")
    ctx.need(apps, "self.cookies.append in addCookie")
    cvar = None
    for n in apps:
        a = call_in(g.node(n).ast, "self.cookies.append").args[0]
        cvar = a.id if isinstance(a, ast.Name) else None
        ctx.need(cvar is not None, "cookie assembled in a local variable by concatenation")
    count = 0
    for n in g.ids(lambda n: n.kind == "stmt" and isinstance(n.ast, (ast.Assign, ast.AugAssign))):
        st = g.node(n).ast
        tg = assigned_targets(st)
        if not (len(tg) == 1 and isinstance(tg[0], ast.Name) and tg[0].id == cvar):
            continue
        ops = []

        def flat(e):
            if isinstance(e, ast.BinOp) and isinstance(e.op, ast.Add):
                flat(e.left)
                flat(e.right)
            else:
                ops.append(e)
        flat(st.value)
        for e in ops:
            count += 1
            ok = False
            if isinstance(e, ast.Constant) and isinstance(e.value, bytes):
                ok = not (set(e.value) & {10, 13})
            elif isinstance(e, ast.Name) and e.id == cvar:
                ok = True
            elif isinstance(e, ast.Call) and call_name(e) == "_sanitize":
                ok = True
            elif isinstance(e, ast.Name):
                for t, lab in g.edge_guards(n):
                    te = g.node(t).ast
                    if isinstance(te, ast.Compare) and len(te.ops) == 1 and isinstance(te.left, ast.Name) and te.left.id == e.id and \
                            isinstance(te.comparators[0], (ast.List, ast.Tuple, ast.Set)) and \
                            ((isinstance(te.ops[0], ast.NotIn) and lab == "F") or (isinstance(te.ops[0], ast.In) and lab == "T")) and \
                            all(isinstance(x, ast.Constant) and isinstance(x.value, bytes) and not (set(x.value) & {10, 13, 59}) for x in te.comparators[0].elts):
                        ok = True
            if not ok:
                params_ = {p.arg for p in f.args.args + f.args.kwonlyargs}
                raw = (isinstance(e, ast.Name) and e.id in params_) or (isinstance(e, ast.Call) and call_name(e) in ("_ensureBytes",) and e.args and isinstance(e.args[0], ast.Name) and e.args[0].id in params_) \
                    or (isinstance(e, ast.Name) and any(isinstance(v, ast.Call) and "_ensureBytes" in src(v) and "_sanitize" not in src(v) for v in local_values(f, e.id)))
                if not raw:
                    raise Abstain("cookie piece of an unrecognised form: " + src(e)[:50])
            ctx.check(ok, "cookie/pieces-sanitised", f"{q} | {src(st)[:70]} | piece {src(e)[:50]}",
                      f"cookie piece {src(e)} is neither a literal nor _sanitize()d nor checked against a constant list: CR/LF/';' in it inject a header or a cookie attribute")
    ctx.floor("cookie/pieces-sanitised", count, 12)
    mod = ctx.mod(HTTP)
    for a in class_accesses(mod, ctx.cls(HTTP, "Request"), {"cookies"}):
        ctx.check((a.func, a.kind) in (("Request.__init__", "rebind-empty"), ("Request.addCookie", "append")), "cookie/who-may-write",
                  ctx.construct(Q + a.func, a.node), "Request.cookies is mutated outside addCookie")


def c20_write_valuations(s: SCtx, I) -> None:
    ctx = s
    QR = Q + 'Request.'
    HDRS = 'web/http_headers.py'
    SAN = '_sanitizeLinearWhitespace'
    f = ctx.func(HTTP, "Request.write")
    g = ctx.cfg(f)
    q = QR + "write"
    dp = f.args.args[1].arg
    consts = I.consts
    nb = consts.get("NO_BODY_CODES")
    ctx.check(nb is not None and set(nb) == {204, 304}, "body/no-body-codes", Q + "NO_BODY_CODES", f"NO_BODY_CODES is {nb!r}; 204 and 304 responses must not carry a body")
    wh = calls_named(g, "self.channel.writeHeaders")
    setc = assigns_self(g, "chunked", lambda v: isinstance(v, ast.Constant) and bool(v.value))
    te = [n for n in calls_named(g, "self.responseHeaders.setRawHeaders") if "transfer-encoding" in src(g.node(n).ast).lower()]
    bchunk = [n for n in calls_named(g, "self.channel.writeSequence", "self.channel.write", "self.transport.writeSequence", "self.transport.write") if call_in(g.node(n).ast, "toChunk")]
    bplain = [n for n in calls_named(g, "self.channel.write", "self.transport.write") if n not in bchunk]
    noop = assigns_self(g, "write")
    ctx.need(wh and setc and te and bchunk and bplain, "writeHeaders / chunked flag / Transfer-Encoding header / body writes in Request.write")
    for n in te:
        c = call_in(g.node(n).ast, "self.responseHeaders.setRawHeaders")
        ok = len(c.args) == 2 and isinstance(c.args[0], ast.Constant) and isinstance(c.args[1], ast.List) and len(c.args[1].elts) == 1 and is_const(c.args[1].elts[0], b"chunked")
        ctx.check(ok, "body/chunked-header-value", ctx.construct(q, c), "the Transfer-Encoding header announced is not exactly 'chunked'")
    for n in bchunk:
        c = call_in(g.node(n).ast, "toChunk")
        ctx.check(len(c.args) == 1 and src(c.args[0]) == dp, "body/chunk-is-the-data", ctx.construct(q, c), "the chunk written is not the data passed to write()")
    for n in bplain:
        c = call_in(g.node(n).ast, "self.channel.write", "self.transport.write")
        ctx.check(len(c.args) == 1 and src(c.args[0]) == dp, "body/chunk-is-the-data", ctx.construct(q, c), "the bytes written are not the data passed to write()")
    for n in noop:
        v = g.node(n).ast.value
        ok = isinstance(v, ast.Lambda) and not any(isinstance(x, ast.Call) for x in ast.walk(v.body))
        ctx.check(ok, "body/later-writes-disabled", ctx.construct(q, g.node(n).ast), "the replacement for write() on a body-less response still writes")

    def hit(vis, nodes):
        return any(n in vis for n in nodes)
    CLTERM = "self.responseHeaders.getRawHeaders(b'Content-Length')"
    for ver, cl, meth, code, data in itertools.product((b"HTTP/1.1", b"HTTP/1.0"), (None, [b"5"]), (b"GET", b"HEAD", b"POST"), (200, 204, 304, 404), (b"xyz", b"")):
        env = make_env({"self.finished": 0, "self._disconnected": False, "self.startedWriting": 0, "self.clientproto": ver, CLTERM: cl,
                        "self.method": meth, "self.code": code, dp: data, "self.chunked": 0, "self.lastModified": None, "self.etag": None,
                        "self.cookies": [], "self.sentLength": 0})
        _und = []
        vis = walk(g, I, env, undecided=_und)
        _abstain_if_undecided(g, _und)
        want_chunked = ver == b"HTTP/1.1" and cl is None and meth != b"HEAD" and code not in (204, 304)
        nobody = meth == b"HEAD" or code in (204, 304)
        label = f"{q} | {ver.decode()} CL={'set' if cl else 'none'} {meth.decode()} {code} data={'yes' if data else 'empty'}"
        ctx.check(hit(vis, wh), "body/headers-on-first-write", label, "the first write does not emit the headers")
        ctx.check(hit(vis, setc) == want_chunked and hit(vis, te) == want_chunked, "body/chunked-iff", label,
                  ("chunked coding is not selected although HTTP/1.1, no Content-Length, body allowed" if want_chunked else
                   "chunked coding is selected although the response has a Content-Length / is HTTP/1.0 / HEAD / 204 / 304 (framing inconsistent with the body)"))
        if nobody:
            ctx.check(not hit(vis, bchunk) and not hit(vis, bplain) and hit(vis, noop), "body/none-for-head-204-304", label,
                      "a HEAD / 204 / 304 response writes body bytes, or later writes are not disabled")
        elif data:
            ctx.check(hit(vis, bchunk) == want_chunked and hit(vis, bplain) == (not want_chunked), "body/encoding-matches-framing", label,
                      "the body bytes are not written in the coding announced by the headers")
        else:
            ctx.check(not hit(vis, bchunk) and not hit(vis, bplain), "body/empty-write-not-encoded", label,
                      "an empty write emits bytes: with chunked coding that is the terminator '0 CRLF CRLF' in the middle of the body")
    for ch, data in itertools.product((0, 1), (b"xyz", b"")):
        env = make_env({"self.finished": 0, "self._disconnected": False, "self.startedWriting": 1, dp: data, "self.chunked": ch, "self.sentLength": 0})
        _und = []
        vis = walk(g, I, env, undecided=_und)
        _abstain_if_undecided(g, _und)
        label = f"{q} | later write chunked={ch} data={'yes' if data else 'empty'}"
        ctx.check(not hit(vis, wh), "body/headers-once", label, "the header block is written again on a later write")
        if data:
            ctx.check(hit(vis, bchunk) == bool(ch) and hit(vis, bplain) == (not ch), "body/encoding-matches-framing", label, "later body bytes are not written in the announced coding")
        else:
            ctx.check(not hit(vis, bchunk) and not hit(vis, bplain), "body/empty-write-not-encoded", label, "an empty later write emits bytes (chunked terminator)")
    for fin, disc in ((1, False), (0, True)):
        env = make_env({"self.finished": fin, "self._disconnected": disc, "self.startedWriting": 1, dp: b"x", "self.chunked": 1})
        _und = []
        vis = walk(g, I, env, undecided=_und)
        _abstain_if_undecided(g, _und)
        ctx.check(not hit(vis, bchunk + bplain + wh), "body/no-write-after-finish", f"{q} | finished={fin} disconnected={disc}",
                  "bytes are written after finish() / after the connection was lost")
    sw = assigns_self(g, "startedWriting", lambda v: isinstance(v, ast.Constant) and bool(v.value))
    w = ordered(g, sw, wh)
    ctx.need(sw, "anchor: sw") and ctx.check(w is None, "body/headers-once", q + " | startedWriting", "startedWriting is not set before the headers are written", witness=g.describe(w))


def c20_finish_valuations(s: SCtx, I) -> None:
    ctx = s
    QR = Q + 'Request.'
    HDRS = 'web/http_headers.py'
    SAN = '_sanitizeLinearWhitespace'
    f = ctx.func(HTTP, "Request.finish")
    g = ctx.cfg(f)
    q = QR + "finish"
    force = calls_named(g, "self.write")
    term = [n for n in calls_named(g, "self.channel.write", "self.transport.write", "self.channel.writeSequence")]
    ctx.need(term, "anchor: term") and ctx.ok("finish/terminator", q, "terminator write present")
    for n in term:
        c = call_in(g.node(n).ast, "self.channel.write", "self.transport.write", "self.channel.writeSequence")
        ctx.check(len(c.args) == 1 and is_const(c.args[0], b"0\r\n\r\n"), "finish/terminator", ctx.construct(q, c), "the chunked terminator is not exactly 0 CRLF CRLF")
    for n in force:
        c = call_in(g.node(n).ast, "self.write")
        ctx.check(len(c.args) == 1 and is_const(c.args[0], b""), "finish/forces-headers", ctx.construct(q, c), "forcing the headers out adds body bytes")
    ctx.need(force, "anchor: force") and ctx.ok("finish/forces-headers", q, "forced header write present")

    def hit(vis, nodes):
        return any(n in vis for n in nodes)
    for sw, ch in itertools.product((0, 1), (0, 1)):
        env = make_env({"self._disconnected": False, "self.finished": 0, "self.startedWriting": sw, "self.chunked": ch, "self.queued": False})
        _und = []
        vis = walk(g, I, env, undecided=_und)
        _abstain_if_undecided(g, _und)
        label = f"{q} | startedWriting={sw} chunked={ch}"
        ctx.check(hit(vis, force) == (not sw), "finish/forces-headers", label, "headers are not forced out exactly when nothing was written yet")
        if sw:
            ctx.check(hit(vis, term) == bool(ch), "finish/terminator-iff-chunked", label,
                      "the terminator is written for a non-chunked response / missing for a chunked one")
    for fin, disc in ((1, False), (0, True)):
        env = make_env({"self._disconnected": disc, "self.finished": fin, "self.startedWriting": 1, "self.chunked": 1, "self.queued": False})
        _und = []
        vis = walk(g, I, env, undecided=_und)
        _abstain_if_undecided(g, _und)
        ctx.check(not hit(vis, term + force), "finish/once", f"{q} | finished={fin} disconnected={disc}",
                  "a second finish() (or finish after connection loss) writes the terminator / headers again")
    for t in term:
        back = g.path([t], force, edge_ok=no_exc, strict=True)
        tests = [x for x in g.ids(lambda n: n.kind == "test") if src(g.node(x).ast) == "self.startedWriting"]
        w = ordered(g, tests, [t]) if tests else None
        ctx.check(back is None and bool(tests) and w is None, "finish/headers-before-terminator", ctx.construct(q, g.node(t).ast),
                  "the terminator can be written before the headers were forced out", witness=g.describe(back or w))


def c20_persistence_framing(s: SCtx, I) -> None:
    ctx = s
    QR = Q + 'Request.'
    HDRS = 'web/http_headers.py'
    SAN = '_sanitizeLinearWhitespace'
    """Persistence and framing agree: whenever HTTPChannel.checkPersistence keeps the connection open after a response
    that may carry a body, Request.write makes that response self-delimiting (Content-Length present or chunked); a
    close-delimited response is allowed only on a connection that is then closed.  Both decisions are taken from the code:
    checkPersistence is walked under (version, Connection header), Request.write under (version, Content-Length, method, code)."""
    fc = ctx.func(HTTP, "HTTPChannel.checkPersistence")
    gc = ctx.cfg(fc)
    qc = Q + "HTTPChannel.checkPersistence"
    rq, vp = fc.args.args[1].arg, fc.args.args[2].arg
    fw = ctx.func(HTTP, "Request.write")
    gw = ctx.cfg(fw)
    dp = fw.args.args[1].arg
    setc = assigns_self(gw, "chunked", lambda v: isinstance(v, ast.Constant) and bool(v.value))
    ctx.need(setc, "self.chunked = 1 in Request.write")
    # the value stored in self.persistent is this decision for the version that becomes clientproto
    fa = ctx.func(HTTP, "HTTPChannel.allHeadersReceived")
    sets = [st for st in ast.walk(fa) if isinstance(st, ast.Assign) and any(self_attr(t, "persistent") for t in st.targets)]
    ok = bool(sets) and all(isinstance(st.value, ast.Call) and call_name(st.value) == "self.checkPersistence" and len(st.value.args) == 2 and
                            src(st.value.args[1]) == "self._version" for st in sets)
    ctx.check(ok, "persistence/decision-stored", Q + "HTTPChannel.allHeadersReceived", "self.persistent is not checkPersistence(request, self._version)")
    CLTERM = "self.responseHeaders.getRawHeaders(b'Content-Length')"

    def chunked(ver, cl, meth, code):
        env = make_env({"self.finished": 0, "self._disconnected": False, "self.startedWriting": 0, "self.clientproto": ver, CLTERM: cl, "self.method": meth,
                        "self.code": code, dp: b"x", "self.chunked": 0, "self.lastModified": None, "self.etag": None, "self.cookies": [], "self.sentLength": 0})
        und = []
        vis = walk(gw, I, env, undecided=und)
        loose = [u for u in und if gw.path([u], setc, edge_ok=no_exc)]
        if loose:
            raise AnalysisError(f"Request.write: the chunked decision depends on a term the evaluator cannot fix: {src(gw.node(loose[0]).ast)[:80]}")
        return any(n in vis for n in setc)

    for ver in (b"HTTP/1.1", b"HTTP/1.0"):
        for conn in (None, [b"close"], [b"keep-alive"], [b"Keep-Alive"], [b"keep-alive close"], [b"close keep-alive"], [b"upgrade"], [b"KEEP-ALIVE"]):
            results = []

            def on(node, e, results=results):
                if node.kind == "stmt" and isinstance(node.ast, ast.Return) and node.ast.value is not None:
                    try:
                        results.append(bool(I.ev(node.ast.value, e)))
                    except Exception:
                        results.append(None)
            walk(gc, I, make_env({vp: ver, f"{rq}.requestHeaders.getRawHeaders(b'Connection')": conn}), on_node=on)
            label = f"{qc} | {ver.decode()} Connection: {conn[0].decode() if conn else '(absent)'}"
            if len(set(results)) != 1 or results[0] is None:
                raise AnalysisError(f"checkPersistence decision not decidable for {label}: {results}")
            persistent = results[0]
            bad = None
            for cl in (None, [b"5"]):
                for meth in (b"GET", b"HEAD", b"POST"):
                    for code in (200, 204, 304, 404):
                        delimited = cl is not None or meth == b"HEAD" or code in (204, 304) or chunked(ver, cl, meth, code)
                        if persistent and not delimited and bad is None:
                            bad = (meth, code)
            ctx.check(bad is None, "persistence/response-self-delimiting", label,
                      (f"the connection stays open after a {ver.decode()} {bad[0].decode()} {bad[1]} response that has neither Content-Length nor chunked coding: "
                       "its end is never marked and the next response is read as part of its body") if bad else "",
                      detail=f"persistent={persistent}; every body-carrying response is Content-Length/chunked delimited or the connection closes")
            if ver == b"HTTP/1.1" and conn is not None and b"close" in [t.lower() for t in conn[0].split(b" ")]:
                ctx.check(not persistent, "persistence/close-honoured", label, "an HTTP/1.1 request with 'Connection: close' keeps the connection persistent")


def _sanitised_expr(s: SCtx, mod, f, expr, depth=2) -> bool:
    """expr is a call of _sanitizeLinearWhitespace, or of a module function / method whose every return is one (one level)."""
    for v in resolve_local(f, expr):
        if _is_san(v):
            continue
        if isinstance(v, ast.Call) and depth > 0:
            nm = call_name(v) or ""
            helper = mod.find(nm) if nm and "." not in nm else None
            if isinstance(helper, ast.FunctionDef):
                rets = [r for r in ast.walk(helper) if isinstance(r, ast.Return)]
                if rets and all(r.value is not None and _sanitised_expr(s, mod, helper, r.value, depth - 1) for r in rets):
                    continue
        return False
    return True


def c20_headers_store(s: SCtx) -> None:
    """who-may-write + provenance on Headers._rawHeaders, closed over the class (no function-name list): every store puts a
    sanitised value under an encoded name; every other mutation only removes."""
    HDRS = "web/http_headers.py"
    mod = s.mod(HDRS)
    cls = s.cls(HDRS, "Headers")
    qh = "twisted.web.http_headers.Headers."
    n_store = 0
    for name, m in methods(cls).items():
        f = m
        aliases = {}     # local name -> key expression, for  L = self._rawHeaders.setdefault(K, [])
        for st in ast.walk(f):
            if isinstance(st, ast.Assign) and len(st.targets) == 1 and isinstance(st.targets[0], ast.Name) and isinstance(st.value, ast.Call) \
                    and call_name(st.value) == "self._rawHeaders.setdefault" and st.value.args:
                aliases[st.targets[0].id] = st.value.args[0]
        sites = []       # (node, key expr, [value pieces])
        for st in ast.walk(f):
            if isinstance(st, ast.Assign):
                for tg in st.targets:
                    if isinstance(tg, ast.Subscript) and src(tg.value) == "self._rawHeaders":
                        val = st.value
                        pieces = []
                        for v in resolve_local(f, val):
                            if isinstance(v, ast.ListComp):
                                pieces.append(v.elt)
                            elif isinstance(v, ast.List) and isinstance(val, ast.Name):
                                pieces.extend(v.elts)
                                for c in ast.walk(f):
                                    if isinstance(c, ast.Call) and call_name(c) == val.id + ".append" and c.args:
                                        pieces.append(c.args[0])
                                    elif isinstance(c, ast.Call) and (call_name(c) or "").startswith(val.id + ".") and call_attr(c) in ("extend", "insert", "__setitem__"):
                                        raise Abstain("value list filled by extend/insert")
                            else:
                                raise Abstain("stored value list of an unrecognised form: " + src(v)[:50])
                        sites.append((st, tg.slice, pieces))
                    elif isinstance(tg, ast.Attribute) and self_attr(tg, "_rawHeaders") and not (isinstance(st.value, ast.Dict) and not st.value.keys):
                        raise Abstain("_rawHeaders rebound to a non-empty value")
            elif isinstance(st, ast.Call) and call_attr(st) == "append" and isinstance(st.func, ast.Attribute):
                recv = st.func.value
                if isinstance(recv, ast.Call) and call_name(recv) == "self._rawHeaders.setdefault" and recv.args:
                    sites.append((st, recv.args[0], [st.args[0]] if st.args else []))
                elif isinstance(recv, ast.Name) and recv.id in aliases:
                    sites.append((st, aliases[recv.id], [st.args[0]] if st.args else []))
            elif isinstance(st, ast.Call) and (call_name(st) or "").startswith("self._rawHeaders.") and call_attr(st) in ("update", "__setitem__"):
                raise Abstain("_rawHeaders.update")
        params = [p.arg for p in f.args.args]
        for node, key, pieces in sites:
            n_store += 1
            cons = s.construct(qh + name, node)
            kvals = resolve_local(f, key)
            okk = bool(kvals) and all(isinstance(k, ast.Call) and call_name(k) == "_nameEncoder.encode" and len(k.args) == 1 and isinstance(k.args[0], ast.Name) and k.args[0].id in params for k in kvals)
            s.check(okk, "provenance/header-name-encoded", cons, "a header is stored under a name that did not pass _nameEncoder.encode (token check)")
            okv = bool(pieces) and all(_sanitised_expr(s, mod, f, p) for p in pieces)
            s.check(okv, "provenance/header-value-sanitised", cons,
                    "a header value is stored without _sanitizeLinearWhitespace: CR/LF in the value reach the wire (header injection / response splitting)")
    s.floor("provenance/header-value-sanitised", n_store, 2)
    outside = [n for n in ast.walk(s.mod(HTTP).tree) if isinstance(n, ast.Attribute) and n.attr == "_rawHeaders"]
    s.check(not outside, "provenance/header-store-private", "twisted.web.http | ._rawHeaders", "web/http.py reaches into Headers._rawHeaders directly")


def c20_foreign_headers(s: SCtx) -> None:
    """provenance at the wire sink: the object whose getAllRawHeaders() feeds the header block is the parameter only where
    isinstance(param, Headers) holds, otherwise a fresh Headers() filled through addRawHeader/setRawHeaders."""
    f = s.func(HTTP, "HTTPChannel.writeHeaders")
    g = s.cfg(f)
    q = Q + "HTTPChannel.writeHeaders"
    ph = f.args.args[4].arg
    uses = [n for n in g.ids(lambda x: x.kind in ("stmt", "for")) if any(isinstance(c, ast.Call) and call_attr(c) == "getAllRawHeaders" for c in ast.walk(g.node(n).ast.iter if g.node(n).kind == "for" else g.node(n).ast))]
    s.need(uses, "getAllRawHeaders() use in writeHeaders")
    tests = [t for t in g.ids(lambda x: x.kind == "test") if src(g.node(t).ast) == f"isinstance({ph}, Headers)"]
    if not tests:
        raise Abstain("no isinstance(headers, Headers) test")
    for u in uses:
        node = g.node(u)
        call = next(c for c in ast.walk(node.ast.iter if node.kind == "for" else node.ast) if isinstance(c, ast.Call) and call_attr(c) == "getAllRawHeaders")
        recv = call.func.value
        if not isinstance(recv, ast.Name):
            raise Abstain("receiver of getAllRawHeaders is not a local name")
        defs = [n for n in g.ids(lambda x: x.kind == "stmt" and isinstance(x.ast, ast.Assign) and any(isinstance(t, ast.Name) and t.id == recv.id for t in x.ast.targets))]
        ok = True
        wit = None
        for d in defs:
            v = g.node(d).ast.value
            vals = resolve_local(f, v) if not (isinstance(v, ast.Name) and v.id == ph) else [v]
            for x in vals:
                if isinstance(x, ast.Name) and x.id == ph:
                    ok = ok and g.guarded(d, lambda e: src(e) == f"isinstance({ph}, Headers)", True)
                elif isinstance(x, ast.Call) and call_name(x) == "Headers" and not x.args:
                    fills = [c for c in ast.walk(f) if isinstance(c, ast.Call) and isinstance(c.func, ast.Attribute) and isinstance(c.func.value, ast.Name)
                             and c.func.value.id in {t.id for t in g.node(d).ast.targets if isinstance(t, ast.Name)} | ({v.id} if isinstance(v, ast.Name) else set())
                             and call_attr(c) not in ("getAllRawHeaders",)]
                    ok = ok and all(call_attr(c) in ("addRawHeader", "setRawHeaders") for c in fills)
                else:
                    raise Abstain("unrecognised source of the headers object: " + src(x)[:50])
        if recv.id == ph:
            # the parameter itself reaches the use on paths that avoid every rebinding: those paths must have passed isinstance -> True
            wit = g.path([g.entry], [u], avoid=defs, edge_ok=lambda a, b, l: l != "exc" and not (a in tests and l == "F"))
            wit = g.path([g.entry], [u], avoid=set(defs), edge_ok=lambda a, b, l: l != "exc" and not (a in tests and l == "T"))
            ok = ok and wit is None
        s.check(ok, "provenance/foreign-iterable-rebuilt", s.construct(q, call),
                "header pairs given as a plain iterable reach the wire without being rebuilt through Headers.addRawHeader (no name check, no CR/LF removal)", witness=g.describe(wit))


def c21_flow_control_siblings(s: SCtx, I) -> None:
    """sibling agreement (finite-exhaustive over the guards' valuations): HTTPChannel.pauseProducing pauses the network producer under exactly
    the condition under which resumeProducing resumes it, so each pause is undone by the next resume."""
    QC = Q + "HTTPChannel."
    fp, fr = s.func(HTTP, "HTTPChannel.pauseProducing"), s.func(HTTP, "HTTPChannel.resumeProducing")
    gp, gr = s.cfg(fp), s.cfg(fr)
    pp = calls_named(gp, "self._networkProducer.pauseProducing")
    rr = calls_named(gr, "self._networkProducer.resumeProducing")
    s.need(pp and rr, "network producer pause / resume calls in pauseProducing / resumeProducing")
    atoms = set()
    for g, sites in ((gp, pp), (gr, rr)):
        for n in sites:
            for t, lab in g.edge_guards(n):
                for a in ast.walk(g.node(t).ast):
                    if self_attr(a):
                        atoms.add(dotted(a))
    atoms -= {"self._requestProducer"}
    s.need(atoms, "guards of the network producer calls")
    if len(atoms) > 4:
        raise Abstain("too many guard atoms")
    domain = {"self._handlingRequest": (True, False), "self.requests": ([], [object()]), "self._waitingForTransport": (True, False)}
    names = sorted(atoms)
    for nm in names:
        if nm not in domain:
            domain[nm] = (True, False)
    # requests non-empty does not imply a request is being handled (a request being parsed is queued already): all combinations are reachable
    for vals in itertools.product(*[domain[nm] for nm in names]):
        env = dict(zip(names, vals))
        env.setdefault("self._requestProducer", None)
        up, ur = [], []
        vp = walk(gp, I, make_env(env), undecided=up)
        vr = walk(gr, I, make_env(env), undecided=ur)
        paused, resumed = _hit(vp, pp), _hit(vr, rr)
        label = ", ".join(f"{k.split('.')[-1]}={'non-empty' if isinstance(v, list) and v else ('empty' if isinstance(v, list) else v)}" for k, v in env.items() if k in names)
        s.vcheck(paused == resumed, up + ur, "valuation/pause-resume-sibling-agreement", f"{QC}pauseProducing / resumeProducing | {label}",
                 f"with {label} pauseProducing {'pauses' if paused else 'does not pause'} the network producer but resumeProducing {'resumes' if resumed else 'does not resume'} it: "
                 "a pause/resume cycle of the transport leaves the connection paused for good (or resumes reading behind a response in progress)")


def c19_fold_clause(s: SCtx, I) -> None:
    """A continuation line (leading SP / HTAB) can only extend a pending header: with nothing pending it must not turn into a header of
    its own.  Decided by partial evaluation of the (inlined) lineReceived for the valuations of its guards on such a line: the pending
    header text that results is empty / unchanged, or its name part is not a token (so the flush rejects it with 400).  The branch uses the
    line only through line[0], lstrip and concatenation, so the separator it keeps does not depend on the rest of the line."""
    from sa.source import class_assigns
    QC = Q + "HTTPChannel."
    cls = s.cls(HTTP, "HTTPChannel")
    f = s.func(HTTP, "HTTPChannel.lineReceived")
    g = s.cfg(f)
    lp = f.args.args[1].arg
    init = class_assigns(cls).get("__header")
    if init is None:
        ini = s.raw_func(HTTP, "HTTPChannel.__init__")
        vals = [st.value for st in ast.walk(ini) if isinstance(st, (ast.Assign, ast.AnnAssign)) and any(self_attr(t, "__header") for t in assigned_targets(st)) and st.value is not None]
        init = vals[0] if vals else None
    s.need(init is not None, "initial value of the pending header")
    try:
        empty = I.ev(init, {})
    except Exception:
        raise Abstain("initial pending header not evaluable")
    if empty not in (b"", [], ()):
        raise Abstain("pending header starts non-empty")
    exits = [g.exit]       # the environment is observed when the walk arrives at the exit node, i.e. after the last statement took effect
    for line in (b" Content-Length: 3", b"\tTransfer-Encoding: chunked", b"  \t X-Lone: 1", b" Content-Length:3"):
        finals = []

        def on(node, e):
            if node.id in exits:
                finals.append(e.get("self.__header", Unknown))
        und = []
        pend = type(empty)(empty) if isinstance(empty, list) else empty
        walk(g, I, make_env({lp: line, "self.__first_line": 0, "self.__header": pend, "self._receivedHeaderSize": 0, "self.totalHeadersSize": 1 << 20}), on_node=on, undecided=und)
        if und or not finals or any(v is Unknown for v in finals):
            raise Abstain("pending header after a lone continuation line not determined by partial evaluation")
        for v in finals:
            text = b" ".join(v) if isinstance(v, (list, tuple)) else v
            if not isinstance(text, (bytes, bytearray)):
                raise Abstain("pending header of an unrecognised type")
            name = bytes(text).split(b":", 1)[0]
            try:
                tok = bool(I.run(I.funcs["_istoken"], [name])) if name else False
            except Exception:
                raise Abstain("_istoken not evaluable")
            s.check(text in (b"",) or not tok, "fold/lone-continuation-cannot-become-a-header", f"{QC}lineReceived | line {line!r} with no header pending",
                    f"with no header pending the whitespace-preceded line {line!r} leaves the pending header {bytes(text)!r}, whose name {name!r} is a valid token: it is processed as a header of "
                    "its own (a folded Content-Length / Transfer-Encoding directly after the request line frames the request: smuggling)",
                    detail="pending header empty / not a token name for leading SP, HTAB and mixed whitespace")
