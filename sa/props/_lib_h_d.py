# Vendored snapshot of sa/props/_lib_d.py (builder D; committed version 195316e): the Inliner, MiniVM and VM* classes that the C35-C39
# checks of builder H use.  Copied so that these checks do not change behaviour when the other author edits the original; do not edit
# here except to re-vendor.
"""Helpers shared by the C14/C15/C16/C17/C47 checkers (batch "d").  Stdlib + sa engine only.

* ``peval`` / ``test_value``: three-valued evaluation of a pure test expression under *facts*
  (a mapping "normalised source text of a sub-expression" -> value), e.g.
  ``{"self.producer": NONNULL, "self.streamingProducer": False}``.
* ``reach_under`` / ``path_under`` / ``must_pass_under``: reachability in a CFG restricted to the
  branch outcomes that are consistent with a set of facts (facts are updated by constant
  assignments and dropped by any other write to the named attribute).
* ``implied``: some dominating atomic guard separates a *good* from a *bad* family of facts
  (semantic K1, independent of how the test is spelled).
* small AST predicates.
"""
from __future__ import annotations

import ast
import math
import re
import struct
from collections import deque
from typing import Callable, Dict, Iterable, List, Optional, Sequence, Set, Tuple

from sa.astx import NotConst, assigned_targets, call_name, dotted, src, walk_local

__all__ = [
    "NONNULL", "FALSY", "FALSY_NONNULL", "peval", "test_value", "reach_under", "path_under", "must_pass_under", "implied",
    "is_self_attr", "self_assigns", "call_nodes", "calls_with", "const_value_is", "written_names", "succ_of",
    "facts_at", "undecided_tests", "handler_names", "covers", "no_exc", "first_arg", "name_of", "slice_parts", "value_returned", "local_def", "test_value",
]


class _Abstract:
    def __init__(self, label, truth, none):
        self.label, self.truth, self.none = label, truth, none

    def __repr__(self):
        return self.label

    def __bool__(self):
        return self.truth


NONNULL = _Abstract("<non-None, truthy>", True, False)
FALSY_NONNULL = _Abstract("<non-None object that is falsy (empty container, __len__ == 0, __bool__ False)>", False, False)
FALSY = _Abstract("<falsy>", False, None)

_FUNCS = {
    "len": len, "str": str, "int": int, "bool": bool, "abs": abs, "min": min, "max": max, "ord": ord, "chr": chr,
    "bytes": bytes, "tuple": tuple, "list": list, "sorted": sorted, "range": range, "sum": sum,
    "math.ceil": math.ceil, "math.floor": math.floor, "math.log10": math.log10, "math.log": math.log,
    "ceil": math.ceil, "floor": math.floor, "log10": math.log10,
    "calcsize": struct.calcsize, "struct.calcsize": struct.calcsize,
    "unpack": struct.unpack, "struct.unpack": struct.unpack, "pack": struct.pack, "struct.pack": struct.pack,
}


_COMPLEMENT = {ast.In: ast.NotIn, ast.NotIn: ast.In, ast.Eq: ast.NotEq, ast.NotEq: ast.Eq, ast.Is: ast.IsNot, ast.IsNot: ast.Is,
               ast.Lt: ast.GtE, ast.GtE: ast.Lt, ast.Gt: ast.LtE, ast.LtE: ast.Gt}


def _truth(v) -> bool:
    if isinstance(v, _Abstract):
        return v.truth
    return bool(v)


def peval(node: ast.AST, env: Optional[Dict[str, object]] = None):
    """Evaluate a pure expression; sub-expressions whose normalised text is a key of ``env`` take the
    given value.  Raises NotConst when the value is not determined.  Never runs repository code."""
    env = env or {}
    if env:
        key = src(node)
        if key in env:
            return env[key]
    if isinstance(node, ast.Constant):
        return node.value
    if env and isinstance(node, ast.Compare) and len(node.ops) == 1 and type(node.ops[0]) in _COMPLEMENT:
        # a fact stated for `a in b` also decides `a not in b` (and == / !=, is / is not, < / >=, ...)
        other = src(ast.Compare(left=node.left, ops=[_COMPLEMENT[type(node.ops[0])]()], comparators=node.comparators))
        if other in env and isinstance(env[other], bool):
            return not env[other]
    if isinstance(node, ast.Name):
        if node.id in ("True", "False", "None"):
            return {"True": True, "False": False, "None": None}[node.id]
        raise NotConst(node.id)
    if isinstance(node, (ast.Tuple, ast.List)):
        vals = [peval(e, env) for e in node.elts]
        return tuple(vals) if isinstance(node, ast.Tuple) else vals
    if isinstance(node, ast.UnaryOp):
        v = peval(node.operand, env)
        if isinstance(node.op, ast.Not):
            return not _truth(v)
        if isinstance(v, _Abstract):
            raise NotConst("abstract")
        if isinstance(node.op, ast.USub):
            return -v
        if isinstance(node.op, ast.UAdd):
            return +v
        if isinstance(node.op, ast.Invert):
            return ~v
    if isinstance(node, ast.BoolOp):
        is_and = isinstance(node.op, ast.And)
        unknown = False
        last = None
        for e in node.values:
            try:
                v = peval(e, env)
            except NotConst:
                unknown = True
                continue
            if _truth(v) != is_and:
                # and: a falsy operand decides; or: a truthy operand decides.  (An earlier undetermined
                # operand could only change the *value*, not the truth value, of the whole.)
                return v
            last = v
        if unknown:
            raise NotConst("boolop")
        return last
    if isinstance(node, ast.IfExp):
        return peval(node.body, env) if _truth(peval(node.test, env)) else peval(node.orelse, env)
    if isinstance(node, ast.Compare):
        left = peval(node.left, env)
        for op, rn in zip(node.ops, node.comparators):
            right = peval(rn, env)
            if isinstance(left, _Abstract) or isinstance(right, _Abstract):
                a, other = (left, right) if isinstance(left, _Abstract) else (right, left)
                if isinstance(op, (ast.Is, ast.IsNot)) and other is None and a.none is not None:
                    r = a.none if isinstance(op, ast.Is) else not a.none
                elif isinstance(op, (ast.Eq, ast.NotEq)) and other is None and a.none is not None:
                    r = a.none if isinstance(op, ast.Eq) else not a.none
                else:
                    raise NotConst("abstract compare")
            else:
                try:
                    r = {ast.Eq: lambda: left == right, ast.NotEq: lambda: left != right, ast.Lt: lambda: left < right,
                         ast.LtE: lambda: left <= right, ast.Gt: lambda: left > right, ast.GtE: lambda: left >= right,
                         ast.Is: lambda: left is right, ast.IsNot: lambda: left is not right,
                         ast.In: lambda: left in right, ast.NotIn: lambda: left not in right}[type(op)]()
                except Exception as e:  # noqa: BLE001 - evaluation of a constant expression failed
                    raise NotConst(str(e))
            if not r:
                return False
            left = right
        return True
    if isinstance(node, ast.BinOp):
        a, b = peval(node.left, env), peval(node.right, env)
        if isinstance(a, _Abstract) or isinstance(b, _Abstract):
            raise NotConst("abstract arithmetic")
        try:
            if isinstance(node.op, ast.Pow):
                if not (isinstance(b, int) and abs(b) < 4096):
                    raise NotConst("pow")
                return a ** b
            return {ast.Add: lambda: a + b, ast.Sub: lambda: a - b, ast.Mult: lambda: a * b, ast.Mod: lambda: a % b,
                    ast.FloorDiv: lambda: a // b, ast.Div: lambda: a / b, ast.LShift: lambda: a << b,
                    ast.RShift: lambda: a >> b, ast.BitOr: lambda: a | b, ast.BitAnd: lambda: a & b,
                    ast.BitXor: lambda: a ^ b}[type(node.op)]()
        except NotConst:
            raise
        except Exception as e:  # noqa: BLE001
            raise NotConst(str(e))
    if isinstance(node, ast.Call) and not node.keywords:
        fn = dotted(node.func)
        if fn in _FUNCS:
            args = [peval(a, env) for a in node.args]
            if any(isinstance(a, _Abstract) for a in args):
                raise NotConst("abstract arg")
            try:
                return _FUNCS[fn](*args)
            except Exception as e:  # noqa: BLE001
                raise NotConst(str(e))
        if isinstance(node.func, ast.Attribute) and node.func.attr in ("encode", "decode", "startswith", "endswith", "join", "lower", "upper", "split", "rstrip", "strip", "find", "count"):
            recv = peval(node.func.value, env)
            args = [peval(a, env) for a in node.args]
            if isinstance(recv, (str, bytes)):
                try:
                    return getattr(recv, node.func.attr)(*args)
                except Exception as e:  # noqa: BLE001
                    raise NotConst(str(e))
        raise NotConst("call")
    if isinstance(node, ast.Subscript):
        v = peval(node.value, env)
        if isinstance(v, _Abstract):
            raise NotConst("abstract subscript")
        try:
            if isinstance(node.slice, ast.Slice):
                lo = peval(node.slice.lower, env) if node.slice.lower else None
                hi = peval(node.slice.upper, env) if node.slice.upper else None
                st = peval(node.slice.step, env) if node.slice.step else None
                return v[lo:hi:st]
            return v[peval(node.slice, env)]
        except NotConst:
            raise
        except Exception as e:  # noqa: BLE001
            raise NotConst(str(e))
    raise NotConst(type(node).__name__)


def test_value(expr: ast.AST, facts: Optional[Dict[str, object]]) -> Optional[bool]:
    """True / False / None (undetermined) for a branch test under ``facts``."""
    try:
        return _truth(peval(expr, facts or {}))
    except NotConst:
        return None


# ---- facts along paths -----------------------------------------------------------------------

def written_names(st: ast.AST) -> Set[str]:
    """Dotted names (``self.x`` / ``x``) re-bound, augmented or deleted by a simple statement."""
    out: Set[str] = set()
    if isinstance(st, (ast.Assign, ast.AugAssign, ast.AnnAssign, ast.Delete, ast.For, ast.AsyncFor, ast.With, ast.AsyncWith)):
        for t in assigned_targets(st):
            d = dotted(t)
            if d:
                out.add(d)
            elif isinstance(t, ast.Subscript):
                d = dotted(t.value)
                if d:
                    out.add(d)
    return out


def _mentions(key: str, name: str) -> bool:
    return re.search(r"(?<![\w.])" + re.escape(name) + r"(?![\w])", key) is not None


_MUTATORS = {"append", "extend", "insert", "pop", "popleft", "appendleft", "remove", "clear", "add", "discard", "update",
             "write", "truncate", "seek", "sort", "reverse"}


def _step(node, facts: Tuple[Tuple[str, object], ...]) -> Tuple[Tuple[str, object], ...]:
    if node.ast is None:
        return facts
    st = node.ast
    if node.kind == "for":
        names = written_names(st)
    elif node.kind == "stmt":
        names = written_names(st)
        # in-place mutation through a method call on the named object kills facts about it
        for c in walk_local(st):
            if isinstance(c, ast.Call) and isinstance(c.func, ast.Attribute) and c.func.attr in _MUTATORS:
                d = dotted(c.func.value)
                if d:
                    names.add(d)
    else:
        return facts
    if not names:
        return facts
    d = dict(facts)
    new: Dict[str, object] = {}
    def _keep(name, v):
        if isinstance(v, (int, str, bytes, bool, type(None), _Abstract, float)):
            new[name] = v
        elif isinstance(v, (list, tuple)):
            if not v:
                new[name] = FALSY
            elif all(isinstance(e, (int, str, bytes, bool, type(None), float)) for e in v):
                new[name] = tuple(v)

    if node.kind == "stmt" and isinstance(st, ast.Assign) and all(dotted(t) for t in st.targets):
        try:
            v = peval(st.value, d)
            for t in st.targets:
                _keep(dotted(t), v)
        except NotConst:
            # X = SomeClass(...): a freshly constructed object is neither None nor falsy
            if isinstance(st.value, ast.Call) and (dotted(st.value.func) or "").split(".")[-1][:1].isupper():
                for t in st.targets:
                    new[dotted(t)] = NONNULL
    elif node.kind == "stmt" and isinstance(st, ast.AugAssign) and dotted(st.target) and dotted(st.target) in d:
        try:
            _keep(dotted(st.target), peval(ast.BinOp(left=st.target, op=st.op, right=st.value), d))
        except NotConst:
            pass
    for k in list(d):
        if any(_mentions(k, n) for n in names):
            del d[k]
    d.update(new)
    return tuple(sorted(d.items(), key=lambda kv: kv[0]))


def _explore(g, facts, srcs, avoid, exc, stop_at=None):
    """BFS over (node, facts).  Returns (prev map, visited states)."""
    f0 = tuple(sorted((facts or {}).items(), key=lambda kv: kv[0]))
    avoid = set(avoid)
    prev = {}
    dq = deque()
    for s in srcs:
        st = (s, f0)
        if st not in prev:
            prev[st] = None
            dq.append(st)
    while dq:
        state = dq.popleft()
        n, f = state
        if stop_at is not None and n in stop_at and prev[state] is not None:
            continue
        node = g.nodes[n]
        want = None
        if node.kind == "test":
            v = test_value(node.ast, dict(f))
            if v is not None:
                want = "T" if v else "F"
        f2 = _step(node, f)
        for b, lab in g.succ[n]:
            if lab == "exc" and not exc:
                continue
            if want is not None and lab in ("T", "F") and lab != want:
                continue
            if b in avoid:
                continue
            ns = (b, f2)
            if ns in prev:
                continue
            prev[ns] = state
            dq.append(ns)
    return prev


def reach_under(g, facts: Optional[Dict[str, object]], srcs: Optional[Iterable[int]] = None, avoid: Iterable[int] = (),
                exc: bool = False) -> Set[int]:
    """Nodes reachable from ``srcs`` (default: entry) along branch outcomes consistent with ``facts``
    (facts hold on arrival at the sources)."""
    prev = _explore(g, facts, list(srcs) if srcs is not None else [g.entry], avoid, exc)
    return {n for n, _ in prev}


def path_under(g, facts, dsts: Iterable[int], srcs: Optional[Iterable[int]] = None, avoid: Iterable[int] = (),
               exc: bool = False) -> Optional[List[int]]:
    dsts = set(dsts)
    srcs = list(srcs) if srcs is not None else [g.entry]
    prev = _explore(g, facts, srcs, avoid, exc)
    best = None
    for state in prev:
        if state[0] in dsts and (prev[state] is not None or state[0] in srcs):
            path = []
            s = state
            while s is not None:
                path.append(s[0])
                s = prev[s]
            path.reverse()
            if best is None or len(path) < len(best):
                best = path
    return best


def facts_at(g, facts, nodes: Iterable[int], srcs: Optional[Iterable[int]] = None, exc: bool = False) -> List[Dict[str, object]]:
    """The fact sets with which the given nodes can be reached (one dict per distinct arrival state)."""
    nodes = set(nodes)
    prev = _explore(g, facts, list(srcs) if srcs is not None else [g.entry], (), exc)
    return [dict(f) for n, f in prev if n in nodes]


def undecided_tests(g, facts, srcs: Optional[Iterable[int]] = None, avoid: Iterable[int] = ()) -> List[int]:
    """Test nodes reached (from ``srcs`` under ``facts``) whose outcome the facts do not determine.  Empty = the fact set is a
    complete description of everything the explored region branches on (the basis of a finite-exhaustive claim)."""
    prev = _explore(g, facts, list(srcs) if srcs is not None else [g.entry], avoid, False)
    out = []
    for n, f in prev:
        node = g.nodes[n]
        if node.kind == "test" and test_value(node.ast, dict(f)) is None and n not in out:
            out.append(n)
    return out


def must_pass_under(g, facts, via: Iterable[int], srcs: Optional[Iterable[int]] = None, to: Optional[Iterable[int]] = None,
                    exc: bool = False) -> Optional[List[int]]:
    """Under ``facts`` every path from ``srcs`` to ``to`` (default: normal exit) passes a ``via`` node.
    None when it holds, else a witness path avoiding ``via``."""
    to = set(to) if to is not None else ({g.exit} | ({g.raise_exit} if exc else set()))
    via = set(via)
    if srcs is not None:
        srcs = [s for s in srcs if s not in via]     # a source that is itself a via node has already passed
        if not srcs:
            return None
    return path_under(g, facts, to, srcs=srcs, avoid=via, exc=exc)


def _resolved_test(g, t: int):
    """(expression, node where it is evaluated) of test node ``t``; a bare local name assigned exactly once,
    on every path to the test, stands for the assigned expression (``done = a and b`` ... ``if done:``)."""
    e = g.nodes[t].ast
    if isinstance(e, ast.Name):
        defs = [n for n in g.nodes if n.kind == "stmt" and g.reachable(n.id) and isinstance(n.ast, ast.Assign) and len(n.ast.targets) == 1
                and isinstance(n.ast.targets[0], ast.Name) and n.ast.targets[0].id == e.id]
        others = [n for n in g.nodes if n.ast is not None and n.kind in ("stmt", "for", "with") and n not in defs and e.id in written_names(n.ast)]
        if len(defs) == 1 and not others and g.dominates(defs[0].id, t):
            return defs[0].ast.value, defs[0].id
    return e, t


def implied(g, n: int, good: Sequence[Dict[str, object]], bad: Sequence[Dict[str, object]], after: Iterable[int] = ()) -> bool:
    """Node ``n`` is dominated by a test edge that every ``good`` fact-set takes and every ``bad`` fact-set
    does not take (the test is decided, with the opposite outcome, under bad).  With ``after``, the test must
    be evaluated at a point dominated by one of those nodes (i.e. on the state they produce)."""
    after = list(after)
    for t, lab in g.edge_guards(n):
        pol = lab == "T"
        cands = [(g.nodes[t].ast, t)]
        r = _resolved_test(g, t)
        if r[1] != t:
            cands.append(r)
        for e, at in cands:
            # the test fails (is decided, with the other outcome) under every bad fact-set; under the good ones it succeeds or - for a
            # compound test that also reads other state - is not decided by the given facts alone
            if all(test_value(e, f) in (pol, None) for f in good) and all(test_value(e, f) is (not pol) for f in bad):
                if not after or any(g.dominates(a, at) for a in after):
                    return True
    return False


# ---- AST predicates ------------------------------------------------------------------------------

def is_self_attr(node, name: Optional[str] = None, recv: str = "self") -> bool:
    return (isinstance(node, ast.Attribute) and isinstance(node.value, ast.Name) and node.value.id == recv
            and (name is None or node.attr == name))


def const_value_is(node, pred: Callable[[object], bool]) -> bool:
    try:
        return bool(pred(peval(node, {})))
    except NotConst:
        return False


def self_assigns(g, attr: str, value_pred: Optional[Callable[[ast.AST], bool]] = None, recv: str = "self") -> List[int]:
    """CFG statement nodes assigning ``recv.attr`` (plain or tuple assignment, AugAssign excluded)."""
    out = []
    for n in g.nodes:
        if n.kind != "stmt" or not g.reachable(n.id) or not isinstance(n.ast, (ast.Assign, ast.AnnAssign)):
            continue
        st = n.ast
        if isinstance(st, ast.AnnAssign):
            if st.value is not None and is_self_attr(st.target, attr, recv) and (value_pred is None or value_pred(st.value)):
                out.append(n.id)
            continue
        for tgt in st.targets:
            if is_self_attr(tgt, attr, recv):
                if value_pred is None or value_pred(st.value):
                    out.append(n.id)
                    break
            elif isinstance(tgt, (ast.Tuple, ast.List)) and isinstance(st.value, (ast.Tuple, ast.List)) and len(tgt.elts) == len(st.value.elts):
                hit = False
                for t, v in zip(tgt.elts, st.value.elts):
                    if is_self_attr(t, attr, recv) and (value_pred is None or value_pred(v)):
                        hit = True
                if hit:
                    out.append(n.id)
                    break
            elif isinstance(tgt, (ast.Tuple, ast.List)) and any(is_self_attr(t, attr, recv) for t in tgt.elts):
                if value_pred is None:
                    out.append(n.id)
                    break
    return out


def call_nodes(g, *names: str) -> List[int]:
    """CFG nodes containing a call whose dotted callee is one of ``names`` (".x" = any receiver)."""
    def pred(x):
        if not isinstance(x, ast.Call):
            return False
        d = call_name(x)
        for nm in names:
            if nm.startswith("."):
                if isinstance(x.func, ast.Attribute) and x.func.attr == nm[1:]:
                    return True
            elif d == nm:
                return True
        return False
    return g.find(pred)


def calls_with(g, *names: str) -> List[Tuple[int, ast.Call]]:
    out = []
    for n in call_nodes(g, *names):
        node = g.nodes[n]
        roots = [node.ast] if node.kind not in ("for", "with") else (
            [node.ast.iter] if node.kind == "for" else [it.context_expr for it in node.ast.items])
        for r in roots:
            for x in walk_local(r):
                if isinstance(x, ast.Call):
                    d = call_name(x)
                    for nm in names:
                        if (nm.startswith(".") and isinstance(x.func, ast.Attribute) and x.func.attr == nm[1:]) or d == nm:
                            out.append((n, x))
                            break
    return out


def value_returned(g, n: int, call: ast.Call) -> bool:
    """The value of ``call`` (evaluated in CFG node n) is what the function returns on every normal path from n:
    ``return call(...)`` or ``v = call(...)`` followed on every path by ``return v``."""
    st = g.nodes[n].ast
    if isinstance(st, ast.Return) and st.value is call:
        return True
    if isinstance(st, ast.Assign) and len(st.targets) == 1 and isinstance(st.targets[0], ast.Name) and st.value is call:
        v = st.targets[0].id
        rets = [x.id for x in g.nodes if x.kind == "stmt" and isinstance(x.ast, ast.Return) and x.ast.value is not None and src(x.ast.value) == v]
        return bool(rets) and g.must_pass([n], rets) is None
    return False


def local_def(func: ast.AST, node: ast.AST) -> ast.AST:
    """A Name bound exactly once in ``func`` by a plain assignment stands for the assigned expression."""
    if isinstance(node, ast.Name):
        defs = [st.value for st in walk_local(func) if isinstance(st, ast.Assign) and len(st.targets) == 1
                and isinstance(st.targets[0], ast.Name) and st.targets[0].id == node.id]
        if len(defs) == 1:
            return defs[0]
    return node


def succ_of(g, n: int, label) -> List[int]:
    return [d for d, l in g.succ[n] if l == label]


def no_exc(a, b, l):
    return l != "exc"


def handler_names(h: ast.ExceptHandler) -> List[str]:
    if h.type is None:
        return ["BaseException"]
    es = h.type.elts if isinstance(h.type, ast.Tuple) else [h.type]
    return [(dotted(e) or src(e)).split(".")[-1] for e in es]


_EXC_RANK = {"BaseException": 2, "Exception": 1}


def covers(h: ast.ExceptHandler, minimum: str) -> bool:
    """The handler catches at least ``minimum`` ("Exception" or "BaseException")."""
    need = _EXC_RANK[minimum]
    return any(_EXC_RANK.get(n, 0) >= need for n in handler_names(h))


def first_arg(call: ast.Call) -> Optional[ast.AST]:
    return call.args[0] if call.args else None


def name_of(node) -> Optional[str]:
    return node.id if isinstance(node, ast.Name) else None


def slice_parts(node) -> Optional[Tuple[ast.AST, Optional[ast.AST], Optional[ast.AST]]]:
    """``v[a:b]`` -> (v, a, b); None for anything else (a step makes it None too)."""
    if isinstance(node, ast.Subscript) and isinstance(node.slice, ast.Slice) and node.slice.step is None:
        return node.value, node.slice.lower, node.slice.upper
    return None


# =====================================================================================================================
# MiniVM: a concrete interpreter for a small, explicit subset of Python, applied to the *source* of a repository class
# (AST from sa.source.Module).  It exists to evaluate a method as a step function over a sequence of calls, threading
# the object's attributes (whatever they are called) from one call to the next.  Nothing of the repository is imported
# or executed by CPython: class bodies, methods and module-level functions are walked node by node; only whitelisted
# pure stdlib objects (bytes/str/int/list/dict/tuple, re, struct, math, binascii, io.BytesIO) are operated natively.
# Anything outside the subset raises VMError (the caller turns it into an AnalysisError - never a verdict).
# =====================================================================================================================
import binascii as _binascii
import io as _io


class VMError(Exception):
    """construct outside the interpreter's subset / step budget exhausted"""


class VMRaise(Exception):
    """an exception raised by interpreted code: ``exc`` is a VMExc (class defined in the analysed module)"""

    def __init__(self, exc):
        Exception.__init__(self, repr(exc))
        self.exc = exc


class _Ret(Exception):
    def __init__(self, v):
        self.v = v


class _Brk(Exception):
    pass


class _Cont(Exception):
    pass


class Opaque:
    """stands for anything imported from outside the analysed module (twisted.*, zope.*): attribute access and calls yield
    Opaque/None and have no effect"""

    def __init__(self, name):
        self._name = name

    def __repr__(self):
        return f"<opaque {self._name}>"


class VMClass:
    def __init__(self, vmmod, node: ast.ClassDef):
        self.mod, self.node, self.name = vmmod, node, node.name
        self._cache: Dict[str, object] = {}

    def bases(self):
        out = []
        for b in self.node.bases:
            v = None
            if isinstance(b, ast.Name):
                v = self.mod.globals_lookup(b.id, missing=None)
            out.append(v if isinstance(v, VMClass) else None)
        return [b for b in out if b is not None]

    def mro(self):
        seen, out = set(), []

        def rec(c):
            if c.name in seen:
                return
            seen.add(c.name)
            out.append(c)
            for b in c.bases():
                rec(b)
        rec(self)
        return out

    def own(self, name):
        """('func', FunctionDef) / ('expr', ast.expr) / None for a name defined directly in this class body"""
        found = None
        stack = list(self.node.body)
        while stack:
            n = stack.pop(0)
            if isinstance(n, (ast.FunctionDef, ast.AsyncFunctionDef)) and n.name == name:
                found = ("func", n)
            elif isinstance(n, ast.Assign):
                for t in n.targets:
                    if isinstance(t, ast.Name) and t.id == name:
                        found = ("expr", n.value)
                    elif isinstance(t, (ast.Tuple, ast.List)):
                        for i, e in enumerate(t.elts):
                            if isinstance(e, ast.Name) and e.id == name:
                                found = ("item", (n.value, i))
            elif isinstance(n, ast.AnnAssign) and isinstance(n.target, ast.Name) and n.target.id == name and n.value is not None:
                found = ("expr", n.value)
            elif isinstance(n, (ast.If, ast.Try)):
                stack = list(n.body) + list(getattr(n, "orelse", [])) + stack
        return found

    def find(self, name):
        for c in self.mro():
            o = c.own(name)
            if o is not None:
                return c, o
        return None

    def __repr__(self):
        return f"<class {self.name}>"


class VMFunc:
    def __init__(self, vmmod, node, owner: Optional[VMClass] = None):
        self.mod, self.node, self.owner = vmmod, node, owner

    def __repr__(self):
        return f"<function {getattr(self.node, 'name', '<lambda>')}>"


class VMBound:
    def __init__(self, obj, func: VMFunc):
        self.obj, self.func = obj, func


class VMObj:
    def __init__(self, cls: VMClass):
        self.cls = cls
        self.attrs: Dict[str, object] = {}

    def __repr__(self):
        return f"<{self.cls.name} instance>"


class VMExc(VMObj):
    def __init__(self, cls, args):
        VMObj.__init__(self, cls)
        self.args = tuple(args)

    def names(self):
        out = []
        for c in self.cls.mro():
            out.append(c.name)
            for b in c.node.bases:
                d = dotted(b)
                if d:
                    out.append(d.split(".")[-1])
        return out


_NATIVE_TYPES = (bytes, bytearray, str, int, float, bool, list, tuple, dict, set, frozenset, type(None), range,
                 re.Pattern, re.Match, _io.BytesIO, memoryview)
_BUILTINS = {
    "len": len, "int": int, "str": str, "bytes": bytes, "bytearray": bytearray, "bool": bool, "list": list, "tuple": tuple,
    "dict": dict, "set": set, "range": range, "min": min, "max": max, "abs": abs, "ord": ord, "chr": chr, "sum": sum,
    "sorted": sorted, "reversed": reversed, "enumerate": enumerate, "zip": zip, "repr": repr, "divmod": divmod, "any": any,
    "all": all, "memoryview": memoryview, "float": float, "iter": iter, "next": next, "getattr": getattr, "hasattr": hasattr,
    "isinstance": isinstance,
    "True": True, "False": False, "None": None,
}
_BUILTIN_EXC = {n: getattr(__import__("builtins"), n) for n in (
    "BaseException", "Exception", "ValueError", "TypeError", "KeyError", "IndexError", "AttributeError", "NotImplementedError",
    "AssertionError", "OverflowError", "ZeroDivisionError", "RuntimeError", "StopIteration", "ArithmeticError", "LookupError",
    "UnicodeDecodeError", "UnicodeEncodeError", "UnicodeError", "OSError")}
_STDLIB = {"math": math, "re": re, "struct": struct, "binascii": _binascii}
_STDLIB_FROM = {("io", "BytesIO"): _io.BytesIO, ("struct", "calcsize"): struct.calcsize, ("struct", "pack"): struct.pack,
                ("struct", "unpack"): struct.unpack, ("struct", "error"): struct.error, ("math", "ceil"): math.ceil,
                ("math", "log10"): math.log10, ("re", "compile"): re.compile}


class _Link:
    """lazy reference to a global of another interpreted module"""

    def __init__(self, rel, name):
        self.rel, self.name = rel, name


class VMModule:
    def __init__(self, module, vm):
        self.module, self.vm = module, vm
        self._g: Dict[str, object] = {}
        self._lazy: Dict[str, ast.expr] = {}
        stack = list(module.tree.body)
        while stack:
            n = stack.pop(0)
            if isinstance(n, (ast.FunctionDef, ast.AsyncFunctionDef)):
                self._g[n.name] = VMFunc(self, n)
            elif isinstance(n, ast.ClassDef):
                self._g[n.name] = VMClass(self, n)
            elif isinstance(n, ast.Assign):
                for t in n.targets:
                    if isinstance(t, ast.Name):
                        self._lazy[t.id] = n.value
            elif isinstance(n, ast.AnnAssign) and isinstance(n.target, ast.Name) and n.value is not None:
                self._lazy[n.target.id] = n.value
            elif isinstance(n, ast.Import):
                for a in n.names:
                    top = a.name.split(".")[0]
                    self._g[a.asname or top] = _STDLIB.get(a.name if a.asname else top, Opaque(a.name))
            elif isinstance(n, ast.ImportFrom):
                key = "." * (n.level or 0) + (n.module or "")
                for a in n.names:
                    if key in vm.siblings:                                     # from ._v1parser import V1Parser
                        self._g[a.asname or a.name] = _Link(key, a.name)
                    elif key + a.name in vm.siblings and set(key) <= {"."}:   # from . import _info
                        self._g[a.asname or a.name] = _Link(key + a.name, None)
                    else:
                        self._g[a.asname or a.name] = _STDLIB_FROM.get((n.module or "", a.name), _STDLIB.get(a.name) if key == "" else Opaque(f"{key}.{a.name}"))
            elif isinstance(n, (ast.If, ast.Try)):
                stack = list(n.body) + list(getattr(n, "orelse", [])) + stack

    def globals_lookup(self, name, missing=VMError):
        if name in self.vm.overrides:
            return self.vm.overrides[name]
        if name in self._g:
            v = self._g[name]
            if isinstance(v, _Link):
                other = self.vm.sibling(v.rel)
                v = other if v.name is None else other.globals_lookup(v.name)
                self._g[name] = v
            return v
        if name in self._lazy:
            expr = self._lazy.pop(name)
            self._g[name] = self.vm.eval(expr, {}, self, None)
            return self._g[name]
        if name in _BUILTINS:
            return _BUILTINS[name]
        if name in _BUILTIN_EXC:
            return _BUILTIN_EXC[name]
        if missing is VMError:
            raise VMError(f"unknown name {name}")
        return missing


class MiniVM:
    def __init__(self, module, hooks=None, budget: int = 400000, siblings=None, overrides=None):
        """``hooks``: {method name: callable(vm, obj, *args)} consulted before the class's own method.
        ``siblings``: {import key as written in the source (".mod", "pkg.mod"): sa.source.Module} - other repository modules that
        are interpreted as well when imported from (everything else imported is Opaque).
        ``overrides``: {global name: Python stand-in} replacing that global in every interpreted module (harness stubs for things
        defined outside the analysed modules, e.g. an address class recorder or a VMContext factory)."""
        self.budget = budget
        self.hooks = dict(hooks or {})
        self.siblings = dict(siblings or {})
        self.overrides = dict(overrides or {})
        self._sib: Dict[str, VMModule] = {}
        self.mod = VMModule(module, self)

    def sibling(self, key) -> "VMModule":
        if key not in self._sib:
            self._sib[key] = VMModule(self.siblings[key], self)
        return self._sib[key]

    # ---- objects -------------------------------------------------------------------------------------------
    def cls(self, name) -> VMClass:
        c = self.mod.globals_lookup(name)
        if not isinstance(c, VMClass):
            raise VMError(f"{name} is not a class of the module")
        return c

    def new(self, cls: VMClass, *args):
        obj = VMExc(cls, args) if self._is_exc_class(cls) else VMObj(cls)
        f = cls.find("__init__")
        if f and f[1][0] == "func":
            self.call(VMBound(obj, VMFunc(f[0].mod, f[1][1], f[0])), list(args), {})
        return obj

    def _is_exc_class(self, cls):
        for c in cls.mro():
            for b in c.node.bases:
                d = (dotted(b) or "").split(".")[-1]
                if d in _BUILTIN_EXC:
                    return True
        return False

    def class_attr(self, cls: VMClass, name):
        f = cls.find(name)
        if f is None:
            raise AttributeError(name)
        owner, (kind, node) = f
        if kind == "func":
            return VMFunc(owner.mod, node, owner)
        key = name
        if key not in owner._cache:
            scope = _ClassScope(self, owner)
            if kind == "expr":
                owner._cache[key] = self.eval(node, scope, owner.mod, None)
            else:
                owner._cache[key] = list(self.eval(node[0], scope, owner.mod, None))[node[1]]
        return owner._cache[key]

    def getattr(self, v, name):
        if isinstance(v, VMObj):
            if name == "__dict__":
                return v.attrs
            if name == "__class__":
                return v.cls
            if name in v.attrs:
                return v.attrs[name]
            if name in self.hooks:
                h = self.hooks[name]
                return lambda *a, _h=h, _o=v: _h(self, _o, *a)
            if name == "args" and isinstance(v, VMExc):
                return v.args
            try:
                a = self.class_attr(v.cls, name)
            except AttributeError:
                raise VMRaise_native(AttributeError(f"{v.cls.name} object has no attribute {name}"))
            return self._bind(a, v, v.cls)
        if isinstance(v, VMClass):
            if name == "__name__":
                return v.name
            try:
                a = self.class_attr(v, name)
            except AttributeError:
                raise VMRaise_native(AttributeError(name))
            return self._bind(a, None, v)
        if isinstance(v, Opaque):
            return Opaque(f"{v._name}.{name}")
        if isinstance(v, VMModule):
            return v.globals_lookup(name)
        if isinstance(v, _NATIVE_TYPES) or v in _STDLIB.values() or isinstance(v, VMStub):
            if name.startswith("__") and name not in ("__class__", "__name__"):
                raise VMError(f"dunder access .{name}")
            return getattr(v, name)
        raise VMError(f"attribute .{name} of {type(v).__name__}")

    @staticmethod
    def _decorators(func):
        return {(dotted(d) or "").split(".")[-1] for d in getattr(func.node, "decorator_list", [])}

    def _bind(self, a, obj, cls):
        if not isinstance(a, VMFunc):
            return a
        decs = self._decorators(a)
        if "staticmethod" in decs:
            return a
        if "classmethod" in decs:
            return VMBound(cls, a)
        if "property" in decs and obj is not None:
            return self._run(a, [obj], {})
        return VMBound(obj, a) if obj is not None else a

    def setattr(self, v, name, val):
        if isinstance(v, VMObj):
            v.attrs[name] = val
        elif isinstance(v, VMStub):
            setattr(v, name, val)
        elif isinstance(v, Opaque):
            pass
        else:
            raise VMError(f"assignment to attribute of {type(v).__name__}")

    # ---- calls ---------------------------------------------------------------------------------------------------
    def call_method(self, obj, name, *args, skip_hook=False):
        if not skip_hook and name in self.hooks:
            return self.hooks[name](self, obj, *args)
        a = self.class_attr(obj.cls, name)
        return self.call(VMBound(obj, a), list(args), {})

    def call(self, fn, args, kwargs):
        if isinstance(fn, VMBound):
            return self._run(fn.func, [fn.obj] + list(args), kwargs)
        if isinstance(fn, VMFunc):
            return self._run(fn, list(args), kwargs)
        if isinstance(fn, VMClass):
            return self.new(fn, *args)
        if isinstance(fn, Opaque):
            return None
        if fn is isinstance:
            return self._isinstance(*args)
        if fn is getattr:
            try:
                return self.getattr(args[0], args[1])
            except _NativeRaise as e:
                if len(args) == 3 and isinstance(e.native, AttributeError):
                    return args[2]
                raise
            except AttributeError:
                if len(args) == 3:
                    return args[2]
                raise
        if fn is hasattr:
            try:
                self.getattr(args[0], args[1])
                return True
            except (_NativeRaise, AttributeError):
                return False
        if fn in _BUILTIN_EXC.values():
            return fn(*args)
        if callable(fn):
            mod = getattr(fn, "__module__", None)
            selfobj = getattr(fn, "__self__", None)
            ok = fn in _BUILTINS.values() or fn in _STDLIB_FROM.values() or mod in ("math", "re", "_struct", "struct", "binascii", "_sre") \
                or isinstance(selfobj, _NATIVE_TYPES) or isinstance(selfobj, VMStub) or selfobj in _STDLIB.values() \
                or getattr(fn, "__name__", "") == "<lambda>"
            if not ok:
                raise VMError(f"call of non-whitelisted callable {fn!r}")
            if any(isinstance(a, (VMObj, VMClass, Opaque)) for a in args) and not (isinstance(selfobj, (VMStub, list, dict)) or getattr(fn, "__name__", "") == "<lambda>"):
                raise VMError(f"interpreted object passed to native callable {fn!r}")
            return fn(*args, **kwargs)
        raise VMError(f"call of {type(fn).__name__}")

    def _isinstance(self, v, t):
        ts = t if isinstance(t, tuple) else (t,)
        for x in ts:
            if isinstance(x, VMClass):
                if isinstance(v, VMObj) and x.name in [c.name for c in v.cls.mro()]:
                    return True
            elif isinstance(x, type):
                if isinstance(v, x) and not isinstance(v, (VMObj, Opaque)):
                    return True
            elif isinstance(x, Opaque):
                continue
            else:
                raise VMError("isinstance with unsupported type")
        return False

    def _run(self, func: VMFunc, args, kwargs):
        node = func.node
        a = node.args
        if a.vararg or a.kwarg or a.kwonlyargs or a.posonlyargs:
            raise VMError(f"signature of {node.name} outside the subset")
        names = [x.arg for x in a.args]
        env: Dict[str, object] = {}
        if len(args) > len(names):
            raise VMRaise_native(TypeError(f"{node.name}() takes {len(names)} positional arguments"))
        for n_, v in zip(names, args):
            env[n_] = v
        for k, v in kwargs.items():
            if k not in names or k in env:
                raise VMRaise_native(TypeError(f"{node.name}() unexpected argument {k}"))
            env[k] = v
        defaults = a.defaults
        for n_, d in zip(names[len(names) - len(defaults):], defaults):
            if n_ not in env:
                env[n_] = self.eval(d, {}, func.mod, None)
        missing = [n_ for n_ in names if n_ not in env]
        if missing:
            raise VMRaise_native(TypeError(f"{node.name}() missing {missing}"))
        if isinstance(node, ast.Lambda):
            return self.eval(node.body, env, func.mod, func.owner)
        try:
            self.block(node.body, env, func.mod, func.owner)
        except _Ret as r:
            return r.v
        return None

    # ---- statements ---------------------------------------------------------------------------------------------------
    def block(self, stmts, env, mod, owner):
        for st in stmts:
            self.stmt(st, env, mod, owner)

    def _tick(self):
        self.budget -= 1
        if self.budget < 0:
            raise VMError("step budget exhausted (non-terminating loop?)")

    def assign(self, tgt, val, env, mod, owner):
        if isinstance(tgt, ast.Name):
            env[tgt.id] = val
        elif isinstance(tgt, ast.Attribute):
            self.setattr(self.eval(tgt.value, env, mod, owner), tgt.attr, val)
        elif isinstance(tgt, (ast.Tuple, ast.List)):
            try:
                vals = list(val)
            except TypeError as e:
                raise VMRaise_native(e)
            stars = [i for i, e in enumerate(tgt.elts) if isinstance(e, ast.Starred)]
            if stars:
                if len(stars) > 1:
                    raise VMError("two starred targets")
                i, after = stars[0], len(tgt.elts) - stars[0] - 1
                if len(vals) < len(tgt.elts) - 1:
                    raise VMRaise_native(ValueError(f"not enough values to unpack (expected at least {len(tgt.elts) - 1}, got {len(vals)})"))
                for t, v in zip(tgt.elts[:i], vals[:i]):
                    self.assign(t, v, env, mod, owner)
                self.assign(tgt.elts[i].value, vals[i:len(vals) - after], env, mod, owner)
                for t, v in zip(tgt.elts[i + 1:], vals[len(vals) - after:]):
                    self.assign(t, v, env, mod, owner)
                return
            if len(vals) != len(tgt.elts):
                raise VMRaise_native(ValueError(f"{'too many' if len(vals) > len(tgt.elts) else 'not enough'} values to unpack (expected {len(tgt.elts)})"))
            for t, v in zip(tgt.elts, vals):
                self.assign(t, v, env, mod, owner)
        elif isinstance(tgt, ast.Subscript):
            c = self.eval(tgt.value, env, mod, owner)
            if not isinstance(c, (list, dict, bytearray)):
                raise VMError("item assignment on unsupported container")
            c[self._index(tgt.slice, env, mod, owner)] = val
        else:
            raise VMError(f"assignment target {type(tgt).__name__}")

    def stmt(self, st, env, mod, owner):
        self._tick()
        if isinstance(st, ast.Expr):
            self.eval(st.value, env, mod, owner)
        elif isinstance(st, ast.Assign):
            v = self.eval(st.value, env, mod, owner)
            for t in st.targets:
                self.assign(t, v, env, mod, owner)
        elif isinstance(st, ast.AnnAssign):
            if st.value is not None:
                self.assign(st.target, self.eval(st.value, env, mod, owner), env, mod, owner)
        elif isinstance(st, ast.AugAssign):
            cur = self.eval(st.target, env, mod, owner)
            v = self._binop(st.op, cur, self.eval(st.value, env, mod, owner))
            self.assign(st.target, v, env, mod, owner)
        elif isinstance(st, ast.If):
            self.block(st.body if self.truth(self.eval(st.test, env, mod, owner)) else st.orelse, env, mod, owner)
        elif isinstance(st, ast.While):
            broke = False
            while self.truth(self.eval(st.test, env, mod, owner)):
                self._tick()
                try:
                    self.block(st.body, env, mod, owner)
                except _Brk:
                    broke = True
                    break
                except _Cont:
                    continue
            if not broke:
                self.block(st.orelse, env, mod, owner)
        elif isinstance(st, ast.For):
            it = self.eval(st.iter, env, mod, owner)
            if isinstance(it, (VMObj, Opaque)):
                raise VMError("iteration over interpreted object")
            broke = False
            for v in list(it) if isinstance(it, (list, tuple, dict, set, bytes, range, str)) else it:
                self._tick()
                self.assign(st.target, v, env, mod, owner)
                try:
                    self.block(st.body, env, mod, owner)
                except _Brk:
                    broke = True
                    break
                except _Cont:
                    continue
            if not broke:
                self.block(st.orelse, env, mod, owner)
        elif isinstance(st, ast.Return):
            raise _Ret(self.eval(st.value, env, mod, owner) if st.value is not None else None)
        elif isinstance(st, ast.Break):
            raise _Brk()
        elif isinstance(st, ast.Continue):
            raise _Cont()
        elif isinstance(st, ast.Pass):
            pass
        elif isinstance(st, ast.Raise):
            if st.exc is None:
                raise VMError("bare raise")
            e = self.eval(st.exc, env, mod, owner)
            if isinstance(e, VMClass):
                e = self.new(e)
            if isinstance(e, type) and issubclass(e, BaseException):
                e = e()
            if isinstance(e, VMExc):
                raise VMRaise(e)
            if isinstance(e, BaseException):
                raise VMRaise_native(e)
            raise VMError("raise of a non-exception")
        elif isinstance(st, ast.Try):
            self._try(st, env, mod, owner)
        elif isinstance(st, ast.Assert):
            if not self.truth(self.eval(st.test, env, mod, owner)):
                raise VMRaise_native(AssertionError())
        elif isinstance(st, ast.Delete):
            for t in st.targets:
                if isinstance(t, ast.Attribute):
                    o = self.eval(t.value, env, mod, owner)
                    if isinstance(o, VMObj):
                        o.attrs.pop(t.attr, None)
                    else:
                        raise VMError("del on native attribute")
                elif isinstance(t, ast.Subscript):
                    c = self.eval(t.value, env, mod, owner)
                    if not isinstance(c, (list, dict, bytearray)):
                        raise VMError("del item on unsupported container")
                    del c[self._index(t.slice, env, mod, owner)]
                elif isinstance(t, ast.Name):
                    env.pop(t.id, None)
                else:
                    raise VMError("del target")
        elif isinstance(st, ast.With):
            cms = []
            for it in st.items:
                cm = self.eval(it.context_expr, env, mod, owner)
                if not isinstance(cm, VMContext):
                    raise VMError("with-statement on something that is not a harness VMContext")
                v = cm.enter(self)
                if it.optional_vars is not None:
                    self.assign(it.optional_vars, v, env, mod, owner)
                cms.append(cm)
            try:
                self.block(st.body, env, mod, owner)
            except (VMRaise, _NativeRaise) as e:
                for cm in reversed(cms):
                    if cm.exit(self, e):
                        break
                else:
                    raise
            else:
                for cm in reversed(cms):
                    cm.exit(self, None)
        elif isinstance(st, (ast.Import, ast.ImportFrom, ast.Global, ast.Nonlocal)):
            pass
        elif isinstance(st, (ast.FunctionDef, ast.AsyncFunctionDef)):
            env[st.name] = VMFunc(mod, st, owner)
        else:
            raise VMError(f"statement {type(st).__name__} outside the subset")

    def _matches(self, exc, htype, env, mod, owner):
        if htype is None:
            return True
        ts = htype.elts if isinstance(htype, ast.Tuple) else [htype]
        for t in ts:
            v = self.eval(t, env, mod, owner)
            if isinstance(v, VMClass):
                if isinstance(exc, VMRaise) and v.name in exc.exc.names():
                    return True
            elif isinstance(v, type) and issubclass(v, BaseException):
                if isinstance(exc, VMRaise):
                    if v.__name__ in exc.exc.names() or v in (Exception, BaseException):
                        return True
                elif isinstance(exc, _NativeRaise) and isinstance(exc.native, v):
                    return True
            elif isinstance(v, Opaque):
                continue
            else:
                raise VMError("except clause type")
        return False

    def _try(self, st, env, mod, owner):
        try:
            try:
                self.block(st.body, env, mod, owner)
            except (VMRaise, _NativeRaise) as e:
                for h in st.handlers:
                    if self._matches(e, h.type, env, mod, owner):
                        if h.name:
                            env[h.name] = e.exc if isinstance(e, VMRaise) else e.native
                        self.block(h.body, env, mod, owner)
                        break
                else:
                    raise
            else:
                self.block(st.orelse, env, mod, owner)
        finally:
            if st.finalbody:
                self.block(st.finalbody, env, mod, owner)

    # ---- expressions --------------------------------------------------------------------------------------------------
    @staticmethod
    def truth(v):
        if isinstance(v, (VMObj, VMClass, Opaque, VMFunc, VMBound, VMModule)):
            return True
        return bool(v)

    def _index(self, sl, env, mod, owner):
        if isinstance(sl, ast.Slice):
            return slice(self.eval(sl.lower, env, mod, owner) if sl.lower else None, self.eval(sl.upper, env, mod, owner) if sl.upper else None,
                         self.eval(sl.step, env, mod, owner) if sl.step else None)
        return self.eval(sl, env, mod, owner)

    def _binop(self, op, a, b):
        if isinstance(a, (VMObj, Opaque, VMClass)) or isinstance(b, (VMObj, Opaque, VMClass)):
            raise VMError("arithmetic on interpreted object")
        try:
            t = type(op)
            if t is ast.Add:
                return a + b
            if t is ast.Sub:
                return a - b
            if t is ast.Mult:
                return a * b
            if t is ast.Mod:
                return a % b
            if t is ast.FloorDiv:
                return a // b
            if t is ast.Div:
                return a / b
            if t is ast.Pow:
                if isinstance(b, int) and abs(b) > 4096:
                    raise VMError("pow too large")
                return a ** b
            if t is ast.LShift:
                return a << b
            if t is ast.RShift:
                return a >> b
            if t is ast.BitOr:
                return a | b
            if t is ast.BitAnd:
                return a & b
            if t is ast.BitXor:
                return a ^ b
        except VMError:
            raise
        except Exception as e:  # noqa: BLE001 - becomes an exception of the interpreted program
            raise VMRaise_native(e)
        raise VMError(f"operator {type(op).__name__}")

    def eval(self, e, env, mod, owner):
        self._tick()
        try:
            return self._eval(e, env, mod, owner)
        except (VMError, VMRaise, _NativeRaise, _Ret, _Brk, _Cont):
            raise
        except RecursionError:
            raise VMError("recursion limit")
        except Exception as ex:  # noqa: BLE001 - native operation failed: an exception of the interpreted program
            raise VMRaise_native(ex)

    def _eval(self, e, env, mod, owner):
        if isinstance(e, ast.Constant):
            return e.value
        if isinstance(e, ast.Name):
            if isinstance(env, _ClassScope):
                return env.lookup(e.id)
            if e.id in env:
                return env[e.id]
            return mod.globals_lookup(e.id)
        if isinstance(e, ast.Attribute):
            return self.getattr(self.eval(e.value, env, mod, owner), e.attr)
        if isinstance(e, ast.Call):
            if isinstance(e.func, ast.Name) and e.func.id == "super":
                raise VMError("bare super()")
            if isinstance(e.func, ast.Attribute) and isinstance(e.func.value, ast.Call) and isinstance(e.func.value.func, ast.Name) \
                    and e.func.value.func.id == "super" and not e.func.value.args:
                # super().m(...): next definition of m after the defining class in the receiver's MRO; a base class outside the
                # interpreted modules is opaque (the call has no effect)
                selfv = env.get("self") if isinstance(env, dict) else None
                if owner is None or not isinstance(selfv, VMObj):
                    raise VMError("super() outside a method")
                mro = selfv.cls.mro()
                names = [c.name for c in mro]
                rest = mro[names.index(owner.name) + 1:] if owner.name in names else []
                fn = None
                for c in rest:
                    o = c.own(e.func.attr)
                    if o is not None and o[0] == "func":
                        fn = VMBound(selfv, VMFunc(c.mod, o[1], c))
                        break
                if fn is None:
                    for a in e.args:
                        self.eval(a, env, mod, owner)
                    return None
            else:
                fn = self.eval(e.func, env, mod, owner)
            args = []
            for a in e.args:
                if isinstance(a, ast.Starred):
                    args.extend(self.eval(a.value, env, mod, owner))
                else:
                    args.append(self.eval(a, env, mod, owner))
            kwargs = {}
            for k in e.keywords:
                if k.arg is None:
                    raise VMError("**kwargs call")
                kwargs[k.arg] = self.eval(k.value, env, mod, owner)
            return self.call(fn, args, kwargs)
        if isinstance(e, ast.BinOp):
            return self._binop(e.op, self.eval(e.left, env, mod, owner), self.eval(e.right, env, mod, owner))
        if isinstance(e, ast.BoolOp):
            v = None
            for x in e.values:
                v = self.eval(x, env, mod, owner)
                if self.truth(v) != isinstance(e.op, ast.And):
                    return v
            return v
        if isinstance(e, ast.UnaryOp):
            v = self.eval(e.operand, env, mod, owner)
            if isinstance(e.op, ast.Not):
                return not self.truth(v)
            if isinstance(e.op, ast.USub):
                return -v
            if isinstance(e.op, ast.UAdd):
                return +v
            return ~v
        if isinstance(e, ast.Compare):
            left = self.eval(e.left, env, mod, owner)
            for op, rn in zip(e.ops, e.comparators):
                right = self.eval(rn, env, mod, owner)
                t = type(op)
                if t is ast.Is:
                    r = left is right
                elif t is ast.IsNot:
                    r = left is not right
                elif t is ast.Eq:
                    r = left == right
                elif t is ast.NotEq:
                    r = left != right
                elif t is ast.In:
                    r = left in right
                elif t is ast.NotIn:
                    r = left not in right
                else:
                    if isinstance(left, (VMObj, Opaque)) or isinstance(right, (VMObj, Opaque)):
                        raise VMError("ordering of interpreted objects")
                    r = {ast.Lt: lambda: left < right, ast.LtE: lambda: left <= right, ast.Gt: lambda: left > right, ast.GtE: lambda: left >= right}[t]()
                if not r:
                    return False
                left = right
            return True
        if isinstance(e, ast.Subscript):
            v = self.eval(e.value, env, mod, owner)
            if isinstance(v, (VMObj, Opaque, VMClass)):
                raise VMError("subscript of interpreted object")
            return v[self._index(e.slice, env, mod, owner)]
        if isinstance(e, ast.Tuple):
            return tuple(self.eval(x, env, mod, owner) for x in e.elts)
        if isinstance(e, ast.List):
            return [self.eval(x, env, mod, owner) for x in e.elts]
        if isinstance(e, ast.Set):
            return {self.eval(x, env, mod, owner) for x in e.elts}
        if isinstance(e, ast.Dict):
            return {self.eval(k, env, mod, owner): self.eval(v, env, mod, owner) for k, v in zip(e.keys, e.values)}
        if isinstance(e, ast.IfExp):
            return self.eval(e.body if self.truth(self.eval(e.test, env, mod, owner)) else e.orelse, env, mod, owner)
        if isinstance(e, ast.JoinedStr):
            out = ""
            for v in e.values:
                if isinstance(v, ast.Constant):
                    out += str(v.value)
                else:
                    x = self.eval(v.value, env, mod, owner)
                    spec = self.eval(v.format_spec, env, mod, owner) if v.format_spec is not None else ""
                    x = {114: repr, 115: str, 97: ascii}.get(v.conversion, lambda y: y)(x)
                    out += format(x, spec)
            return out
        if isinstance(e, (ast.ListComp, ast.GeneratorExp, ast.SetComp)):
            if len(e.generators) != 1 or e.generators[0].is_async:
                raise VMError("comprehension outside the subset")
            gen = e.generators[0]
            out = []
            local = dict(env) if not isinstance(env, _ClassScope) else {}
            for v in self.eval(gen.iter, env, mod, owner):
                self.assign(gen.target, v, local, mod, owner)
                if all(self.truth(self.eval(c, local, mod, owner)) for c in gen.ifs):
                    out.append(self.eval(e.elt, local, mod, owner))
            return set(out) if isinstance(e, ast.SetComp) else out
        if isinstance(e, ast.Lambda):
            return VMFunc(mod, e, owner)
        if isinstance(e, ast.Slice):
            return self._index(e, env, mod, owner)
        raise VMError(f"expression {type(e).__name__} outside the subset")


class _NativeRaise(Exception):
    def __init__(self, native):
        Exception.__init__(self, repr(native))
        self.native = native


def VMRaise_native(e):
    return _NativeRaise(e)


class _ClassScope:
    """name resolution inside a class body: earlier class-level names, then module globals"""

    def __init__(self, vm, cls: VMClass):
        self.vm, self.cls = vm, cls

    def lookup(self, name):
        if self.cls.own(name) is not None:
            return self.vm.class_attr(self.cls, name)
        return self.cls.mod.globals_lookup(name)

    def __contains__(self, name):
        return False


class VMContext:
    """harness stand-in for a context manager: ``enter(vm)`` -> value bound by ``as``; ``exit(vm, exc)`` with exc = None, VMRaise or
    _NativeRaise; return True to swallow, raise to replace"""

    def enter(self, vm):
        return None

    def exit(self, vm, exc):
        return False


class VMStub:
    """base of the harness's stand-ins (transport): plain Python objects whose methods may be called from interpreted code"""


# =====================================================================================================================
# Inlined views: a private helper that the rule tables do not know (i.e. one introduced by a refactor) is analysed as
# if its body stood at the call site, so that dominance / must-precede / coupling questions keep their meaning when
# statements move into `self._helper()` or out of it.
# =====================================================================================================================
import copy as _copy


class _NoInline(Exception):
    pass


def _clone(node):
    """structural copy of an AST (sub)tree; parent links and other annotations are not followed"""
    if isinstance(node, list):
        return [_clone(x) for x in node]
    if not isinstance(node, ast.AST):
        return node
    new = node.__class__()
    for f in node._fields:
        if hasattr(node, f):
            setattr(new, f, _clone(getattr(node, f)))
    for a in node._attributes:
        if hasattr(node, a):
            setattr(new, a, getattr(node, a))
    return new


def _ends_in_return(stmts) -> bool:
    if not stmts:
        return False
    last = stmts[-1]
    if isinstance(last, (ast.Return, ast.Raise)):
        return True
    if isinstance(last, ast.If) and last.orelse:
        return _ends_in_return(last.body) and _ends_in_return(last.orelse)
    return False


def _has_return(node) -> bool:
    return any(isinstance(x, ast.Return) for x in walk_local(node))


def _structure_returns(stmts, on_return):
    """Rewrite a helper body into one without ``return``: ``on_return(value)`` gives the statements that replace ``return value``;
    the code following an ``if`` that may return is moved (copied) into the branches that fall through."""
    out = []
    for i, st in enumerate(stmts):
        if isinstance(st, ast.Return):
            out.extend(on_return(st.value))
            return out
        if isinstance(st, ast.If) and _has_return(st):
            rest = stmts[i + 1:]
            body = _structure_returns(list(st.body) + ([] if _ends_in_return(st.body) else _clone(rest)), on_return)
            orelse = _structure_returns(list(st.orelse) + ([] if (st.orelse and _ends_in_return(st.orelse)) else _clone(rest)), on_return)
            out.append(ast.If(test=st.test, body=body or [ast.Pass()], orelse=orelse))
            return out
        if isinstance(st, ast.Try) and _has_return(st) and not st.finalbody:
            rest = stmts[i + 1:]
            if any(isinstance(x, ast.Return) for b in st.body[:-1] for x in walk_local(b)) or \
                    (st.body and not isinstance(st.body[-1], ast.Return) and _has_return(st.body[-1])):
                raise _NoInline("return in the middle of a try body")
            body_returns = bool(st.body) and isinstance(st.body[-1], ast.Return)
            body = _structure_returns(list(st.body), on_return)
            handlers = []
            for h in st.handlers:
                hb = _structure_returns(list(h.body) + ([] if _ends_in_return(h.body) else _clone(rest)), on_return)
                handlers.append(ast.ExceptHandler(type=h.type, name=h.name, body=hb or [ast.Pass()]))
            orelse = [] if body_returns else _structure_returns(list(st.orelse) + ([] if (st.orelse and _ends_in_return(st.orelse)) else _clone(rest)), on_return)
            out.append(ast.Try(body=body or [ast.Pass()], handlers=handlers, orelse=orelse, finalbody=[]))
            return out
        if _has_return(st):
            raise _NoInline("return inside a loop / with / try-finally")
        out.append(st)
    return out


class _Subst(ast.NodeTransformer):
    def __init__(self, mapping):
        self.mapping = mapping

    def visit_Name(self, node):
        if node.id in self.mapping and isinstance(node.ctx, ast.Load):
            return _clone(self.mapping[node.id])
        return node


def _as_expression(stmts):
    """if/return-only body -> a single expression (nested conditional expressions)"""
    stmts = [s for s in stmts if not (isinstance(s, ast.Expr) and isinstance(s.value, ast.Constant))]
    if not stmts:
        return ast.Constant(None)
    st = stmts[0]
    if isinstance(st, ast.Return):
        return st.value if st.value is not None else ast.Constant(None)
    if isinstance(st, ast.If):
        if _ends_in_return(st.body) and not st.orelse:
            return ast.IfExp(test=st.test, body=_as_expression(st.body), orelse=_as_expression(stmts[1:]))
        if st.orelse and _ends_in_return(st.body) and _ends_in_return(st.orelse):
            return ast.IfExp(test=st.test, body=_as_expression(st.body), orelse=_as_expression(st.orelse))
    raise _NoInline("helper body is not an if/return expression")


class Inliner:
    """``Inliner(mod, cls_names, known)``: ``known`` = method names the rules are written against (never inlined)."""

    def __init__(self, mod, cls_names: Sequence[str], known: Iterable[str], depth: int = 3):
        from sa.source import mro_lookup
        self.mod, self.known, self.depth = mod, set(known), depth
        self.classes = [c for c in mod.classes() if c.name in cls_names]
        self._lookup = lambda name: next((r[1] for c in self.classes for r in [mro_lookup(mod, c, name)] if r and isinstance(r[1], (ast.FunctionDef,))), None)
        self.inlined: Set[str] = set()        # helper names whose every visited call site was inlined
        self.refused: Dict[str, str] = {}
        self._views: Dict[int, ast.AST] = {}

    def helper_of(self, call):
        if isinstance(call, ast.Call) and isinstance(call.func, ast.Attribute) and isinstance(call.func.value, ast.Name) and call.func.value.id == "self" \
                and call.func.attr not in self.known and not call.keywords:
            h = self._lookup(call.func.attr)
            if h is not None and not h.decorator_list and not (h.args.vararg or h.args.kwarg or h.args.kwonlyargs) \
                    and len(h.args.args) - 1 == len(call.args) and not any(isinstance(x, (ast.Yield, ast.YieldFrom, ast.Await)) for x in walk_local(h)):
                return h
        return None

    def _body(self, h, call):
        body = [s for s in _clone(h.body) if not (isinstance(s, ast.Expr) and isinstance(s.value, ast.Constant) and isinstance(s.value.value, str))]
        params = [a.arg for a in h.args.args[1:]]
        rebound = {t.id for s in walk_local(ast.Module(body=body, type_ignores=[])) if isinstance(s, (ast.Assign, ast.AugAssign, ast.For))
                   for t in ([s.target] if not isinstance(s, ast.Assign) else s.targets) if isinstance(t, ast.Name)}
        if rebound & set(params):
            raise _NoInline("parameter re-bound in helper")
        sub = _Subst(dict(zip(params, call.args)))
        return [sub.visit(s) for s in body]

    def _stmts(self, stmts, level):
        out = []
        for st in stmts:
            out.extend(self._stmt(st, level))
        return out

    def _stmt(self, st, level):
        # recurse into compound statements first
        for field in ("body", "orelse", "finalbody"):
            if isinstance(getattr(st, field, None), list) and not isinstance(st, (ast.FunctionDef, ast.AsyncFunctionDef, ast.ClassDef, ast.Lambda)):
                setattr(st, field, self._stmts(getattr(st, field), level))
        for h in getattr(st, "handlers", []) or []:
            h.body = self._stmts(h.body, level)
        if level >= self.depth:
            return [st]
        call = None
        mode = None
        if isinstance(st, ast.Expr) and self.helper_of(st.value):
            call, mode = st.value, "expr"
        elif isinstance(st, ast.Return) and st.value is not None and self.helper_of(st.value):
            call, mode = st.value, "return"
        elif isinstance(st, ast.Assign) and len(st.targets) == 1 and isinstance(st.targets[0], (ast.Name, ast.Attribute)) and self.helper_of(st.value):
            call, mode = st.value, "assign"
        try:
            if call is not None:
                h = self.helper_of(call)
                body = self._body(h, call)
                if mode == "expr":
                    new = _structure_returns(body, lambda v: [ast.Expr(v)] if v is not None and not isinstance(v, (ast.Constant, ast.Name)) else [])
                elif mode == "return":
                    new = body if _ends_in_return(body) else body + [ast.Return(value=ast.Constant(None))]
                else:
                    tgt = st.targets[0]
                    new = _structure_returns(body + ([] if _ends_in_return(body) else [ast.Return(value=ast.Constant(None))]),
                                             lambda v: [ast.Assign(targets=[_clone(tgt)], value=v if v is not None else ast.Constant(None), lineno=st.lineno)])
                new = new or [ast.Pass()]
                for n in new:
                    ast.copy_location(n, st)
                    ast.fix_missing_locations(n)
                self.inlined.add(call.func.attr)
                return self._stmts(new, level + 1)
        except _NoInline as e:
            self.refused[call.func.attr] = str(e)
            return [st]
        # helper calls inside an `if` test whose body is not a plain expression: bind the result to a temporary first
        if isinstance(st, ast.If):
            pre = []
            for x in [x for x in walk_local(st.test) if self.helper_of(x)]:
                h = self.helper_of(x)
                try:
                    _as_expression(self._body(h, x))
                    continue                      # handled below as an expression
                except _NoInline:
                    pass
                try:
                    body = self._body(h, x)
                    tmp = f"_inl_{x.func.attr.lstrip('_')}"
                    new = _structure_returns(body + ([] if _ends_in_return(body) else [ast.Return(value=ast.Constant(None))]),
                                             lambda v, tmp=tmp: [ast.Assign(targets=[ast.Name(id=tmp, ctx=ast.Store())], value=v if v is not None else ast.Constant(None), lineno=st.lineno)])
                except _NoInline as e:
                    self.refused[x.func.attr] = str(e)
                    continue
                for n in new:
                    ast.copy_location(n, st)
                    ast.fix_missing_locations(n)
                pre.extend(new)
                self.inlined.add(x.func.attr)

                class R(ast.NodeTransformer):
                    def visit_Call(self_, node, x=x, tmp=tmp):
                        if node is x:
                            return ast.copy_location(ast.Name(id=tmp, ctx=ast.Load()), node)
                        return self_.generic_visit(node)
                st.test = R().visit(st.test)
            if pre:
                return self._stmts(pre, level + 1) + [self._exprs(st, level)]
        # helper calls in expression position
        return [self._exprs(st, level)]

    def _exprs(self, st, level):
        outer = self

        class T(ast.NodeTransformer):
            def visit_Call(self, node):
                self.generic_visit(node)
                h = outer.helper_of(node)
                if h is None:
                    return node
                try:
                    e = _as_expression(outer._body(h, node))
                except _NoInline as ex:
                    outer.refused[node.func.attr] = str(ex)
                    return node
                outer.inlined.add(node.func.attr)
                return ast.copy_location(e, node)

            def visit_FunctionDef(self, node):
                return node

            visit_Lambda = visit_AsyncFunctionDef = visit_FunctionDef

        if isinstance(st, (ast.If, ast.While)):
            st.test = T().visit(st.test)
            return st
        if isinstance(st, (ast.For, ast.With, ast.Try, ast.FunctionDef, ast.AsyncFunctionDef, ast.ClassDef)):
            if isinstance(st, ast.For):
                st.iter = T().visit(st.iter)
            return st
        return ast.fix_missing_locations(T().visit(st))

    def view(self, func):
        """An analysis copy of ``func`` with unknown private helpers of the same class expanded at their call sites."""
        v = self._views.get(id(func))
        if v is None:
            v = _clone(func)
            v.body = self._stmts(v.body, 0)
            ast.fix_missing_locations(v)
            for parent in ast.walk(v):
                for child in ast.iter_child_nodes(parent):
                    child._parent = parent  # type: ignore[attr-defined]
            v._parent = getattr(func, "_parent", None)  # type: ignore[attr-defined]
            self._views[id(func)] = v
        return v

    def callers(self):
        """{helper name: set of method names (of the classes) that call it}"""
        out: Dict[str, Set[str]] = {}
        from sa.source import methods as _methods
        for c in self.classes:
            for name, m in _methods(c).items():
                for x in walk_local(m):
                    if isinstance(x, ast.Call) and isinstance(x.func, ast.Attribute) and isinstance(x.func.value, ast.Name) and x.func.value.id == "self":
                        out.setdefault(x.func.attr, set()).add(name)
        return out

    def permitted(self, fname: str, allowed: Iterable[str], _seen=None) -> bool:
        """fname is allowed itself, or it is an unknown private helper all of whose callers are permitted (closure)."""
        allowed = set(allowed)
        if fname in allowed:
            return True
        if fname in self.known:
            return False
        _seen = _seen or set()
        if fname in _seen:
            return False
        _seen.add(fname)
        cs = self.callers().get(fname, set())
        return bool(cs) and all(self.permitted(c, allowed, _seen) for c in cs)


def resolve_locals(func, expr, depth: int = 3):
    """Replace local names that are assigned exactly once in ``func`` (plain assignment) by the assigned expression."""
    if depth <= 0:
        return expr
    defs = {}
    counts: Dict[str, int] = {}
    for st in walk_local(func):
        if isinstance(st, (ast.Assign, ast.AugAssign, ast.AnnAssign, ast.For)):
            for t in assigned_targets(st):
                if isinstance(t, ast.Name):
                    counts[t.id] = counts.get(t.id, 0) + 1
                    if isinstance(st, ast.Assign) and len(st.targets) == 1 and st.targets[0] is t:
                        defs[t.id] = st.value
    params = {a.arg for a in getattr(func.args, "args", [])} if hasattr(func, "args") else set()
    mapping = {k: v for k, v in defs.items() if counts.get(k) == 1 and k not in params}
    if not mapping:
        return expr
    new = _Subst(mapping).visit(_clone(expr))
    return resolve_locals(func, new, depth - 1) if src(new) != src(expr) else new


class Views:
    """Per-module Inliners for a checker: ``known`` = {module path: {class name: [method names the rules know]}}."""

    def __init__(self, ctx, known: Dict[str, Dict[str, Sequence[str]]]):
        self.ctx, self.known = ctx, known
        self._inl: Dict[str, Inliner] = {}

    def inliner(self, rel) -> Inliner:
        if rel not in self._inl:
            table = self.known.get(rel, {})
            names = {n for ns in table.values() for n in ns}
            self._inl[rel] = Inliner(self.ctx.mod(rel), list(table), names)
        return self._inl[rel]

    def f(self, rel, qual):
        func = self.ctx.func(rel, qual)
        cls = qual.split(".")[0] if "." in qual else None
        if cls is None or cls not in self.known.get(rel, {}):
            return func
        return self.inliner(rel).view(func)

    def methods(self, rel, cls_name):
        """[(name, function to analyse)]: known methods as inlined views (all computed first), then helpers unknown to the
        rules that could not be inlined at every call site (judged on their own)."""
        from sa.source import methods as _methods
        inl = self.inliner(rel)
        ms = _methods(self.ctx.cls(rel, cls_name))
        known = set(self.known.get(rel, {}).get(cls_name, ()))
        for c in self.known.get(rel, {}):               # populate inl.inlined from every known method of the module first
            for n, m in _methods(self.ctx.cls(rel, c)).items():
                if n in self.known[rel][c]:
                    inl.view(m)
        out = [(n, inl.view(m)) for n, m in ms.items() if n in known]
        out += [(n, m) for n, m in ms.items() if n not in known and (n not in inl.inlined or n in inl.refused)]
        return out
