"""C51 - DirDBM survives a crash at any point."""
from __future__ import annotations

import ast

from sa.astx import NotConst, call_attr, call_name, const_eval, src, walk_local
from sa.domains import replace_chain
from sa.selftest import Mutant, Silent
from sa.source import AnalysisError, methods
from sa.props._lib_j import (body_always_entered, normalise, flag_search, flags_at, edge_asserts, local_defs, no_exc, node_calls, params, resolve, rsrc,
                             run_sections)

PROPERTY = "C51"
DB = "persisted/dirdbm.py"
Q = "twisted.persisted.dirdbm.DirDBM"
TECHNIQUE = "atomic-replace CFG rule, suffix-table agreement, who-may-mutate closure, exhaustive alphabet evaluation"
EXPLANATION = (
    "Decides on DirDBM.__setitem__: data is written only to a sibling of the final path with suffix .rpl (iff the old entry "
    "exists) or .new (iff it does not); old.remove()/new.moveTo(old) are reachable only through the normal return of "
    "_writeFile (complete, flushed, closed); the failure handler (BaseException) removes the temporary, re-raises and never "
    "touches the old entry; the final name changes only by remove-then-rename from the temporary. Decides on __init__: "
    "recovery runs whenever the directory exists, handles exactly the writer's suffixes, deletes *.new, and for *.rpl strips "
    "exactly the suffix, deletes the replacement iff the target exists and otherwise renames it over the target. Evaluates "
    "_encode's replace chain over the base64 alphabet: no '.', '/' or newline can occur in an encoded name (so no entry can "
    "look like a temporary or leave the directory) and _decode inverts it. Who-may-mutate: only __setitem__, __delitem__, "
    "recovery and _writeFile touch the directory. Not decided: durability across power loss (no fsync), concurrent writers. "
    "Every anchor function is also checked to be entered on every call (no memoising/wrapping decorator, duplicate definition or rebinding). "
    "Methods: structural for the write/recovery/who-may-mutate clauses; the three alphabet clauses are finite-exhaustive (the replace chain is checked to be byte-wise and is evaluated on all 66 bytes base64.encodebytes can emit). "
)
RULE_KINDS = {
    "*": "structural",                                   # atomic-replace path rule on the CFG, writer/recovery suffix-table agreement, who-may-mutate closed over callers
    "encoding/filename-safe-alphabet": "finite-exhaustive",   # replace chain evaluated on all 66 bytes encodebytes can emit (chain is byte-wise: checked)
    "encoding/injective": "finite-exhaustive",
    "encoding/temporaries-distinguishable": "finite-exhaustive",
}
ASSUMPTIONS = [
    "the rules read a normalised view of the anchored modules (sa/props/_lib_j.Normaliser): private helpers expanded at their call sites, module constants and single-assignment pure temporaries substituted, loops over constant tuples unrolled; evaluation order inside one statement is not modelled",
   
    "os.rename / os.remove are atomic with respect to a process crash",
    "no files other than DirDBM's own are placed in the directory (documented precondition)",
]
B64 = b"ABCDEFGHIJKLMNOPQRSTUVWXYZabcdefghijklmnopqrstuvwxyz0123456789+/=\n"
MUTATORS = {"remove", "moveTo", "rename", "unlink", "rmdir", "makedirs", "createDirectory", "setContent", "_writeFile", "copyTo", "touch", "rmtree"}


def _sibling_alternatives(d, defs):
    """[(base expr, suffix, None | (test expr, arm))] for ``base.siblingExtension(<const> | <const> if <test> else <const>)`` (locals looked through);
    None when ``d`` is not such a call."""
    if not (isinstance(d, ast.Call) and isinstance(d.func, ast.Attribute) and d.func.attr == "siblingExtension" and len(d.args) == 1):
        return None
    arg = resolve(d.args[0], defs)

    def alts(e, cond):
        if isinstance(e, ast.IfExp) and cond is None:
            a, b = alts(e.body, (e.test, True)), alts(e.orelse, (e.test, False))
            return None if a is None or b is None else a + b
        try:
            return [(d.func.value, const_eval(e), cond)]
        except NotConst:
            return None
    return alts(arg, None)


def _writer_exts(ctx):
    """Constant suffixes of the temporaries __setitem__ creates (siblingExtension(<const>))."""
    out = set()
    f = ctx.func(DB, "DirDBM.__setitem__")
    defs = local_defs(f, track_mutation=False)
    for c in ast.walk(f):
        for a in (_sibling_alternatives(c, defs) or []):
            out.add(a[1])
    return out


def _s_setitem(ctx, S):
    f = ctx.func(DB, "DirDBM.__setitem__")
    g = ctx.cfg(f, exception_is_all=False)
    q = Q + ".__setitem__"
    defs = local_defs(f, track_mutation=False)      # old/new are FilePaths: .remove() is not a container mutation

    writes = node_calls(g, lambda c: call_name(c) == "self._writeFile")
    ctx.check(len(writes) == 1, "setitem/single-write", q, f"__setitem__ writes at {len(writes)} sites (one expected)")
    if not writes:
        return      # the violation above is the verdict
    wn, wc = writes[0]
    tmp = wc.args[0]
    ctx.need(isinstance(tmp, ast.Name), "temporary path variable passed to _writeFile")
    tdefs = [d for d in defs.get(tmp.id, [])]
    alts_per_def = [(_sibling_alternatives(d, defs), d) for d in tdefs if d is not None]
    sibs = [(a, d) for al, d in alts_per_def for a in (al or [None])]
    final = None
    writer_exts = set()
    okshape = bool(sibs) and len(alts_per_def) == len(tdefs) and all(s is not None for s, _ in sibs)
    if okshape:
        bases = {src(s[0]) for s, _ in sibs}
        okshape = len(bases) == 1
        final = next(iter(bases)) if okshape else None
        writer_exts = {s[1] for s, _ in sibs}
    ctx.check(okshape and src(tmp) != final, "setitem/write-only-to-temporary", ctx.construct(q, "self._writeFile(<temporary>, v)"),
              f"the value is written to {rsrc(tmp, defs, keep=params(f))}, which is not (only) a siblingExtension() temporary of the final path: a crash in the "
              f"middle of the write leaves a partial value visible under the key")
    if final is None:       # the violation above is the verdict; find the final path through any temporary to keep checking the rest
        every = [a for v in defs.values() for d in v if d is not None for a in (_sibling_alternatives(d, defs) or [])]
        cands = {src(a[0]) for a in every}
        final = next(iter(cands)) if len(cands) == 1 else None
        if not writer_exts:
            writer_exts = {a[1] for a in every}
    ctx.need(final, "final path variable (base of siblingExtension) in __setitem__")
    fin_r = rsrc(ast.parse(final, mode="eval").body, defs)
    ctx.check("self._dnamePath.child(" in fin_r and "_encode" in fin_r, "setitem/final-path-is-encoded-child", ctx.construct(q, "final path"),
              f"the entry's path is {fin_r}, not the child of the directory named by the encoded key")
    # suffix choice is tied to the existence of the old entry
    for s, d in sibs:
        if s is None:
            continue
        assign = getattr(d, "_parent", None)
        nid = [n.id for n in g.nodes if n.ast is assign and g.reachable(n.id)]
        pol = [lab for x in nid for t, lab in edge_asserts(g, x) if src(t) == f"{final}.exists()"]
        if s[2] is not None:          # the suffix is chosen by a conditional expression: its test plays the role of the dominating guard
            t_, arm = s[2]
            neg = False
            while isinstance(t_, ast.UnaryOp) and isinstance(t_.op, ast.Not):
                t_, neg = t_.operand, not neg
            if src(t_) in (f"{final}.exists()", rsrc(ast.parse(final, mode="eval").body, defs) + ".exists()"):      # t_ is already resolved
                pol = ["T" if (arm != neg) else "F"]
        want = {".rpl": "T", ".new": "F"}.get(s[1])
        ctx.check(want is not None and pol == [want], "setitem/suffix-matches-existence", ctx.construct(q, f"temporary suffix {s[1]!r}"),
                  {".rpl": "the .rpl (replacement) temporary is used although the old entry may not exist: recovery would rename a partially "
                           "written .rpl into place",
                   ".new": "the .new temporary is used although the old entry exists: a crash between old.remove() and the rename makes "
                           "recovery delete the only copy (old and new value lost)"}.get(s[1], f"unknown temporary suffix {s[1]!r} (recovery does not know it)"))
    # destruction of the old value only after the complete write
    def only_after_write(n):
        return n not in g.reach([g.entry], edge_ok=lambda a, b, l: not (a == wn and l != "exc"))
    removes = node_calls(g, lambda c: call_attr(c) in ("remove", "moveTo", "unlink") and isinstance(c.func, ast.Attribute) and src(c.func.value) == final
                         or (call_name(c) in ("os.remove", "os.unlink", "os.rename") and c.args and final in src(c.args[0])))
    moves = node_calls(g, lambda c: call_attr(c) == "moveTo" and isinstance(c.func, ast.Attribute))
    for n, c in removes:
        ctx.check(only_after_write(n), "setitem/old-destroyed-only-after-write", ctx.construct(q, c),
                  "the old entry is removed on a path on which the new value has not been completely written: a crash (or failed write) loses "
                  "the old value", witness=g.describe(g.path([g.entry], [n], edge_ok=lambda a, b, l: not (a == wn and l != "exc"))))
    ctx.check(len(moves) == 1, "setitem/published-by-rename", q, "the temporary is not moved over the final path exactly once")
    for n, c in moves:
        ok = src(c.func.value) == src(tmp) and len(c.args) == 1 and src(c.args[0]) == final
        ctx.check(ok and only_after_write(n), "setitem/published-by-rename", ctx.construct(q, c),
                  "the final name is not produced by moving the completely written temporary over it")
        w = g.must_pass([wn], [n], exc=False)
        ctx.check(w is None, "setitem/write-is-published", ctx.construct(q, c), "after a successful write the temporary may never be moved into place (stray file, value not stored)",
                  witness=g.describe(w))
        rm_old = [n2 for n2, c2 in removes if call_attr(c2) in ("remove", "unlink")]
        for r in rm_old:
            ctx.check(g.path([n], [r], edge_ok=no_exc) is None and g.guarded(r, lambda e: src(e) == f"{final}.exists()", True), "setitem/remove-then-rename",
                      ctx.construct(q, "old.remove()"), "the old entry is removed after the rename (deleting the new value) or without testing that it exists")
    # failure of the write, judged on the paths that leave the write on its EXCEPTIONAL edge (consistently with boolean flags such as `written`), whatever
    # construct handles it (except BaseException: ...; raise  /  try ... finally: if not written: ...):
    #   cleaned-up   every such path removes the temporary before it leaves the function;
    #   keeps-old    none of them touches the old entry or moves the temporary into place;
    #   propagates   none of them reaches a normal return.
    envs = flags_at(g, wn)
    starts = [((d, e)) for d, l in g.succ[wn] if l == "exc" for e in envs]
    tmp_rm = [n for n, c in node_calls(g, lambda c: call_attr(c) in ("remove", "unlink") and isinstance(c.func, ast.Attribute) and src(c.func.value) == src(tmp))]
    tmp_rm += [n for n, c in node_calls(g, lambda c: call_name(c) in ("os.remove", "os.unlink") and c.args and src(c.args[0]) == src(tmp) + ".path")]
    old_touch = [n for n, c in removes] + [n for n, c in moves]
    ctx.check(bool(starts), "setitem/failed-write-cleaned-up", ctx.construct(q, "except <all> around _writeFile"), "the write has no exceptional edge in the CFG")
    w = flag_search(g, starts, [g.raise_exit], avoid=tmp_rm)
    ctx.check(bool(tmp_rm) and w is None, "setitem/failed-write-cleaned-up", ctx.construct(q, "except <all> around _writeFile"),
              "a failed write (of any exception class, KeyboardInterrupt included) can leave the function without the partial temporary having been removed: it stays behind, "
              "visible as a stray key", witness=g.describe([wn] + w) if w else "")
    w = flag_search(g, starts, old_touch)
    ctx.check(w is None, "setitem/failed-write-keeps-old", ctx.construct(q, "handler leaves the old entry"),
              "after a failed write the old entry is removed or the partial temporary is moved into place", witness=g.describe([wn] + w) if w else "")
    w = flag_search(g, starts, [g.exit])
    ctx.check(w is None, "setitem/failed-write-propagates", ctx.construct(q, "handler re-raises"), "a failed write is reported as success",
              witness=g.describe([wn] + w) if w else "")


def _s_writefile(ctx, S):
    # _writeFile writes the path it is given, flushes, closes
    fw = ctx.func(DB, "DirDBM._writeFile")
    pw = params(fw)
    opens = [c for c in walk_local(fw) if isinstance(c, ast.Call) and call_name(c) in ("_open", "open")]
    ok = len(opens) == 1 and src(opens[0].args[0]) == pw[1] + ".path" and len(opens[0].args) >= 2 and src(opens[0].args[1]) in ("'wb'",) \
        and isinstance(getattr(opens[0], "_parent", None), ast.withitem)
    wr = [c for c in walk_local(fw) if isinstance(c, ast.Call) and call_attr(c) == "write" and c.args and src(c.args[0]) == pw[2]]
    ctx.check(ok and len(wr) == 1, "writefile/writes-given-path-and-closes", Q + "._writeFile",
              "_writeFile does not open exactly the given path for binary writing inside a with block and write the data once")
    for o in opens:
        unbuf = (len(o.args) >= 3 and src(o.args[2]) == "0") or any(k.arg == "buffering" and src(k.value) == "0" for k in o.keywords)
        ctx.check(not unbuf, "writefile/buffered-handle", ctx.construct(Q + "._writeFile", "open(<temporary>, 'wb')"),
                  "the temporary is opened unbuffered: a single f.write() becomes one raw write(2) whose short count is ignored - a truncated value is then renamed "
                  "into place as if complete (a buffered handle retries and raises)")



def _s_recovery(ctx, S):
    writer_exts = _writer_exts(ctx)
    # ---- recovery ---------------------------------------------------------------------------------------
    fi = ctx.func(DB, "DirDBM.__init__")
    gi = ctx.cfg(fi)
    qi = Q + ".__init__"
    loops = [n for n in gi.nodes if n.kind == "for" and gi.reachable(n.id)]
    handled = {}
    def globs_of(e):
        """glob.glob(<dir>.child("*<ext>").path) calls that make up a list expression (a + b, list variables built by = / +=)."""
        if isinstance(e, ast.Call) and call_name(e) == "glob.glob":
            return [e]
        if isinstance(e, ast.BinOp) and isinstance(e.op, ast.Add):
            l, r = globs_of(e.left), globs_of(e.right)
            return None if l is None or r is None else l + r
        if isinstance(e, ast.Name):
            vals = [n.value for n in walk_local(fi) if isinstance(n, (ast.Assign, ast.AugAssign))
                    and any(isinstance(t, ast.Name) and t.id == e.id for t in (n.targets if isinstance(n, ast.Assign) else [n.target]))]
            out = []
            for v in vals:
                g_ = globs_of(v) if not (isinstance(v, ast.Name) and v.id == e.id) else []
                if g_ is None:
                    return None
                out += g_
            return out or None
        return None

    def child_patterns(e):
        out = []
        for c in ast.walk(e):
            if isinstance(c, ast.Call) and call_attr(c) == "child" and c.args:
                try:
                    out.append(const_eval(c.args[0]))
                except NotConst:
                    out.append(None)
        return out

    for ln in loops:
        gl = globs_of(ln.ast.iter)
        if not gl:
            continue
        for it in gl:
            it = resolve(it, local_defs(fi, track_mutation=False))
            pats = child_patterns(it)
            if len(pats) != 1 or not (isinstance(pats[0], str) and pats[0].startswith("*")):
                continue
            ok_dir = "self._dnamePath.child(" in src(it)
            handled[pats[0][1:]] = (ln, ok_dir)
    ctx.check(set(handled) == writer_exts and writer_exts == {".rpl", ".new"}, "recovery/suffixes-agree-with-writer", qi,
              f"__setitem__ uses temporaries {sorted(writer_exts)} but recovery handles {sorted(handled)}: a crash leaves a stray file that is "
              f"later listed as a key (or an interrupted replacement is never completed)")
    for ext, (ln, ok_dir) in handled.items():
        var = src(ln.ast.target)
        where = ctx.construct(qi, f"recovery of *{ext}")
        ctx.check(ok_dir, "recovery/scans-own-directory", where, "recovery globs another directory than the database's")
        ctx.check(gi.guarded(ln.id, lambda e: src(e) == "self._dnamePath.isdir()", True) and len(gi.edge_guards(ln.id)) == 1, "recovery/always-when-directory-exists", where,
                  "recovery does not run on every open of an existing directory")
        body = ast.Module(body=ln.ast.body, type_ignores=[])
        rms = node_calls(gi, lambda c: call_name(c) in ("os.remove", "os.unlink") and any(c is x for x in ast.walk(body)))
        rns = node_calls(gi, lambda c: call_name(c) == "os.rename" and any(c is x for x in ast.walk(body)))
        if ext == ".new":
            ok = len(rms) == 1 and src(rms[0][1].args[0]) == var and not rns and not gi.edge_guards(rms[0][0])[1:]
            ctx.check(ok, "recovery/new-deleted", where, "an interrupted new entry (*.new, possibly partial) is not unconditionally deleted")
        elif ext == ".rpl":
            # target name = file name without exactly the suffix
            target = None
            wrong = None
            simple_ext = isinstance(ext, str) and ext.startswith(".") and "." not in ext[1:] and len(ext) > 1     # then os.path.splitext(name + ext) == (name, ext)

            def strips_suffix(d):
                """True / False: expression d is / is not ``var`` without exactly ``ext``; None: not a suffix-stripping shape"""
                if isinstance(d, ast.Subscript) and src(d.value) == var and isinstance(d.slice, ast.Slice) and d.slice.lower is None and d.slice.step is None:
                    try:
                        hi = const_eval(d.slice.upper) if d.slice.upper is not None else None
                    except NotConst:
                        return None
                    return hi == -len(ext)
                if isinstance(d, ast.Subscript) and isinstance(d.slice, ast.Constant) and d.slice.value == 0 and isinstance(d.value, ast.Call):
                    c_ = d.value
                    if call_name(c_) in ("os.path.splitext", "splitext") and len(c_.args) == 1 and src(c_.args[0]) == var:
                        return simple_ext
                    if call_attr(c_) == "rsplit" and src(c_.func.value) == var and [src(a) for a in c_.args] == ["'.'", "1"]:
                        return simple_ext
                    if call_attr(c_) == "rpartition" and src(c_.func.value) == var and [src(a) for a in c_.args] == ["'.'"]:
                        return simple_ext
                if isinstance(d, ast.Subscript) and isinstance(d.slice, ast.Constant) and d.slice.value == 0 and isinstance(d.value, ast.Call) and \
                        call_attr(d.value) in ("split", "partition") and src(d.value.func.value) == var and [src(a) for a in d.value.args][:1] == ["'.'"]:
                    return False                  # cuts at the FIRST dot of the whole path, not at the suffix
                if isinstance(d, ast.Call) and call_attr(d) == "removesuffix" and src(d.func.value) == var and len(d.args) == 1:
                    try:
                        return const_eval(d.args[0]) == ext
                    except NotConst:
                        return None
                return None
            for k, v in local_defs(ln.ast, track_mutation=False).items():
                for d in v:
                    r_ = strips_suffix(d) if d is not None else None
                    if r_ is True:
                        target = k
                    elif r_ is False:
                        wrong = k
            if target is None and wrong is None:
                raise AnalysisError(f"recovery of *{ext}: how the target name is derived from the file name is not read")
            ctx.check(target is not None, "recovery/strips-exact-suffix", where,
                      f"the target of a replacement is not the file name minus exactly {len(ext)} characters: the replacement is renamed to a wrong key")
            if target is None:
                continue
            exists = lambda e: src(e) in (f"os.path.exists({target})", f"os.path.isfile({target})", f"os.path.lexists({target})")
            okr = len(rms) == 1 and src(rms[0][1].args[0]) == var and gi.guarded(rms[0][0], exists, True)
            ctx.check(okr, "recovery/replacement-dropped-iff-target-exists", where,
                      "an interrupted replacement is not deleted exactly when the old entry still exists (the possibly partial .rpl would overwrite "
                      "a complete old value, or a complete replacement whose target is gone is deleted: value lost)")
            okn = len(rns) == 1 and [src(a) for a in rns[0][1].args] == [var, target] and gi.guarded(rns[0][0], exists, False)
            ctx.check(okn, "recovery/replacement-completed-iff-target-gone", where,
                      "a replacement whose old entry was already removed is not renamed (file, target) into place")
    ctx.floor("recovery", len(handled), 1, "recovery loops")



def _s_encoding(ctx, S):
    writer_exts = _writer_exts(ctx)
    # ---- key encoding ---------------------------------------------------------------------------------------
    fe = ctx.func(DB, "DirDBM._encode")
    fd = ctx.func(DB, "DirDBM._decode")
    ce = replace_chain(fe)
    cd = replace_chain(fd)
    # an _encode without any replace() is judged like any other: its alphabet then still contains "/" and newline
    ctx.check("encodebytes" in src(fe) or "b64encode" in src(fe), "encoding/base64", Q + "._encode", "keys are not base64-encoded")
    # domain argument: base64.encodebytes only ever emits the 64 alphabet characters, '=' and newline (B64), and every replace() of the chain has a ONE-byte
    # pattern, so the chain acts on each output byte independently: evaluating it on each of the 66 bytes is exhaustive for every key.
    bytewise = all(isinstance(o, bytes) and len(o) == 1 and isinstance(n, bytes) for o, n in ce)
    if ce and not bytewise:
        raise AnalysisError("_encode replaces multi-byte patterns: the per-byte evaluation of its alphabet is not exhaustive")
    why = "finite-exhaustive: all 66 bytes base64.encodebytes can emit; the replace chain has one-byte patterns only, so it acts byte-wise"
    out = set()
    img = {}
    for b in B64:
        v = bytes([b])
        for o, n in ce:
            v = v.replace(o, n)
        img[b] = v
        out |= set(v)
    bad = [chr(c) for c in (ord("."), ord("/"), ord("\n"), 0, ord("*"), ord("?"), ord("[")) if c in out]
    ctx.check(not bad, "encoding/filename-safe-alphabet", Q + "._encode",
              f"an encoded key can contain {bad}: an entry can be mistaken for a temporary (.rpl/.new), leave the directory, or confuse glob", detail=why)
    ctx.check(len(set(img.values())) == len(img), "encoding/injective", Q + "._encode", "two different base64 characters are encoded to the same file-name character", detail=why)
    ctx.check(sorted(cd) == sorted((n, o) for o, n in ce), "encoding/decode-inverts-encode", Q + "._decode", f"_decode {cd} does not invert _encode {ce}")
    ctx.check(bytes([10]) in [o for o, n in ce] and all(e.encode()[-1] not in set(img[10]) for e in writer_exts if isinstance(e, str)), "encoding/temporaries-distinguishable",
              Q + "._encode", "an encoded name (always ending in the image of the final newline) can end like a temporary suffix")



def _s_who(ctx, S):
    cls = ctx.cls(DB, "DirDBM")
    # ---- who may mutate the directory ---------------------------------------------------------------------------
    nsites = 0
    for name, m in methods(cls).items():
        for c in ast.walk(m):
            if not isinstance(c, ast.Call):
                continue
            nm = call_attr(c)
            recv = src(c.func.value) if isinstance(c.func, ast.Attribute) else ""
            lowlevel = (nm in ("remove", "moveTo", "rename", "unlink", "setContent", "_writeFile", "rmtree") or
                        (nm in ("copyTo", "linkTo", "touch", "create", "copy", "copy2", "copyfile", "copytree", "move", "replace", "renames", "removedirs") and
                         recv not in ("self", "") and (recv.split(".")[0] in ("self", "os", "shutil") or "_dnamePath" in recv or ".child(" in recv)) or
                        (call_name(c) in ("_open", "open") and len(c.args) >= 2 and any(ch in src(c.args[1]) for ch in "wa+")))
            if lowlevel:
                nsites += 1
                ctx.check(name in ("__init__", "__setitem__", "__delitem__", "_writeFile"), "who-may-mutate/directory", ctx.construct(f"{Q}.{name}", c),
                          f"{name} changes files of the database directly (bypassing the write-temporary-then-rename protocol)")
    ctx.floor("who-may-mutate/directory", nsites, 6, "filesystem-mutating call sites")
    # bulk operations store every value through the item protocol of the destination (so each entry gets the temporary + rename treatment)
    for mname, dest in (("copyTo", None), ("update", "self"), ("setdefault", "self")):
        fm = ctx.func(DB, "DirDBM." + mname)
        stores = [n for n in ast.walk(fm) if isinstance(n, ast.Assign) and any(isinstance(t, ast.Subscript) and isinstance(t.value, ast.Name) for t in n.targets)]
        okb = bool(stores)
        if okb and mname == "copyTo":
            d_ = next(t.value.id for n in stores for t in n.targets if isinstance(t, ast.Subscript) and isinstance(t.value, ast.Name))
            dd = [v for v in local_defs(fm, track_mutation=False).get(d_, []) if v is not None]
            okb = bool(dd) and all(isinstance(v, ast.Call) and ("__class__" in src(v.func) or call_attr(v) in ("DirDBM", "Shelf")) for v in dd) and \
                any(isinstance(n.value, ast.Subscript) and src(n.value.value) == "self" for n in stores)
        elif okb:
            okb = any(src(t.value) == dest for n in stores for t in n.targets if isinstance(t, ast.Subscript))
        ctx.check(okb, "bulk/through-item-protocol", f"{Q}.{mname}",
                  f"{mname} does not store its values through `<dirdbm>[key] = value`: entries are written under their final names without the temporary + rename "
                  f"protocol, so a crash leaves a partial value visible as data")
    fdl = ctx.func(DB, "DirDBM.__delitem__")
    rm = [c for c in ast.walk(fdl) if isinstance(c, ast.Call) and call_attr(c) in MUTATORS]
    ctx.check(len(rm) == 1 and call_attr(rm[0]) == "remove" and "self._dnamePath.child(" in rsrc(rm[0].func.value, local_defs(fdl, track_mutation=False)), "delitem/single-atomic-remove", Q + ".__delitem__",
              "deletion is not a single remove() of the entry's file")
    sh = ctx.func(DB, "Shelf.__setitem__")
    ctx.check(any(isinstance(c, ast.Call) and call_name(c) == "DirDBM.__setitem__" for c in ast.walk(sh)) and
              not any(isinstance(c, ast.Call) and call_attr(c) in MUTATORS for c in ast.walk(sh)), "who-may-mutate/directory", "twisted.persisted.dirdbm.Shelf.__setitem__",
              "Shelf.__setitem__ does not go through DirDBM.__setitem__")


def _s_body(ctx, S):
    body_always_entered(ctx, DB, ["DirDBM.__init__", "DirDBM.__setitem__", "DirDBM.__delitem__", "DirDBM._writeFile", "DirDBM._encode", "Shelf.__setitem__"],
                        "anchor/body-entered-on-every-call", "twisted.persisted.dirdbm",
                        "the write-temporary-then-rename protocol and the recovery live in this body; a wrapper that answers without running it skips them")


def check(ctx):
    normalise(ctx, {DB: ["_encode", "_decode", "_readFile", "_writeFile", "_open"]})
    run_sections(ctx, [("setitem", _s_setitem), ("writeFile", _s_writefile), ("recovery", _s_recovery), ("encoding", _s_encoding), ("who-may-mutate", _s_who),
                       ("body-entered", _s_body)])


MUTANTS = [
    Mutant("write-directly-to-old", DB, "            self._writeFile(new, v)\n        except BaseException:", "            self._writeFile(old, v)\n        except BaseException:",
           expect_rule="setitem/write-only-to-temporary"),
    Mutant("remove-old-before-writing", DB, "        try:\n            self._writeFile(new, v)\n        except BaseException:\n            new.remove()\n            raise\n        else:\n            if old.exists():\n                old.remove()\n            new.moveTo(old)",
           "        if old.exists():\n            old.remove()\n        try:\n            self._writeFile(new, v)\n        except BaseException:\n            new.remove()\n            raise\n        else:\n            new.moveTo(old)",
           expect_rule="setitem/old-destroyed-only-after-write"),
    Mutant("drop-rpl-recovery", DB,
           "            replacements = glob.glob(self._dnamePath.child(\"*.rpl\").path)\n            for f in replacements:\n                old = f[:-4]\n                if os.path.exists(old):\n                    os.remove(f)\n                else:\n                    os.rename(f, old)\n",
           "", expect_rule="recovery/suffixes-agree-with-writer"),
    Mutant("recovery-remove-rename-swapped", DB, "                if os.path.exists(old):\n                    os.remove(f)\n                else:\n                    os.rename(f, old)",
           "                if os.path.exists(old):\n                    os.rename(f, old)\n                else:\n                    os.remove(f)", expect_rule="recovery/replacement-"),
    Mutant("always-new-suffix", DB, "        if old.exists():\n            new = old.siblingExtension(\".rpl\")  # Replacement entry\n        else:\n            new = old.siblingExtension(\".new\")  # New entry\n",
           "        new = old.siblingExtension(\".new\")  # New entry\n", expect_rule="setitem/suffix-matches-existence"),
    Mutant("handler-narrowed", DB, "            self._writeFile(new, v)\n        except BaseException:\n            new.remove()", "            self._writeFile(new, v)\n        except Exception:\n            new.remove()",
           expect_rule="setitem/failed-write-cleaned-up"),
    Mutant("suffix-slice-off-by-one", DB, "                old = f[:-4]", "                old = f[:-3]", expect_rule="recovery/strips-exact-suffix"),
    Mutant("encode-keeps-slash", DB, "return base64.encodebytes(k).replace(b\"\\n\", b\"_\").replace(b\"/\", b\"-\")", "return base64.encodebytes(k).replace(b\"\\n\", b\"_\")",
           expect_rule="encoding/"),
    Mutant("encode-newline-as-dot", DB, "return base64.encodebytes(k).replace(b\"\\n\", b\"_\").replace(b\"/\", b\"-\")", "return base64.encodebytes(k).replace(b\"\\n\", b\".\").replace(b\"/\", b\"-\")",
           expect_rule="encoding/filename-safe-alphabet"),
    Mutant("move-inside-try", DB, "        try:\n            self._writeFile(new, v)\n        except BaseException:\n            new.remove()\n            raise\n        else:\n            if old.exists():\n                old.remove()\n            new.moveTo(old)",
           "        try:\n            if old.exists():\n                old.remove()\n            self._writeFile(new, v)\n            new.moveTo(old)\n        except BaseException:\n            new.remove()\n            raise",
           expect_rule="setitem/old-destroyed-only-after-write"),
    Mutant("copyTo-copies-files-directly", DB, "        for k in self.keys():\n            d[k] = self[k]\n        return d", "        for name in self._dnamePath.listdir():\n            self._dnamePath.child(name).copyTo(d._dnamePath.child(name))\n        return d",
           expect_rule="who-may-mutate/directory"),
    Mutant("writeFile-unbuffered", DB, "        with _open(path.path, \"wb\") as f:\n            f.write(data)", "        with _open(path.path, \"wb\", 0) as f:\n            f.write(data)",
           expect_rule="writefile/buffered-handle"),
    Mutant("flag-set-before-the-write", DB, "        try:\n            self._writeFile(new, v)\n        except BaseException:\n            new.remove()\n            raise\n        else:\n            if old.exists():\n                old.remove()\n            new.moveTo(old)",
           "        done = True\n        try:\n            self._writeFile(new, v)\n        finally:\n            if not done:\n                new.remove()\n        if old.exists():\n            old.remove()\n        new.moveTo(old)",
           expect_rule="setitem/failed-write-cleaned-up"),
    Mutant("recovery-target-by-first-dot", DB, "                old = f[:-4]\n", "                old = f.split(\".\")[0]\n"),
    Mutant("new-recovery-renames", DB, "            for f in glob.glob(self._dnamePath.child(\"*.new\").path):\n                os.remove(f)", "            for f in glob.glob(self._dnamePath.child(\"*.new\").path):\n                os.rename(f, f[:-4])",
           expect_rule="recovery/new-deleted"),
]
SILENT = [
    Silent("rename-temporary", DB, "        if old.exists():\n            new = old.siblingExtension(\".rpl\")  # Replacement entry\n        else:\n            new = old.siblingExtension(\".new\")  # New entry\n        try:\n            self._writeFile(new, v)\n        except BaseException:\n            new.remove()\n            raise\n        else:\n            if old.exists():\n                old.remove()\n            new.moveTo(old)",
           "        if old.exists():\n            tmp = old.siblingExtension(\".rpl\")\n        else:\n            tmp = old.siblingExtension(\".new\")\n        try:\n            self._writeFile(tmp, v)\n        except BaseException:\n            tmp.remove()\n            raise\n        else:\n            if old.exists():\n                old.remove()\n            tmp.moveTo(old)"),
    Silent("suffix-branches-inverted", DB, "        if old.exists():\n            new = old.siblingExtension(\".rpl\")  # Replacement entry\n        else:\n            new = old.siblingExtension(\".new\")  # New entry\n",
           "        if not old.exists():\n            new = old.siblingExtension(\".new\")\n        else:\n            new = old.siblingExtension(\".rpl\")\n"),
    Silent("bare-except", DB, "            self._writeFile(new, v)\n        except BaseException:\n            new.remove()", "            self._writeFile(new, v)\n        except:\n            new.remove()"),
    Silent("recovery-branches-inverted", DB, "                if os.path.exists(old):\n                    os.remove(f)\n                else:\n                    os.rename(f, old)",
           "                if not os.path.exists(old):\n                    os.rename(f, old)\n                else:\n                    os.remove(f)"),
    Silent("suffix-chosen-by-conditional-expression", DB, "        if old.exists():\n            new = old.siblingExtension(\".rpl\")  # Replacement entry\n        else:\n            new = old.siblingExtension(\".new\")  # New entry\n",
           "        suffix = \".new\" if not old.exists() else \".rpl\"\n        new = old.siblingExtension(suffix)\n"),
    Silent("recovery-in-private-helpers", DB, "            for f in glob.glob(self._dnamePath.child(\"*.new\").path):\n                os.remove(f)\n", "            self._dropHalfWritten()\n",
           more=[(DB, "    def _encode(self, k):", "    def _dropHalfWritten(self):\n        pattern = self._dnamePath.child(\"*\" + _TMP_NEW).path\n        for leftover in glob.glob(pattern):\n            os.remove(leftover)\n\n    def _encode(self, k):"),
                 (DB, "class DirDBM:\n", "_TMP_NEW = \".new\"\n\n\nclass DirDBM:\n")]),
    Silent("encode-table-driven", DB, "        return base64.encodebytes(k).replace(b\"\\n\", b\"_\").replace(b\"/\", b\"-\")",
           "        out = base64.encodebytes(k)\n        for bad, good in ((b\"\\n\", b\"_\"), (b\"/\", b\"-\")):\n            out = out.replace(bad, good)\n        return out"),
    Silent("write-failure-handled-by-flag-and-finally", DB, "        try:\n            self._writeFile(new, v)\n        except BaseException:\n            new.remove()\n            raise\n        else:\n            if old.exists():\n                old.remove()\n            new.moveTo(old)",
           "        done = False\n        try:\n            self._writeFile(new, v)\n            done = True\n        finally:\n            if not done:\n                new.remove()\n        if old.exists():\n            old.remove()\n        new.moveTo(old)"),
    Silent("recovery-target-by-splitext", DB, "                old = f[:-4]\n", "                old, _ext = os.path.splitext(f)\n"),
    Silent("recovery-loops-reordered", DB, "            for f in glob.glob(self._dnamePath.child(\"*.new\").path):\n                os.remove(f)\n            replacements = glob.glob(self._dnamePath.child(\"*.rpl\").path)\n            for f in replacements:\n                old = f[:-4]\n                if os.path.exists(old):\n                    os.remove(f)\n                else:\n                    os.rename(f, old)\n",
           "            replacements = glob.glob(self._dnamePath.child(\"*.rpl\").path)\n            for f in replacements:\n                old = f[:-4]\n                if os.path.exists(old):\n                    os.remove(f)\n                else:\n                    os.rename(f, old)\n            for stale in glob.glob(self._dnamePath.child(\"*.new\").path):\n                os.remove(stale)\n"),
]
