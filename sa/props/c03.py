"""C03 - A Deferred delivers one result; cancellation follows its protocol."""
from __future__ import annotations

import ast

from sa.astx import assigned_targets, call_name, dotted, find_calls, src, statements, walk_local
from sa.effects import class_accesses
from sa.props._lib_a import Inliner, clone, inlined_func, real_func, root_callers
from sa.selftest import Mutant, Silent

PROPERTY = "C03"
DEFER = "internet/defer.py"
EXPLANATION = (
    "Decides, on the CFG of Deferred._startRunCallbacks / cancel / callback / errback: (a) result/called are written "
    "only on the not-called branch and the called branch either swallows exactly one result (guarded by "
    "_suppressAlreadyCalled, which is reset there) or raises AlreadyCalledError; (b) _suppressAlreadyCalled is set True "
    "only in cancel() on the no-canceller branch; (c) the canceller is invoked only in cancel(), under 'not self.called', "
    "and is disarmed (_canceller = None) when the Deferred fires; (d) after the canceller, every path - the one where the "
    "canceller raises included - either finds the Deferred fired or errbacks CancelledError; (e) a fired Deferred waiting "
    "on another forwards cancel(). Not decided: behaviours of user cancellers (value flow), full history enumeration."
)
ASSUMPTIONS = ["self.called is written only by _startRunCallbacks (checked: who-may-write rule)"]
# every rule of this module is decided on the CFG / def-use shape of the code; nothing is evaluated
RULE_KINDS = {"*": "structural"}


def _is_self_attr(node, name):
    return isinstance(node, ast.Attribute) and node.attr == name and isinstance(node.value, ast.Name) and node.value.id == "self"


def _test_is(expr, text):
    return src(expr) == text


def _split_default_callee(f):
    """`c = A or _default` followed by the one call `c(args)` is read as `c = A` / `if c: c(args)` / `else: _default(args)`:
    `A or B` yields A exactly when A is truthy, so this is the same evaluation, in the shape the branch rules ask about
    (the canceller is called on the truthy branch, the fallback runs when there is none).  Returns the rewritten clone, or
    None when the idiom does not occur (or the local has another use, in which case nothing is rewritten)."""
    g = clone(f)
    done = []

    def visit(stmts):
        for i, st in enumerate(stmts):
            if (isinstance(st, ast.Assign) and len(st.targets) == 1 and isinstance(st.targets[0], ast.Name)
                    and isinstance(st.value, ast.BoolOp) and isinstance(st.value.op, ast.Or) and len(st.value.values) == 2
                    and isinstance(st.value.values[1], ast.Name)):
                local, first, fallback = st.targets[0].id, st.value.values[0], st.value.values[1]
                uses = [x for x in ast.walk(g) if isinstance(x, ast.Name) and x.id == local]
                nxt = stmts[i + 1] if i + 1 < len(stmts) else None
                if (len(uses) == 2 and isinstance(nxt, ast.Expr) and isinstance(nxt.value, ast.Call)
                        and isinstance(nxt.value.func, ast.Name) and nxt.value.func.id == local):
                    call = nxt.value
                    other = clone(call)
                    other.func = ast.copy_location(ast.Name(id=fallback.id, ctx=ast.Load()), call.func)
                    stmts[i] = ast.copy_location(ast.Assign(targets=st.targets, value=first), st)
                    stmts[i + 1] = ast.copy_location(ast.If(
                        test=ast.copy_location(ast.Name(id=local, ctx=ast.Load()), st),
                        body=[nxt], orelse=[ast.copy_location(ast.Expr(value=other), nxt)]), nxt)
                    done.append(fallback.id)
            for fld in ("body", "orelse", "finalbody"):
                sub = getattr(stmts[i], fld, None)
                if isinstance(sub, list) and sub and isinstance(sub[0], ast.stmt):
                    visit(sub)
            for h in getattr(stmts[i], "handlers", []) or []:
                visit(h.body)

    visit(g.body)
    if not done:
        return None
    ast.fix_missing_locations(g)
    return g, done


def _cancel_func(ctx):
    """Deferred.cancel with private helpers inlined; the default-callee idiom is split into its two branches first"""
    split = _split_default_callee(real_func(ctx, DEFER, "Deferred.cancel"))
    if split is None:
        return inlined_func(ctx, DEFER, "Deferred.cancel")
    g, names = split
    inl = Inliner(ctx.mod(DEFER))
    out = inl.function(g)
    ctx.note(f"Deferred.cancel: `c = self._canceller or {names[0]}; c(...)` read as if/else on the canceller; "
             f"private helpers read as if inlined: {', '.join(sorted(set(inl.inlined))) or '-'}")
    return out


def check(ctx):
    mod = ctx.mod(DEFER)
    cls = ctx.cls(DEFER, "Deferred")

    # ---- (a) _startRunCallbacks ---------------------------------------------------------
    ctx.func(DEFER, "Deferred._startRunCallbacks")
    f = inlined_func(ctx, DEFER, "Deferred._startRunCallbacks")
    g = ctx.cfg(f)
    q = "twisted.internet.defer.Deferred._startRunCallbacks"
    writes = [n for n in g.ids(lambda n: n.kind == "stmt" and isinstance(n.ast, ast.Assign)
                               and any(_is_self_attr(t, "result") or _is_self_attr(t, "called") for t in n.ast.targets))]
    ctx.check(len(writes) >= 2, "fire-once/writes-present", q,
              "self.called = True and self.result = result are not both assigned in _startRunCallbacks")
    for w in writes:
        ok = g.guarded(w, lambda e: _test_is(e, "self.called"), False)
        ctx.check(ok, "fire-once/guard", ctx.construct(q, g.node(w).ast),
                  "result/called is overwritten even when the Deferred has already been called (second result accepted)",
                  witness=g.describe(g.path([g.entry], [w])))
    # the _runCallbacks() call must be under the same guard and after the writes
    runs = g.find(lambda x: isinstance(x, ast.Call) and call_name(x) == "self._runCallbacks")
    ctx.check(bool(runs), "fire-once/runs-callbacks", q, "_startRunCallbacks never reaches self._runCallbacks()")
    for r in runs:
        ctx.check(g.guarded(r, lambda e: _test_is(e, "self.called"), False), "fire-once/guard",
                  ctx.construct(q, g.node(r).ast), "callbacks are run again for an already-called Deferred")
        w = g.must_precede(writes, [r])
        ctx.check(w is None, "fire-once/result-before-run", ctx.construct(q, g.node(r).ast),
                  "callbacks can run before result/called are stored", witness=g.describe(w))
    # called branch: every normal (non-raising) exit under `self.called` true is dominated by the suppress flag and resets it
    called_tests = g.ids(lambda n: n.kind == "test" and _test_is(n.ast, "self.called"))
    ctx.need(called_tests, "test `if self.called` in _startRunCallbacks")
    true_succ = [d for t in called_tests for d, l in g.succ[t] if l == "T"]
    resets = g.ids(lambda n: n.kind == "stmt" and isinstance(n.ast, ast.Assign) and any(_is_self_attr(t, "_suppressAlreadyCalled") for t in n.ast.targets)
                   and isinstance(n.ast.value, ast.Constant) and n.ast.value.value is False)
    # any path from the true-branch to a normal exit must pass a reset which is guarded by the flag being true
    wit = g.must_pass(true_succ, resets, exc=False, strict=False)
    ctx.check(wit is None, "already-called/raises-unless-suppressed", q,
              "a second callback/errback on a called Deferred can return normally without consuming the one-shot suppression "
              "(AlreadyCalledError not raised)", witness=g.describe(wit))
    for r in resets:
        ctx.check(g.guarded(r, lambda e: _test_is(e, "self._suppressAlreadyCalled"), True) and g.guarded(r, lambda e: _test_is(e, "self.called"), True),
                  "already-called/suppress-once", ctx.construct(q, g.node(r).ast),
                  "the suppression flag is reset outside the branch that consumes it")
    for r in resets:
        pth = g.path([r], [g.exit], edge_ok=lambda a, b, l: l != "exc")
        ctx.check(pth is not None, "already-called/suppressed-result-ignored", ctx.construct(q, g.node(r).ast),
                  "after consuming the one-shot suppression the late result is not silently ignored (no normal return: "
                  "AlreadyCalledError is raised although cancel() without a canceller promised to swallow one result)")
    ctx.check(bool(resets), "already-called/suppress-once", q + " | reset of _suppressAlreadyCalled",
              "the one-shot suppression flag is never reset: every later result would be swallowed, not exactly one")
    # there must be a raise AlreadyCalledError reachable on the called branch
    # every explicit raise of this function plays the role "second result refused" (the exception may be built by a helper)
    raises = g.ids(lambda n: n.kind == "stmt" and isinstance(n.ast, ast.Raise))
    ctx.check(bool(raises) and all(g.guarded(r, lambda e: _test_is(e, "self.called"), True) for r in raises),
              "already-called/raise", q, "AlreadyCalledError is not raised (only) on the already-called branch")
    # ... and only once the one-shot suppression has been ruled out: a raise reachable while the flag is still
    # set (e.g. a debug-mode branch placed before the flag test) turns the promised silent ignore into an error
    for r in raises:
        ctx.check(g.guarded(r, lambda e: _test_is(e, "self._suppressAlreadyCalled"), False),
                  "already-called/raise-only-when-not-suppressed", ctx.construct(q, g.node(r).ast),
                  "AlreadyCalledError can be raised while _suppressAlreadyCalled is still set (after cancel() without a canceller the "
                  "one late result must be silently ignored on every path, e.g. also with Deferred debugging enabled)",
                  witness=g.describe(g.path([g.entry], [r])))
    # canceller disarmed on firing
    disarm = g.ids(lambda n: n.kind == "stmt" and isinstance(n.ast, ast.Assign) and any(_is_self_attr(t, "_canceller") for t in n.ast.targets)
                   and isinstance(n.ast.value, ast.Constant) and n.ast.value.value is None)
    wit = g.must_pass(writes[:1], disarm, exc=False) if writes else None
    ctx.check(bool(disarm) and wit is None, "canceller/disarmed-on-fire", q,
              "_canceller stays armed after the Deferred fired (it could be called later)", witness=g.describe(wit))

    # ---- (b) who may write called / _suppressAlreadyCalled / _canceller ------------------------
    acc = class_accesses(mod, cls, {"called", "_suppressAlreadyCalled", "_canceller", "result"}, receivers={"self"})
    def via(a, allowed):
        # a write inside a private helper is judged by the functions it is reached from
        return all(r in allowed for r in root_callers(mod, a.func))

    for a in acc:
        if a.attr == "called":
            ctx.check(via(a, ("Deferred._startRunCallbacks",)), "who-may-write/called", ctx.construct(a.func, a.node),
                      "self.called written outside _startRunCallbacks")
        elif a.attr == "_suppressAlreadyCalled":
            v = getattr(a.node, "value", None)
            if isinstance(v, ast.Constant) and v.value is True:
                ctx.check(via(a, ("Deferred.cancel",)), "who-may-write/suppress-flag", ctx.construct(a.func, a.node),
                          "_suppressAlreadyCalled armed outside cancel(): a result would be silently dropped")
            else:
                ctx.check(via(a, ("Deferred._startRunCallbacks", "Deferred.__init__")), "who-may-write/suppress-flag",
                          ctx.construct(a.func, a.node), "_suppressAlreadyCalled written in an unexpected place")
        elif a.attr == "_canceller":
            ctx.check(via(a, ("Deferred.__init__", "Deferred._startRunCallbacks")), "who-may-write/canceller",
                      ctx.construct(a.func, a.node), "_canceller written in an unexpected place")
    ctx.floor("who-may-write", len(acc), 5)

    # ---- (c,d,e) cancel -----------------------------------------------------------------------
    ctx.func(DEFER, "Deferred.cancel")
    f = _cancel_func(ctx)
    g = ctx.cfg(f)
    q = "twisted.internet.defer.Deferred.cancel"
    # canceller call sites: calls whose callee is a local bound from self._canceller, or self._canceller(...)
    aliases = {t.id for st in statements(f) if isinstance(st, ast.Assign) and _is_self_attr(st.value, "_canceller")
               for t in st.targets if isinstance(t, ast.Name)}
    # a local is a faithful stand-in for self._canceller in a TEST only if it is never given another value: a name that is
    # also assigned None / something else (e.g. in an exception handler) says nothing about whether a canceller existed
    def _pure(n):
        stores = sum(1 for x in ast.walk(f) if isinstance(x, ast.Name) and x.id == n and isinstance(x.ctx, (ast.Store, ast.Del)))
        from_attr = sum(1 for st in statements(f) if isinstance(st, ast.Assign) and _is_self_attr(st.value, "_canceller")
                        for t in st.targets if isinstance(t, ast.Name) and t.id == n)
        return stores == from_attr
    pure_aliases = {n for n in aliases if _pure(n)}

    def is_canceller_call(x):
        return isinstance(x, ast.Call) and ((isinstance(x.func, ast.Name) and x.func.id in aliases) or _is_self_attr(x.func, "_canceller"))
    csites = g.find(is_canceller_call)
    ctx.check(len(csites) == 1, "cancel/canceller-called-once", q,
              f"cancel() contains {len(csites)} canceller call sites (must be exactly one)")
    for c in csites:
        ctx.check(g.guarded(c, lambda e: _test_is(e, "self.called"), False), "cancel/canceller-only-if-unfired",
                  ctx.construct(q, g.node(c).ast), "the canceller is invoked on an already fired Deferred")
        # canceller(self): argument is the Deferred itself
        call = next(x for x in walk_local(g.node(c).ast) if is_canceller_call(x))
        ctx.check(len(call.args) == 1 and src(call.args[0]) == "self", "cancel/canceller-arg", ctx.construct(q, call),
                  "the canceller is not called with the Deferred being cancelled")
    # the only canceller call in the whole class is in cancel()
    for name, m in ((n.name, n) for n in cls.body if isinstance(n, (ast.FunctionDef, ast.AsyncFunctionDef))):
        if name == "cancel":
            continue
        bad = [x for x in ast.walk(m) if isinstance(x, ast.Call) and _is_self_attr(x.func, "_canceller")]
        ctx.check(not bad, "cancel/canceller-called-once", f"twisted.internet.defer.Deferred.{name}",
                  "the canceller is also invoked outside cancel()")
    # suppress flag armed only on the no-canceller branch
    arm = g.ids(lambda n: n.kind == "stmt" and isinstance(n.ast, ast.Assign) and any(_is_self_attr(t, "_suppressAlreadyCalled") for t in n.ast.targets))
    ctx.check(bool(arm), "cancel/suppress-armed", q, "cancel() without a canceller no longer arranges to swallow the later result")
    for a in arm:
        has_canceller_false = any((lab == "F") and (src(g.node(t).ast) in pure_aliases or src(g.node(t).ast) == "self._canceller")
                                  for t, lab in g.edge_guards(a))
        ctx.check(has_canceller_false and g.guarded(a, lambda e: _test_is(e, "self.called"), False), "cancel/suppress-only-without-canceller",
                  ctx.construct(q, g.node(a).ast), "the suppression flag is armed although a canceller exists (its result would be dropped)")
    # errback(CancelledError) dominated by a `not self.called` test that comes after the canceller call
    errs = g.find(lambda x: isinstance(x, ast.Call) and call_name(x) == "self.errback" and "CancelledError" in src(x))
    ctx.check(bool(errs), "cancel/errbacks-cancelled", q, "cancel() never errbacks with CancelledError")
    for e in errs:
        tests = [t for t, lab in g.edge_guards(e) if lab == "F" and _test_is(g.node(t).ast, "self.called")]
        late = [t for t in tests if csites and all(g.path([c], [t], edge_ok=lambda a, b, l: l != "exc") for c in csites)]
        ctx.check(bool(late), "cancel/recheck-after-canceller", ctx.construct(q, g.node(e).ast),
                  "CancelledError errback is not protected by a second `not self.called` test after the canceller ran "
                  "(a canceller that fires the Deferred would cause AlreadyCalledError)")
    # (d) K2 with exception edges: from the canceller call every path to any exit passes a `self.called` re-test or the errback
    retests = [t for t in g.ids(lambda n: n.kind == "test" and _test_is(n.ast, "self.called")) if csites and any(g.path([c], [t], strict=True) for c in csites)]
    for c in csites:
        wit = g.must_pass([c], set(retests) | set(errs), exc=False)
        ctx.check(wit is None, "cancel/outcome-after-canceller", q + " | <canceller call-out>",
                  "after the canceller returns, cancel() can exit without checking whether the Deferred fired / errbacking CancelledError",
                  witness=g.describe(wit))
        wit = g.must_pass([c], set(retests) | set(errs), exc=True)
        ctx.check(wit is None, "cancel/outcome-after-raising-canceller", q + " | <canceller call-out>",
                  "a canceller that raises leaves cancel() with the Deferred unfired and the canceller still armed: nothing is "
                  "errbacked and a second cancel() calls the canceller again",
                  witness=g.describe(wit))
    # (e) forwarding
    fw = g.find(lambda x: isinstance(x, ast.Call) and call_name(x) == "self.result.cancel")
    ctx.check(bool(fw), "cancel/forward-to-awaited", q, "cancel() on a fired Deferred waiting on another no longer cancels that Deferred")
    for n in fw:
        ok = g.guarded(n, lambda e: _test_is(e, "self.called"), True) and g.guarded(n, lambda e: src(e).startswith("isinstance(self.result, Deferred"), True)
        ctx.check(ok, "cancel/forward-to-awaited", ctx.construct(q, g.node(n).ast),
                  "forwarding of cancel() is not confined to 'fired and result is a Deferred'")
        # ... and it must happen WHENEVER the Deferred has fired and waits on another one: any further
        # dominating condition (e.g. on the awaited Deferred's own state) drops cancellations that the
        # awaited Deferred would itself forward down a longer chain.
        extra = [(src(g.node(t).ast), lab) for t, lab in g.edge_guards(n)
                 if not (_test_is(g.node(t).ast, "self.called") or src(g.node(t).ast).startswith("isinstance(self.result, "))]
        ctx.check(not extra, "cancel/forward-unconditional", q + " | <forward to awaited Deferred>",
                  "cancel() on a fired Deferred waiting on another Deferred is forwarded only under an extra condition "
                  f"{extra}: a chain outer -> fired middle -> unfired leaf is no longer cancelled")

    # ---- callback / errback reach _startRunCallbacks on every path --------------------------------
    for name in ("callback", "errback"):
        ctx.func(DEFER, f"Deferred.{name}")
        f = inlined_func(ctx, DEFER, f"Deferred.{name}")
        g = ctx.cfg(f)
        q = f"twisted.internet.defer.Deferred.{name}"
        starts = g.find(lambda x: isinstance(x, ast.Call) and call_name(x) == "self._startRunCallbacks")
        wit = g.must_pass([g.entry], starts, exc=False)
        ctx.check(bool(starts) and wit is None, "fire/reaches-start", q,
                  f"{name}() can return normally without delivering the result", witness=g.describe(wit))


MUTANTS = [
    Mutant("drop-suppress-reset", DEFER, "                self._suppressAlreadyCalled = False\n                return\n",
           "                return\n"),
    Mutant("suppress-with-canceller", DEFER, "            if canceller:\n                canceller(self)\n            else:\n",
           "            if canceller:\n                canceller(self)\n            if True:\n"),
    Mutant("drop-second-called-test", DEFER, "            if not self.called:\n                # There was no canceller, or the canceller didn't call\n                # callback or errback.\n                self.errback(Failure(CancelledError()))",
           "            if True:\n                self.errback(Failure(CancelledError()))"),
    Mutant("keep-canceller-armed", DEFER, "        self._canceller = None\n\n        self.result = result\n", "        self.result = result\n"),
    Mutant("called-set-after-run", DEFER, "        self.called = True\n\n        # Clear the canceller", "        # Clear the canceller",
           more=[(DEFER, "        self.result = result\n        self._runCallbacks()\n", "        self.result = result\n        self._runCallbacks()\n        self.called = True\n")]),
]
MUTANTS += [
    Mutant("debug-branch-raises-before-suppress-test", DEFER, "        if self.called:\n            if self._suppressAlreadyCalled:\n                self._suppressAlreadyCalled = False\n                return\n            if self.debug:\n",
           "        if self.called:\n            if self.debug and self._debugInfo is not None:\n                raise AlreadyCalledError(self._debugInfo._getDebugTracebacks())\n            if self._suppressAlreadyCalled:\n                self._suppressAlreadyCalled = False\n                return\n            if self.debug:\n",
           expect_rule="already-called/raise-only-when-not-suppressed"),
    Mutant("suppressed-result-still-raises", DEFER, "                self._suppressAlreadyCalled = False\n                return\n",
           "                self._suppressAlreadyCalled = False\n", expect_rule="already-called/suppressed-result-ignored"),
    Mutant("forward-only-if-awaited-unfired", DEFER, "        elif isinstance(self.result, Deferred):\n            # Waiting for another deferred -- cancel it instead.\n",
           "        elif isinstance(self.result, Deferred) and not self.result.called:\n            # Waiting for another deferred -- cancel it instead.\n", expect_rule="cancel/forward-unconditional"),
    Mutant("swap-canceller-out-before-calling", DEFER, "            canceller = self._canceller\n            if canceller:\n",
           "            canceller, self._canceller = self._canceller, None\n            if canceller:\n"),
    Mutant("errback-not-reaching-start", DEFER, "        self._startRunCallbacks(fail)\n", "        if not self.called:\n            self._startRunCallbacks(fail)\n"),
]
SILENT = [
    Silent("already-called-error-built-by-helper", DEFER, "            raise AlreadyCalledError\n        if self.debug:",
           "            raise self._alreadyCalledError()\n        if self.debug:",
           more=[(DEFER, "    def _continuation(self) -> _CallbackChain:", "    def _alreadyCalledError(self):\n        return AlreadyCalledError()\n\n    def _continuation(self) -> _CallbackChain:")]),
    Silent("rename-local", DEFER, "            canceller = self._canceller\n            if canceller:\n                canceller(self)\n",
           "            cancelFn = self._canceller\n            if cancelFn:\n                cancelFn(self)\n"),
    Silent("invert-branches", DEFER, "            if canceller:\n                canceller(self)\n            else:\n                # Arrange to eat the callback that will eventually be fired\n                # since there was no real canceller.\n                self._suppressAlreadyCalled = True\n",
           "            if not canceller:\n                self._suppressAlreadyCalled = True\n            else:\n                canceller(self)\n"),
]
_CANCEL_OLD = ("            canceller = self._canceller\n            if canceller:\n                canceller(self)\n            else:\n"
               "                # Arrange to eat the callback that will eventually be fired\n                # since there was no real canceller.\n"
               "                self._suppressAlreadyCalled = True\n")
_CANCEL_DEFAULT = "            chosen = self._canceller or _noCanceller\n            chosen(self)\n"
_CLASS_HEAD = "class Deferred(Awaitable[_SelfResultT]):"
SILENT += [
    Silent("fallback-canceller-function-chosen-with-or", DEFER, _CANCEL_OLD, _CANCEL_DEFAULT,
           more=[(DEFER, _CLASS_HEAD, "def _noCanceller(d):\n    d._suppressAlreadyCalled = True\n\n\n" + _CLASS_HEAD)]),
]
MUTANTS += [
    Mutant("fallback-canceller-function-does-not-arm-suppression", DEFER, _CANCEL_OLD, _CANCEL_DEFAULT,
           more=[(DEFER, _CLASS_HEAD, "def _noCanceller(d):\n    pass\n\n\n" + _CLASS_HEAD)], expect_rule="cancel/suppress-armed"),
    Mutant("fallback-canceller-chosen-with-or-but-suppression-armed-always", DEFER, _CANCEL_OLD,
           _CANCEL_DEFAULT + "            self._suppressAlreadyCalled = True\n",
           more=[(DEFER, _CLASS_HEAD, "def _noCanceller(d):\n    pass\n\n\n" + _CLASS_HEAD)], expect_rule="cancel/suppress-only-without-canceller"),
]
MUTANTS += [
    # the local standing for the canceller is cleared on some path and then read as "there was no canceller"
    Mutant("canceller-local-cleared-then-read-as-absent", DEFER, _CANCEL_OLD,
           "            canceller = self._canceller\n            if canceller:\n                canceller(self)\n"
           "                if self.debug:\n                    canceller = None\n"
           "            if not canceller:\n                self._suppressAlreadyCalled = True\n",
           expect_rule="cancel/suppress-only-without-canceller"),
]
SILENT += [
    Silent("no-canceller-branch-as-a-second-test-of-the-same-local", DEFER, _CANCEL_OLD,
           "            canceller = self._canceller\n            if canceller:\n                canceller(self)\n"
           "            if not canceller:\n                self._suppressAlreadyCalled = True\n"),
]
