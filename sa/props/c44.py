"""C44 - Banana encoding round-trips and enforces its limits."""
from __future__ import annotations

import ast
import struct

from sa.astx import call_name, src, walk_local
from sa.selftest import Mutant, Silent
from sa.source import AnalysisError
from sa.props._lib_c import norm_class
from sa.props._lib_i import sect, COMPAT, Abstain, BlockRaised, FollowModule, structural, Raised, bind_methods, class_env, eval_block, interp, module_env, peval

PROPERTY = "C44"
RULE_KINDS = {
    "tags/distinct-high-bit": "structural", "tags-table/": "structural", "vocab/tables-inverse": "structural", "limits/installed-on-connect": "structural",
    "sender-cfg/": "structural", "limits-cfg/": "structural", "encode-cfg/": "structural",
    # evaluated on enumerated boundary values / step cases / segmentations: bounded evidence (integer ranges and streams are not finite domains)
    "radix/": "bounded", "limits/encoder-matches-prefix-limit": "bounded", "encode/": "bounded", "decode/": "bounded", "tags/encoder-subset-of-decoder": "bounded",
}
BANANA = "spread/banana.py"
TECHNIQUE = "table agreement and CFG order structural; boundary and step evaluation bounded"
EXPLANATION = (
    'STRUCTURAL: type bytes are distinct and >= 0x80; every type byte the encoder (with its private helpers) mentions is me'
    'ntioned by dataReceived, a helper it calls, a function held in a class-level dispatch table it consults, or the keys / members of a table it consults; the vocabulary tables are inverse; connectionMade i'
    'nstalls the limits on every path; every sender hands _encode a sink that is not the transport and writes the transport'
    ' only after _encode returned (must-precede); no module-level helper that receives the float itself on the way to its wire bytes is memoised (lru_cache / cache) and no table is keyed by it. BOUNDED only - integers, lengths and streams are infinite domains and the'
    ' decisions are arithmetic on values, so no complete finite domain exists: int2b128/b1282int on boundary magnitudes; se'
    "tPrefixLimit's bounds for two limits; one _encode call per value kind and limit boundary in both dialects against the "
    'reference wire format (refusals included); floats that compare equal but differ in bits (both zeros in both orders, NaN payloads, 1 / 1.0) encoded one after the other with memoised helpers modelled as ==/hash-keyed caches; one dataReceived step per type byte / completeness / limit case incl. zero-'
    'padded oversized prefixes whole and split; reference streams under every 2-way split and byte by byte; refused values '
    'leave nothing on a recording transport. Not decided: equality of arbitrary structures over all segmentations.'
)
ASSUMPTIONS = ["struct.pack/unpack '!d' are bit-exact inverses (stdlib)", "Banana.gotItem / callExpressionReceived deliver to expressionReceived (gotItem is evaluated, the rest is opaque)"]


def ref_b128(n: int) -> bytes:
    if n == 0:
        return b"\0"
    out = b""
    while n:
        out += bytes([n & 0x7F])
        n >>= 7
    return out


def _exc_name(raised_text):
    if not raised_text:
        return None
    t = raised_text.replace("raise ", "", 1)
    return t.split("(")[0].strip()


def _raised_name(ex):
    """Class name of the exception behind a BlockRaised: a `raise X(...)` statement reached inside a followed helper, or a
    Python exception raised by an evaluated expression."""
    inner = str(ex.exc)
    return _exc_name(inner) if isinstance(ex.exc, RuntimeError) and inner.startswith("raise ") else type(ex.exc).__name__


class _Self:
    pass


def check(ctx):
    mod = ctx.mod(BANANA)
    env0 = module_env(mod)
    tags = {k: env0.get(k) for k in ("LIST", "INT", "STRING", "NEG", "FLOAT", "LONGINT", "LONGNEG", "VOCAB")}
    ctx.need(all(isinstance(v, bytes) and len(v) == 1 for v in tags.values()), "type byte constants")
    high = ctx.need(env0.get("HIGH_BIT_SET"), "HIGH_BIT_SET")
    size_limit = ctx.need(env0.get("SIZE_LIMIT"), "SIZE_LIMIT")
    base = "twisted.spread.banana."
    ctx.check(len(set(tags.values())) == len(tags) and all(v >= high for v in tags.values()), "tags/distinct-high-bit", base + "<type byte constants>",
              f"type bytes {tags!r} must be pairwise distinct and >= {high!r} (prefix digits are < 0x80; a type byte below that is read as a digit)")
    funcs = FollowModule(mod, dict(COMPAT), env0)     # explicit models + any other module-level helper of banana.py, interpreted on demand
    banana_cls = ctx.cls(BANANA, "Banana")
    funcs["struct.pack"] = struct.pack
    funcs["struct.unpack"] = struct.unpack

    # ---- radix-128 helpers ---------------------------------------------------------------------------------------
    with sect(ctx, 'radix-128 helpers'):
        f_enc = ctx.func(BANANA, "int2b128")
        f_dec = ctx.func(BANANA, "b1282int")
        i2b = interp(f_enc, funcs, env0)
        b2i = interp(f_dec, funcs, env0)

        def enc_int(n):
            out = []
            i2b(n, out.append)
            return b"".join(out)
        mags = [0, 1, 127, 128, 129, 16383, 16384, 2**31 - 1, 2**31, 2**31 + 1, 2**32, 2**63, 2**(7 * 64) - 1, 2**(7 * 64)]
        bad = None
        for n in mags:
            try:
                got = enc_int(n)
            except (Raised, BlockRaised) as ex:
                raise AnalysisError(f"int2b128({n}) not evaluable: {ex}")
            if got != ref_b128(n):
                bad = (n, got)
                break
        ctx.check(bad is None, "radix/int2b128", base + "int2b128", bad and f"int2b128({bad[0]}) writes {bad[1]!r}; little-endian base-128 digits are {ref_b128(bad[0])!r}",
                  detail=f"{len(mags)} boundary magnitudes")
        bad = None
        for n in mags:
            try:
                got = b2i(ref_b128(n))
            except (Raised, BlockRaised) as ex:
                raise AnalysisError(f"b1282int not evaluable: {ex}")
            if got != n:
                bad = (n, got)
                break
        ctx.check(bad is None, "radix/b1282int", base + "b1282int", bad and f"b1282int({ref_b128(bad[0])!r}) = {bad[1]}, the digits denote {bad[0]}")
        funcs["int2b128"] = i2b
        funcs["b1282int"] = b2i

    # ---- limits installed by setPrefixLimit / connectionMade ------------------------------------------------------------
    with sect(ctx, 'limits installed by setPrefixLimit / connectionMade'):
        f_lim = ctx.func(BANANA, "Banana.setPrefixLimit")
        default_limit = None
        for st in mod.tree.body:
            if isinstance(st, ast.Expr) and isinstance(st.value, ast.Call) and call_name(st.value) == "setPrefixLimit" and st.value.args:
                default_limit = peval(st.value.args[0], env0)
        if default_limit is None and isinstance(env0.get("_PREFIX_LIMIT"), int):
            default_limit = env0["_PREFIX_LIMIT"]
        ctx.need(isinstance(default_limit, int), "module-level default prefix limit")

        def limits(L):
            e = dict(env0)
            e[f_lim.args.args[1].arg] = L
            e["self"] = _Self()
            bind_methods(e, [banana_cls], funcs, skip={f_lim.name})
            eval_block(f_lim.body, e, funcs=funcs)
            return {k: v for k, v in e.items() if not (k.startswith("self.") and callable(v)) and k != "self"}
        q = base + "Banana.setPrefixLimit"
        for L in (default_limit, 5):
            e = limits(L)
            want = {"self.prefixLimit": L, "self._largestLongInt": 2 ** (7 * L) - 1, "self._smallestLongInt": -(2 ** (7 * L)) + 1,
                    "self._largestInt": 2**31 - 1, "self._smallestInt": -(2**31)}
            for k, v in want.items():
                ctx.check(e.get(k) == v, "limits/encoder-matches-prefix-limit", f"{q} | {k} for limit {'default' if L == default_limit else L}",
                          f"with a prefix limit of {L} digits {k} is {e.get(k)!r}; the largest magnitude {L} base-128 digits can carry is 2**{7 * L}-1, "
                          f"so the bound must be {v}: otherwise the encoder sends integers the decoder refuses (or refuses ones it accepts)")
        f_cm = ctx.func(BANANA, "Banana.connectionMade")
        g = ctx.cfg(f_cm)
        inst = g.find(lambda x: isinstance(x, ast.Call) and call_name(x) == "self.setPrefixLimit" and len(x.args) == 1 and src(x.args[0]) == "_PREFIX_LIMIT")
        wit = g.must_pass([g.entry], inst, exc=False)
        ctx.check(bool(inst) and wit is None, "limits/installed-on-connect", base + "Banana.connectionMade",
                  "a connection can start without the prefix / integer limits being installed", witness=g.describe(wit))

    # ---- vocabulary tables inverse ------------------------------------------------------------------------------------------
    with sect(ctx, 'vocabulary tables inverse'):
        cls = ctx.cls(BANANA, "Banana")
        ce = dict(env0)
        for st in cls.body:
            if isinstance(st, ast.Assign) and len(st.targets) == 1 and isinstance(st.targets[0], ast.Name) and st.targets[0].id in ("outgoingVocabulary", "incomingVocabulary"):
                ce[st.targets[0].id] = peval(st.value, ce)
            elif isinstance(st, ast.For) and "incomingVocabulary" in src(st):
                eval_block([st], ce)
        out_v, in_v = ce.get("outgoingVocabulary"), ce.get("incomingVocabulary")
        ctx.need(isinstance(out_v, dict) and out_v and isinstance(in_v, dict), "Banana.outgoingVocabulary / incomingVocabulary")
        ctx.check(in_v == {v: k for k, v in out_v.items()} and len(set(out_v.values())) == len(out_v), "vocab/tables-inverse", base + "Banana.incomingVocabulary",
                  "incomingVocabulary is not the inverse of outgoingVocabulary (a word sent as VOCAB is received as a different value)")

    # ---- encoder: one _encode call per kind ---------------------------------------------------------------------------------
    with sect(ctx, 'encoder: one _encode call per kind'):
        f_e = ctx.func(BANANA, "Banana._encode")
        q = base + "Banana._encode"
        lim = limits(default_limit)
        L = default_limit
        big, small = lim["self._largestLongInt"], lim["self._smallestLongInt"]
        if not (isinstance(big, int) and isinstance(small, int)):
            big, small = 2 ** (7 * L) - 1, -(2 ** (7 * L)) + 1

        def encode(obj, dialect=b"none"):
            out = []
            e = dict(lim)
            e.update({"self.currentDialect": dialect, "self.outgoingSymbols": dict(out_v)})
            e["self"] = _Self()
            bind_methods(e, [banana_cls], funcs, only_missing=False)      # _encode and whatever private helpers it is split into
            try:
                e["self." + f_e.name](obj, out.append)
            except Raised as ex:
                return None, _exc_name(str(ex.exc))
            except BlockRaised as ex:       # raised inside a nested (recursive) _encode call, or by a modelled helper
                inner = str(ex.exc)
                return None, (_exc_name(inner) if isinstance(ex.exc, RuntimeError) and inner.startswith("raise ") else type(ex.exc).__name__)
            return b"".join(out), None

        POS, NEGT = {tags["INT"], tags["LONGINT"]}, {tags["NEG"], tags["LONGNEG"]}

        def int_ok(n, wire):
            if wire is None or len(wire) < 2:
                return False
            pre, tb = wire[:-1], wire[-1:]
            return pre == ref_b128(abs(n)) and tb in (NEGT if n < 0 else POS) and len(pre) <= L

        int_cases = [0, 1, -1, 127, 128, 2**31 - 1, 2**31, -(2**31), -(2**31) - 1, 2**63, -(2**63), 2 ** (7 * L) - 1, -(2 ** (7 * L)) + 1]
        bad = None
        for n in int_cases:
            wire, err = encode(n)
            if err or not int_ok(n, wire):
                bad = (n, wire if not err else err)
                break
        ctx.check(bad is None, "encode/int-forms", q + " | integers in range",
                  bad and f"_encode({bad[0]}) produces {bad[1]!r}; required: base-128 digits of the magnitude ({ref_b128(abs(bad[0]))[:8]!r}...) then INT/LONGINT for >= 0, NEG/LONGNEG for < 0",
                  detail=f"{len(int_cases)} boundary integers")
        for n, side in ((2 ** (7 * L), "above"), (-(2 ** (7 * L)), "below")):
            wire, err = encode(n)
            ctx.check(err == "BananaError", "encode/int-limit-refused", f"{q} | first integer {side} the limit",
                      f"_encode({'2**%d' % (7 * L) if n > 0 else '-2**%d' % (7 * L)}) " + (f"raises {err}" if err else f"emits a {len(wire) - 1}-digit prefix") +
                      f"; the decoder refuses prefixes longer than {L} digits, so the encoder must raise BananaError")
        for obj, kind, want in ((1.5, "float", tags["FLOAT"] + struct.pack("!d", 1.5)), (-0.0, "float", tags["FLOAT"] + struct.pack("!d", -0.0)),
                                (float("inf"), "float", tags["FLOAT"] + struct.pack("!d", float("inf"))),
                                (b"", "bytes", b"\0" + tags["STRING"]), (b"abc", "bytes", b"\x03" + tags["STRING"] + b"abc"),
                                (b"x" * 200, "bytes", ref_b128(200) + tags["STRING"] + b"x" * 200), (b"None", "bytes", b"\x04" + tags["STRING"] + b"None"),
                                ([], "list", b"\0" + tags["LIST"]), ((), "list", b"\0" + tags["LIST"]),
                                ([1, [b"a"], -2], "list", b"\x03" + tags["LIST"] + b"\x01" + tags["INT"] + b"\x01" + tags["LIST"] + b"\x01" + tags["STRING"] + b"a" + b"\x02" + tags["NEG"])):
            wire, err = encode(obj)
            ctx.check(err is None and wire == want, "encode/forms", f"{q} | {kind} {obj!r}"[:120],
                      f"_encode({obj!r}) produces {(wire if err is None else err)!r}; the wire format is {want!r}")
        # floats bit for bit, whatever was encoded before in the same process: values that compare equal but differ in bits (the two zeros), NaNs with
        # different payloads, and an int / bool equal to a float - each sequence on a fresh process state (remembered answers of memoised helpers forgotten)
        nan_a, nan_b = struct.unpack("!d", b"\x7f\xf8\0\0\0\0\0\x01")[0], struct.unpack("!d", b"\xff\xf8\0\0\0\0\0\x02")[0]
        for seq in ((0.0, -0.0), (-0.0, 0.0), (1, 1.0, True), (1.0, 1), (nan_a, nan_b, nan_a), (2.5, 2.5, -2.5)):
            funcs.reset_caches()
            bad_f = None
            for v in seq:
                wire, err = encode(v)
                if isinstance(v, float) and (err is not None or wire != tags["FLOAT"] + struct.pack("!d", v)) and bad_f is None:
                    bad_f = (v, wire if err is None else err)
            ctx.check(bad_f is None, "encode/float-bits-independent-of-history", f"{q} | sequence {seq!r}"[:110],
                      bad_f and f"encoding {seq!r} one after the other in one process, {bad_f[0]!r} goes out as {bad_f[1]!r}; its network-order double is "
                      f"{struct.pack('!d', bad_f[0])!r}: an earlier value that merely compares equal must not decide the bits")
        funcs.reset_caches()
        for dialect in (b"none", b"pb"):          # every limit and form holds with and without the pb vocabulary
            dn = dialect.decode()
            wire, err = encode(b"x" * (size_limit + 1), dialect)
            ctx.check(err == "BananaError", "encode/size-limit-refused", q + f" | byte string longer than SIZE_LIMIT, dialect {dn}",
                      f"in the {dn} dialect an oversized byte string is encoded instead of refused (the peer's decoder will drop the connection)")
            wire, err = encode([1, [b"x" * (size_limit + 1)]], dialect)
            ctx.check(err == "BananaError", "encode/size-limit-refused", q + f" | nested byte string longer than SIZE_LIMIT, dialect {dn}",
                      f"in the {dn} dialect an oversized byte string inside a list is encoded instead of refused")
            wire, err = encode(b"x" * size_limit, dialect)
            ctx.check(err is None, "encode/size-limit-refused", q + f" | byte string of exactly SIZE_LIMIT, dialect {dn}", f"a byte string of exactly SIZE_LIMIT bytes is refused ({err}); the decoder accepts it")
            wire, err = encode([b""] * (size_limit + 1), dialect)
            ctx.check(err == "BananaError", "encode/size-limit-refused", q + f" | list longer than SIZE_LIMIT, dialect {dn}", "an oversized list is encoded instead of refused")
            for n, side in ((2 ** (7 * L), "above"), (-(2 ** (7 * L)), "below")):
                wire, err = encode(n, dialect)
                ctx.check(err == "BananaError", "encode/int-limit-refused", f"{q} | first integer {side} the limit, dialect {dn}", f"in the {dn} dialect an out-of-range integer is not refused")
            wire, err = encode([b"abc", 7, -1.5, [b"not-a-word"]], dialect)
            want = b"\x04" + tags["LIST"] + b"\x03" + tags["STRING"] + b"abc" + b"\x07" + tags["INT"] + tags["FLOAT"] + struct.pack("!d", -1.5) + b"\x01" + tags["LIST"] + b"\x0a" + tags["STRING"] + b"not-a-word"
            ctx.check(err is None and wire == want, "encode/forms", q + f" | mixed list, dialect {dn}", f"in the {dn} dialect a list of non-vocabulary values is sent as {(wire if err is None else err)!r}; the wire format is {want!r}")
        wire, err = encode(None)
        ctx.check(err == "BananaError", "encode/unsupported-refused", q + " | unsupported type", f"an unsupported value is not refused with BananaError ({(wire if err is None else err)!r})")
        wire, err = encode(b"None", b"pb")
        ctx.check(err is None and wire == ref_b128(out_v[b"None"]) + tags["VOCAB"], "encode/vocab", q + " | vocabulary word, pb dialect",
                  f"in the pb dialect b'None' is sent as {(wire if err is None else err)!r}; the vocabulary form is {ref_b128(out_v[b'None']) + tags['VOCAB']!r}")
        wire, err = encode(b"None", b"none")
        ctx.check(err is None and wire == b"\x04" + tags["STRING"] + b"None", "encode/vocab", q + " | vocabulary word, none dialect",
                  f"outside the pb dialect b'None' is sent as {(wire if err is None else err)!r}: the peer's decoder only accepts VOCAB in the pb dialect")
        # which type bytes the encoder can emit (observed on sample values in both dialects, read back with a reference scanner)
        def scan_tags(wire):
            seen, i = set(), 0
            while i < len(wire):
                j = i
                while j < len(wire) and wire[j] < 0x80:
                    j += 1
                if j >= len(wire):
                    break
                tb = wire[j:j + 1]
                seen.add(tb)
                n = 0
                for k, d in enumerate(wire[i:j]):
                    n += d << (7 * k)
                i = j + 1 + (n if tb == tags["STRING"] else 8 if tb == tags["FLOAT"] else 0)
            return seen
        emitted_tags = set()
        for dialect in (b"none", b"pb"):
            for sample in ([0, -1, 2**31, -(2**31) - 1, 1.5, b"text", b"None", [b"x", [1]], ()],):
                wire, err = encode(sample, dialect)
                if err is None:
                    emitted_tags |= scan_tags(wire)
        f_d = ctx.func(BANANA, "Banana.dataReceived")

    # ---- structural: type-byte table agreement and sender shape, on the class with private helpers followed
    # ---- structural: nothing on the value -> bytes path of floats remembers answers by ==/hash (float equality is coarser than bit identity)
    with structural(ctx, "encode-cfg/float-path-not-memoised", "encode/float-bits-independent-of-history (bounded)"):
        from sa.props._lib_i import is_memoiser
        ncls_f = norm_class(ctx, BANANA, "Banana", keep={n_ for n_ in {m.name for m in banana_cls.body if isinstance(m, ast.FunctionDef)} if not n_.startswith("_")} | {"_encode"})
        nenc = next((m for m in ncls_f.body if isinstance(m, ast.FunctionDef) and m.name == "_encode"), None)
        if nenc is None:
            raise Abstain("_encode not found in the normalised class")
        obj_p = nenc.args.args[1].arg
        branches = [st for st in ast.walk(nenc) if isinstance(st, ast.If) and any(isinstance(c, ast.Call) and call_name(c) == "isinstance" and len(c.args) == 2 and src(c.args[0]) == obj_p
                                                                                 and "float" in src(c.args[1]) for c in ast.walk(st.test))]
        if not branches:
            raise Abstain("no isinstance(obj, float) branch in the normalised _encode")
        top = {st.name: st for st in mod.tree.body if isinstance(st, ast.FunctionDef)}
        for br in branches:
            # follow the float itself (by name) into module-level helpers: (helper, names that hold the float there)
            reached, scopes = [], [(br, {obj_p})]
            todo, seen_f = [(list(br.body), {obj_p})], set()
            while todo:
                nodes, fnames = todo.pop()
                for c in (y for n_ in nodes for y in ast.walk(n_)):
                    if isinstance(c, ast.Call) and (call_name(c) or "").startswith("self._"):
                        raise Abstain(f"private helper {call_name(c)} could not be inlined")
                    if isinstance(c, ast.Call) and isinstance(c.func, ast.Name) and c.func.id in top:
                        h = top[c.func.id]
                        hp = [a_.arg for a_ in h.args.args]
                        got = {hp[i] for i, a_ in enumerate(c.args) if i < len(hp) and isinstance(a_, ast.Name) and a_.id in fnames}
                        got |= {k.arg for k in c.keywords if k.arg in hp and isinstance(k.value, ast.Name) and k.value.id in fnames}
                        memo = [d for d in h.decorator_list if is_memoiser(d)]
                        if memo and not got:
                            ctx.note(f"encode-cfg/float-path-not-memoised: {h.name} is memoised but is not handed the float itself ({src(c)}); left to "
                                     "encode/float-bits-independent-of-history (bounded)")
                        elif memo or h.name not in seen_f:
                            ctx.check(not memo, "encode-cfg/float-path-not-memoised", f"twisted.spread.banana.{h.name} | decorator",
                                      f"{h.name} receives the float on its way to the wire ({src(c)}) and is memoised with @{src(memo[0]) if memo else ''}: remembered answers are "
                                      "looked up by == and hash, and 0.0 == -0.0 - whichever zero is encoded first fixes the bytes of both")
                        if got and h.name not in seen_f:
                            seen_f.add(h.name)
                            reached.append(h)
                            scopes.append((h, got))
                            todo.append(([h], got))
            # a hand-made table keyed by the value: <table>[v] / .get(v) / .setdefault(v, ...) where v is the float (or a helper's parameter)
            for scope, names in scopes:
                body = scope.body if isinstance(scope, ast.If) else [scope]
                for x in (y for b_ in body for y in ast.walk(b_)):
                    keyed = None
                    if isinstance(x, ast.Subscript) and isinstance(x.slice, ast.Name) and x.slice.id in names and not (isinstance(x.value, ast.Name) and x.value.id in names):
                        keyed = x
                    if (isinstance(x, ast.Call) and isinstance(x.func, ast.Attribute) and x.func.attr in ("get", "setdefault") and x.args and isinstance(x.args[0], ast.Name)
                            and x.args[0].id in names):
                        keyed = x
                    if keyed is not None:
                        ctx.check(False, "encode-cfg/float-path-not-memoised", ctx.construct("twisted.spread.banana." + (scope.name if isinstance(scope, ast.FunctionDef) else "Banana._encode"), keyed),
                                  f"{src(keyed)} looks the float up in a table keyed by the value itself: keys compare by == and hash, so 0.0 and -0.0 share one entry")
            if not reached:
                ctx.ok("encode-cfg/float-path-not-memoised", "twisted.spread.banana.Banana._encode | float branch")

    with structural(ctx, "tags-table/encoder-subset-of-decoder", "tags/encoder-subset-of-decoder (bounded)"):
        meths_all = {m.name: m for m in banana_cls.body if isinstance(m, ast.FunctionDef)}

        # class-level tables (e.g. a dispatch dict type byte -> handler function): consulted through self.<name> / Banana.<name>
        cls_tables = {st.targets[0].id: st.value for st in banana_cls.body if isinstance(st, ast.Assign) and len(st.targets) == 1 and isinstance(st.targets[0], ast.Name)
                      and isinstance(st.value, (ast.Dict, ast.Tuple, ast.Set, ast.List))}

        def consulted_tables(fn):
            return [x.attr for x in ast.walk(fn) if isinstance(x, ast.Attribute) and isinstance(x.ctx, ast.Load) and x.attr in cls_tables
                    and isinstance(x.value, ast.Name) and x.value.id in ("self", "Banana", "cls")]

        def closure(start):
            seen, work = {start}, [start]
            while work:
                cur = meths_all[work.pop()]
                nxt = [(call_name(c) or "")[5:] for c in ast.walk(cur) if isinstance(c, ast.Call) and (call_name(c) or "").startswith("self.")]
                for tn in consulted_tables(cur):      # the functions a consulted dispatch table holds are reachable from here
                    nxt += [x.id for x in ast.walk(cls_tables[tn]) if isinstance(x, ast.Name)]
                for n_ in nxt:
                    if n_ in meths_all and n_ not in seen:
                        seen.add(n_)
                        work.append(n_)
            return [meths_all[n_] for n_ in seen]
        if "_encode" not in meths_all or "dataReceived" not in meths_all:
            raise Abstain("_encode / dataReceived not found")
        mod_dicts = {st.targets[0].id: st.value for st in mod.tree.body if isinstance(st, ast.Assign) and len(st.targets) == 1 and isinstance(st.targets[0], ast.Name)
                     and isinstance(st.value, (ast.Dict, ast.Tuple, ast.Set, ast.List))}

        def tag_names(funcs_):
            out = set()
            for fn in funcs_:
                for n_ in ast.walk(fn):
                    if isinstance(n_, ast.Name) and isinstance(n_.ctx, ast.Load):
                        if n_.id in tags:
                            out.add(n_.id)
                        elif n_.id in mod_dicts:          # a module-level table the function consults: its tag keys / members count
                            out |= {x.id for x in ast.walk(mod_dicts[n_.id]) if isinstance(x, ast.Name) and x.id in tags}
                for tn in consulted_tables(fn):       # keys of a dispatch dict / members of a class-level collection of type bytes
                    tv = cls_tables[tn]
                    for part in (tv.keys if isinstance(tv, ast.Dict) else tv.elts):
                        if part is not None:
                            out |= {x.id for x in ast.walk(part) if isinstance(x, ast.Name) and x.id in tags}
            return out
        enc_tags, dec_tags = tag_names(closure("_encode")), tag_names(closure("dataReceived"))
        if len(enc_tags) < 6:
            raise Abstain(f"only {len(enc_tags)} type-byte constants are mentioned by the encoder")
        for t in sorted(enc_tags):
            ctx.check(t in dec_tags, "tags-table/encoder-subset-of-decoder", f"{base}Banana.dataReceived | type byte {t}",
                      f"the encoder writes the type byte {t}, but neither dataReceived (with the private helpers it calls) nor a table it consults mentions {t}")
    mod_funcs = {st.name: st for st in mod.tree.body if isinstance(st, ast.FunctionDef)}

    def limit_guarded(g, n_, mentions):
        """node n_ is dominated by a test that mentions `mentions`, or every path to it passes a call of a module-level helper whose own test mentions it and raises;
        None when an unknown helper call on the way could hold the test (the rule abstains for this site)"""
        if g.guarded(n_, lambda e: mentions(src(e)), None) or mentions(src(g.node(n_).ast)):
            return True
        tests = g.ids(lambda x: x.kind == "test" and mentions(src(x.ast)))
        if tests and g.must_precede(tests, [n_]) is None:
            return True                 # every path to the site passes one of several such tests (e.g. one per branch of an inlined helper)
        helper_nodes, unknown = [], False
        for k in g.ids(lambda x: x.kind == "stmt"):
            for c in walk_local(g.node(k).ast):
                if isinstance(c, ast.Call) and isinstance(c.func, ast.Name) and c.func.id in mod_funcs and c.func.id not in ("int2b128", "b1282int"):
                    h = mod_funcs[c.func.id]
                    if any(isinstance(t, ast.If) and mentions(src(t.test)) and any(isinstance(r, ast.Raise) for r in ast.walk(t)) for t in ast.walk(h)):
                        helper_nodes.append(k)
                    else:
                        unknown = True
        if helper_nodes and g.must_precede(helper_nodes, [n_]) is None:
            return True
        return None if unknown else False

    with structural(ctx, "limits-cfg/* (encoder)", "encode/size-limit-refused, encode/int-limit-refused (bounded)"):
        ncls = norm_class(ctx, BANANA, "Banana", keep={n_ for n_ in meths_all if not n_.startswith("_")} | {"_encode"})
        ne = next((m for m in ncls.body if isinstance(m, ast.FunctionDef) and m.name == "_encode"), None)
        if ne is None:
            raise Abstain("_encode not found in the normalised class")
        g = ctx.cfg(ne)
        sites = {t: g.find(lambda x, t=t: isinstance(x, ast.Call) and call_name(x) == "write" and len(x.args) == 1 and isinstance(x.args[0], ast.Name) and x.args[0].id == t) for t in tags}
        if sum(1 for v in sites.values() if v) < 6:
            raise Abstain("the encoder does not write its type bytes as plain `write(TAG)` statements")
        for t, want in (("STRING", "SIZE_LIMIT"), ("LIST", "SIZE_LIMIT"), ("INT", "_largestLongInt"), ("LONGINT", "_largestLongInt"), ("NEG", "_smallestLongInt"), ("LONGNEG", "_smallestLongInt")):
            for n_ in sites.get(t, []):
                verdict = limit_guarded(g, n_, lambda t_, want=want: want in t_)
                if verdict is None:
                    raise Abstain("a module-level helper on the way may hold the limit test")
                ctx.check(verdict, "limits-cfg/encoder-limit-dominates", ctx.construct(base + "Banana._encode", g.node(n_).ast),
                          f"write({t}) can be reached on a path that never compared the value with {want}: an out-of-limit value is sent instead of refused",
                          witness=g.describe(g.path([g.entry], [n_])))
    with structural(ctx, "limits-cfg/* (decoder)", "decode/step, decode/prefix-digit-limit (bounded)"):
        ncls = norm_class(ctx, BANANA, "Banana", keep={n_ for n_ in meths_all if not n_.startswith("_")} | {"_encode"})
        nd = next((m for m in ncls.body if isinstance(m, ast.FunctionDef) and m.name == "dataReceived"), None)
        if nd is None:
            raise Abstain("dataReceived not found in the normalised class")
        if any(isinstance(c, ast.Call) and (call_name(c) or "").startswith("self._") for c in ast.walk(nd)):
            raise Abstain("a private helper of dataReceived could not be inlined")
        g = ctx.cfg(nd)
        delivers = g.find(lambda x: isinstance(x, ast.Call) and call_name(x) in ("gotItem", "self.gotItem", "listStack.append", "self.listStack.append"))
        if len(delivers) < 6:
            raise Abstain("delivery sites of the plain shape gotItem(..) / listStack.append(..) not found")
        for n_ in delivers:
            # a test against prefixLimit counts unless what it compares is the decoded value (derives from b1282int): digits, not value, are limited
            value_names = {t.id for st in ast.walk(nd) if isinstance(st, ast.Assign) and any(isinstance(c, ast.Call) and call_name(c) == "b1282int" for c in ast.walk(st.value))
                           for t in st.targets if isinstance(t, ast.Name)}
            verdict = limit_guarded(g, n_, lambda t_: "prefixLimit" in t_ and "b1282int" not in t_ and not any(
                __import__("re").search(r"(?<![A-Za-z0-9_])" + v + r"(?![A-Za-z0-9_])", t_) for v in value_names if v not in ("num",) or "len(" not in t_))
            if verdict is None:
                raise Abstain("a module-level helper on the way may hold the prefix test")
            ctx.check(verdict, "limits-cfg/prefix-digit-test-dominates", ctx.construct(base + "Banana.dataReceived", g.node(n_).ast),
                      "an item can be delivered on a path that never compared the number of prefix digits with prefixLimit (a test on the decoded value does not bound the digits: "
                      "high-order zero digits are free)", witness=g.describe(g.path([g.entry], [n_])))
        sized = g.find(lambda x: isinstance(x, ast.Call) and call_name(x) in ("listStack.append", "self.listStack.append")) + \
            g.find(lambda x: isinstance(x, ast.Compare) and "len(rest)" in src(x) and "8" not in src(x))
        for n_ in sized:
            verdict = limit_guarded(g, n_, lambda t_: "SIZE_LIMIT" in t_)
            if verdict is None:
                raise Abstain("a module-level helper on the way may hold the size test")
            ctx.check(verdict, "limits-cfg/size-test-dominates",
                      ctx.construct(base + "Banana.dataReceived", g.node(n_).ast),
                      "a declared list / string length is used (waited for, or allocated) on a path that never compared it with SIZE_LIMIT", witness=g.describe(g.path([g.entry], [n_])))
    with structural(ctx, "sender-cfg/buffered-then-written", "encode/refused-atomically (bounded)"):
        for m in [m for m in banana_cls.body if isinstance(m, ast.FunctionDef) and m.name != "_encode"]:
            enc_calls = [c for c in ast.walk(m) if isinstance(c, ast.Call) and call_name(c) == "self._encode"]
            if not enc_calls or any(isinstance(c, ast.Call) and call_name(c) == "self." + m.name for c in ast.walk(meths_all["_encode"])):
                continue
            g = ctx.cfg(m)
            mq = base + "Banana." + m.name
            for c in enc_calls:
                if len(c.args) != 2:
                    raise Abstain("self._encode(obj, write) call shape")
                ctx.check("self.transport" not in src(c.args[1]), "sender-cfg/buffered-then-written", ctx.construct(mq, c) + " | write sink",
                          "the encoder is handed the transport's write: when a later element is refused, the list header and the earlier elements are already on the wire")
            enc_nodes = g.find(lambda x: isinstance(x, ast.Call) and call_name(x) == "self._encode")
            tw = g.find(lambda x: isinstance(x, ast.Call) and (call_name(x) or "").startswith("self.transport.write"))
            if tw:
                wit = g.must_precede(enc_nodes, tw)
                ctx.check(wit is None, "sender-cfg/buffered-then-written", mq + " | transport written only after encoding returned",
                          "the transport can be written before the value has been encoded completely", witness=g.describe(wit))

    # ---- senders: a value that is refused leaves nothing on the wire
    with sect(ctx, 'senders: refused values leave nothing on the wire'):
        cls_b = ctx.cls(BANANA, "Banana")
        meths_b = {m.name: m for m in cls_b.body if isinstance(m, ast.FunctionDef)}

        def callees(name):
            return {call_name(c)[5:] for c in ast.walk(meths_b[name]) if isinstance(c, ast.Call) and (call_name(c) or "").startswith("self.") and call_name(c)[5:] in meths_b}
        part_of_encoder, work = {f_e.name}, [f_e.name]
        while work:                                    # private helpers the encoder is split into are not senders
            for c in callees(work.pop()):
                if c not in part_of_encoder:
                    part_of_encoder.add(c)
                    work.append(c)
        senders = [m for n_, m in meths_b.items() if n_ not in part_of_encoder and "self." + f_e.name in {call_name(c) for c in ast.walk(m) if isinstance(c, ast.Call)}]
        ctx.floor("encode/refused-atomically", len(senders), 1)
        for m in senders:
            mq = base + "Banana." + m.name
            params = [a.arg for a in m.args.args if a.arg != "self"]
            if len(params) != 1:
                raise AnalysisError(f"{mq}: expected (self, obj)")

            def send(obj, dialect=b"none"):
                writes = []
                e = dict(lim)
                e.update({"self.currentDialect": dialect, "self.outgoingSymbols": dict(out_v)})
                me = dict(e)
                me.update({"self": _Self(), params[0]: obj, "self.transport.write": writes.append,
                           "self.transport.writeSequence": lambda seq: writes.extend(seq)})
                bind_methods(me, [banana_cls], funcs, skip={m.name})
                try:
                    r = eval_block(m.body, me, funcs=funcs)
                    err = _exc_name(r.raised)
                except BlockRaised as ex:
                    inner = str(ex.exc)
                    err = _exc_name(inner) if isinstance(ex.exc, RuntimeError) and inner.startswith("raise ") else type(ex.exc).__name__
                return b"".join(bytes(w) for w in writes), err
            good = [1, [b"ab", -2.5], b""]
            wire, err = send(good)
            want = b"\x03" + tags["LIST"] + b"\x01" + tags["INT"] + b"\x02" + tags["LIST"] + b"\x02" + tags["STRING"] + b"ab" + tags["FLOAT"] + struct.pack("!d", -2.5) + b"\x00" + tags["STRING"]
            ctx.check(err is None and wire == want, "encode/refused-atomically", mq + " | an encodable value is written completely",
                      f"{m.name}({good!r}) writes {(wire if err is None else err)!r}; the wire format is {want!r}")
            for label, obj in (("out-of-range integer after other elements", [1, [b"ok"], 2 ** (7 * L)]), ("oversized byte string after other elements", [b"a", [b"x" * (size_limit + 1)]]),
                               ("unsupported value inside a nested list", [[], [1, None]]), ("unsupported value as last element", [b"first", 2, object])):
                wire, err = send(obj)
                ctx.check(err == "BananaError" and wire == b"", "encode/refused-atomically", f"{mq} | {label}",
                          f"{m.name}() of a structure with an {label.split(' after')[0].split(' inside')[0].split(' as')[0]} " +
                          (f"raises {err}" if err else "does not raise") + f" after {len(wire)} bytes were already written to the transport"
                          f" ({wire[:16]!r}...): the peer is left inside an unfinished list and swallows every later expression; a refused value must be refused before anything is sent")

    # ---- decoder: one iteration of the scanning loop ------------------------------------------------------------------------------
    with sect(ctx, 'decoder: one iteration of the scanning loop'):
        q = base + "Banana.dataReceived"
        allw = [x for x in ast.walk(f_d) if isinstance(x, ast.While)]
        loops = [x for x in allw if not any(x is not y and any(z is x for z in ast.walk(y)) for y in allw)]        # outermost loops
        ctx.need(len(loops) >= 1, "the scanning loop of dataReceived")
        loop = loops[0]
        container = next(st for st in f_d.body if any(z is loop for z in ast.walk(st)))
        pre = f_d.body[:f_d.body.index(container)]
        chunk_p = f_d.args.args[1].arg
        cenv = class_env([cls], env0, funcs)           # class-level constants (vocabularies, precompiled structs ...) as self.<name>
        f_gi = ctx.func(BANANA, "Banana.gotItem")

        def instance_attrs(limit):
            """Instance attributes installed by setPrefixLimit(limit) (prefixLimit, _largestLongInt, ...), bound as self.<name>."""
            return {k: v for k, v in limits(limit).items() if k.startswith("self.")}

        def step(buffer, stack=None, dialect=b"none", limit=L):
            stack = [(n, list(items)) for n, items in (stack or [])]
            delivered = []
            ge = {"self.listStack": stack, "self.callExpressionReceived": delivered.append}
            gi = interp(f_gi, funcs, ge)
            e = dict(cenv)
            e.update(instance_attrs(limit))
            e.update({"self": _Self(), "self.buffer": b"", "self.listStack": stack, "self.gotItem": lambda item: gi(_Self(), item), "self.prefixLimit": limit,
                      "self.incomingVocabulary": dict(in_v), "self.currentDialect": dialect, chunk_p: buffer})
            try:
                bind_methods(e, [banana_cls], funcs, skip={f_d.name})
                eval_block(pre, e, funcs=funcs)
                bufvars = [k for k, v in e.items() if k not in cenv and k != chunk_p and not k.startswith("self") and isinstance(v, bytes) and v == buffer]
                if len(bufvars) != 1:
                    raise AnalysisError(f"{q}: statements before the loop do not bind the working buffer")
                r = eval_block(loop.body, e, funcs=funcs)
            except BlockRaised as ex:
                return {"raised": _raised_name(ex), "delivered": delivered, "stack": stack}
            return {"buffer": e[bufvars[0]], "stack": stack, "delivered": delivered, "returned": r.returned, "raised": _exc_name(r.raised), "saved": e["self.buffer"]}

        def want_step(case, buffer, expect, why="", **kw):
            got = step(buffer, **kw)
            ok = all(got.get(k) == v for k, v in expect.items())
            ctx.check(ok, "decode/step", f"{q} | {case}",
                      f"decoding step on {buffer[:24]!r}{'...' if len(buffer) > 24 else ''} gives { {k: got.get(k) for k in expect} !r}; required {expect!r}. {why}")

        done = {"returned": False, "raised": None}
        for n in (0, 5, 200, 2**31 - 1):
            want_step("INT", ref_b128(n) + tags["INT"] + b"Z", {**done, "delivered": [n], "buffer": b"Z"})
        for n in (2**31, 2 ** (7 * L) - 1):
            want_step("LONGINT", ref_b128(n) + tags["LONGINT"] + b"Z", {**done, "delivered": [n], "buffer": b"Z"})
        for n in (1, 2**31):
            want_step("NEG", ref_b128(n) + tags["NEG"] + b"Z", {**done, "delivered": [-n], "buffer": b"Z"}, why="the encoder writes the magnitude; the decoder must negate")
        for n in (2**31 + 1, 2 ** (7 * L) - 1):
            want_step("LONGNEG", ref_b128(n) + tags["LONGNEG"] + b"Z", {**done, "delivered": [-n], "buffer": b"Z"}, why="the encoder writes the magnitude; the decoder must negate")
        want_step("STRING complete", b"\x03" + tags["STRING"] + b"abcZ", {**done, "delivered": [b"abc"], "buffer": b"Z"})
        want_step("STRING complete at chunk end", b"\x03" + tags["STRING"] + b"abc", {**done, "delivered": [b"abc"], "buffer": b""},
                  why="an item that ends exactly at the end of the received data must be delivered now, not when more data arrives")
        want_step("STRING empty", b"\0" + tags["STRING"] + b"Z", {**done, "delivered": [b""], "buffer": b"Z"})
        short = b"\x03" + tags["STRING"] + b"ab"
        want_step("STRING incomplete waits", short, {"returned": True, "raised": None, "delivered": [], "saved": short},
                  why="an incomplete item must be kept (whole, prefix included) for the next chunk")
        want_step("STRING longer than SIZE_LIMIT refused", ref_b128(size_limit + 1) + tags["STRING"] + b"ab", {"raised": "BananaError", "delivered": []},
                  why="the declared length must be refused as soon as it is known, not after buffering that much data")
        want_step("STRING of exactly SIZE_LIMIT accepted", ref_b128(size_limit) + tags["STRING"] + b"ab", {"returned": True, "raised": None})
        want_step("LIST header", b"\x02" + tags["LIST"] + b"Z", {**done, "delivered": [], "stack": [(2, [])], "buffer": b"Z"})
        want_step("LIST empty", b"\0" + tags["LIST"] + b"Z", {**done, "delivered": [[]], "stack": [], "buffer": b"Z"})
        want_step("LIST longer than SIZE_LIMIT refused", ref_b128(size_limit + 1) + tags["LIST"], {"raised": "BananaError"})
        want_step("LIST closes on last element", b"\x07" + tags["INT"], {**done, "delivered": [[b"a", 7]], "stack": []}, stack=[(2, [b"a"])])
        want_step("LIST nested close cascades", b"\x07" + tags["INT"], {**done, "delivered": [[[7]]], "stack": []}, stack=[(1, []), (1, [])])
        want_step("LIST element appended", b"\x07" + tags["INT"], {**done, "delivered": [], "stack": [(3, [b"a", 7])]}, stack=[(3, [b"a"])])
        for val in (1.5, -0.0, float("inf")):
            raw = struct.pack("!d", val)
            got = step(tags["FLOAT"] + raw + b"Z")
            ok = got.get("raised") is None and not got.get("returned") and got.get("buffer") == b"Z" and len(got.get("delivered", [])) == 1 \
                and isinstance(got["delivered"][0], float) and struct.pack("!d", got["delivered"][0]) == raw
            ctx.check(ok, "decode/step", f"{q} | FLOAT", f"decoding the network-order double {raw!r} gives {got!r}; the value must come back bit for bit")
        nan = struct.pack("!d", float("nan"))
        got = step(tags["FLOAT"] + nan)
        ctx.check(got.get("raised") is None and len(got.get("delivered", [])) == 1 and struct.pack("!d", got["delivered"][0]) == nan and got.get("buffer") == b"", "decode/step", f"{q} | FLOAT NaN at chunk end",
                  f"a NaN double ending the chunk gives {got!r}")
        shortf = tags["FLOAT"] + b"\x3f\xf8\0\0"
        want_step("FLOAT incomplete waits", shortf, {"returned": True, "raised": None, "delivered": [], "saved": shortf})
        want_step("VOCAB in pb dialect", ref_b128(out_v[b"None"]) + tags["VOCAB"] + b"Z", {**done, "delivered": [b"None"], "buffer": b"Z"}, dialect=b"pb")
        got = step(ref_b128(out_v[b"None"]) + tags["VOCAB"] + b"Z", dialect=b"none")
        ctx.check(got.get("raised") is not None and not got.get("delivered"), "decode/step", f"{q} | VOCAB outside pb dialect refused", f"a VOCAB item outside the pb dialect gives {got!r}")
        got = step(b"\x01\x88Z")
        ctx.check(got.get("raised") is not None and not got.get("delivered"), "decode/step", f"{q} | unknown type byte refused", f"an unknown type byte gives {got!r} (it must not be skipped silently)")
        names = {v: k for k, v in tags.items()}
        for tb in sorted(emitted_tags):
            got = step(b"\x01" + tb + b"\x00" * 8, dialect=b"pb")
            ctx.check(got.get("raised") != "NotImplementedError" and tb in names, "tags/encoder-subset-of-decoder", f"{q} | understands {names.get(tb, tb)}",
                      f"the encoder emits the type byte {names.get(tb, tb)} ({tb!r}) but the decoder answers {got!r} to it")
        ctx.floor("tags/encoder-subset-of-decoder", len(emitted_tags), 6)
        # prefix limit, both paths, with a small limit so that the boundary is cheap to state
        for lim_ in (3, L):
            ones = b"\x01" * lim_
            want_step("prefix of limit digits, type byte not yet seen: waits", ones, {"returned": True, "raised": None, "saved": ones}, limit=lim_,
                      why="the encoder legitimately produces prefixes of exactly prefixLimit digits; a chunk boundary before the type byte must not be fatal")
            want_step("prefix longer than limit, type byte not yet seen: refused", ones + b"\x01", {"raised": "BananaError"}, limit=lim_,
                      why="an endless prefix must be refused without waiting for a type byte")
            want_step("prefix of limit digits with type byte: accepted", ones + tags["LONGINT"], {**done, "buffer": b""}, limit=lim_)
            want_step("prefix longer than limit with type byte: refused", ones + b"\x01" + tags["LONGINT"], {"raised": "BananaError", "delivered": []}, limit=lim_,
                      why="the prefix limit must also hold when prefix and type byte arrive together")
        # leftover handling + every segmentation of reference streams, the whole of dataReceived evaluated chunk after chunk
        e = {**cenv, "self": _Self(), "self.buffer": b"ab", chunk_p: b"cd", "self.listStack": [], "self.gotItem": lambda i: None, "self.prefixLimit": L}
        eval_block(pre, e, funcs=funcs)
        ctx.check(any(isinstance(v, bytes) and v == b"abcd" for k, v in e.items() if not k.startswith("self") and k != chunk_p), "decode/leftover-prepended",
                  q + " | saved bytes + new chunk", "the working buffer for saved b'ab' and chunk b'cd' is not b'abcd': bytes kept from the previous chunk are lost")

        def ref_encode(x):
            if isinstance(x, (list, tuple)):
                return ref_b128(len(x)) + tags["LIST"] + b"".join(ref_encode(y) for y in x)
            if isinstance(x, float):
                return tags["FLOAT"] + struct.pack("!d", x)
            if isinstance(x, bytes):
                return ref_b128(len(x)) + tags["STRING"] + x
            if x < 0:
                return ref_b128(-x) + (tags["NEG"] if x >= -(2**31) else tags["LONGNEG"])
            return ref_b128(x) + (tags["INT"] if x < 2**31 else tags["LONGINT"])

        def feed(chunks, limit=L):
            stack, delivered = [], []
            gi = interp(f_gi, funcs, {"self.listStack": stack, "self.callExpressionReceived": delivered.append})
            env = dict(cenv)
            env.update(instance_attrs(limit))
            env.update({"self": _Self(), "self.buffer": b"", "self.listStack": stack, "self.gotItem": lambda item: gi(_Self(), item), "self.prefixLimit": limit,
                        "self.incomingVocabulary": dict(in_v), "self.currentDialect": b"none"})
            bind_methods(env, [banana_cls], funcs, skip={f_d.name})
            for c in chunks:
                env[chunk_p] = c
                try:
                    r = eval_block(f_d.body, env, funcs=funcs)
                except BlockRaised as ex:
                    return f"raises {_raised_name(ex)}"
                if r.raised:
                    return r.raised
            return delivered
        objs = [[1, [b"ab", -2.5, []], 2**40, b""], [[[-(2**31) - 1]], b"x" * 130, 0.0], [b"\x80\x81\x82", [b"", [b"\x00"]], 127, 128]]
        bad = None
        n = 0
        for obj in objs:
            stream = ref_encode(obj)
            cuts = [(stream,)] + [(stream[:i], stream[i:]) for i in range(1, len(stream))] + [tuple(stream[i:i + 1] for i in range(len(stream)))]
            for cut in cuts:
                got = feed(cut)
                n += 1
                if got != [obj]:
                    bad = (obj, [len(c) for c in cut][:6], got)
                    break
            if bad:
                break
        ctx.check(bad is None, "decode/segmentation-independent", q + " | reference streams, every 2-way split and byte by byte",
                  bad and f"the reference encoding of {bad[0]!r} delivered in chunks of sizes {bad[1]}... yields {bad[2]!r} instead of the expression itself", detail=f"{n} segmentations")
        # oversized prefixes whose VALUE is small (padded with high-order zero digits): the limit is on the number of digits
        for lim_ in (3, L):
            padded = b"\x01" + b"\x00" * lim_
            for tname, tb in sorted(tags.items()):
                for how, chunks in (("one chunk", (padded + tb + b"\x00" * 8,)), ("type byte in the next chunk", (padded, tb + b"\x00" * 8)), ("digit by digit", tuple(padded[i:i + 1] for i in range(len(padded))) + (tb,))):
                    got = feed(chunks, limit=lim_)
                    ctx.check(isinstance(got, str) and "BananaError" in got, "decode/prefix-digit-limit", f"{q} | zero-padded prefix of limit+1 digits before {tname}, {how}",
                              f"a prefix of {lim_ + 1} digits (value 1, padded with zero digits) followed by {tname} delivered as {how} gives {got!r}: prefixes longer than "
                              f"prefixLimit={lim_} digits must be refused with BananaError whatever value they denote")


_NEGD = "            elif typebyte == NEG:\n                buffer = rest\n                num = -b1282int(num)\n"
MUTANTS = [
    Mutant('prefix-test-missing-on-one-branch', BANANA, '            if len(num) > self.prefixLimit:\n                raise BananaError(\n                    "Security precaution: longer than %d bytes worth of prefix"\n                    % (self.prefixLimit,)\n                )\n', '            if typebyte == FLOAT:\n                pass\n            else:\n                if len(num) > self.prefixLimit:\n                    raise BananaError("Security precaution: prefix too long")\n', expect_rule='limits-cfg/prefix-digit-test-dominates'),
    Mutant("neg-decoded-positive", BANANA, _NEGD, "            elif typebyte == NEG:\n                buffer = rest\n                num = b1282int(num)\n", expect_rule="decode/step"),
    Mutant("longneg-decoded-positive", BANANA, "                gotItem(-num)\n", "                gotItem(num)\n", expect_rule="decode/step"),
    Mutant("encoder-upper-limit-dropped", BANANA, "            if obj < self._smallestLongInt or obj > self._largestLongInt:\n", "            if obj < self._smallestLongInt:\n", expect_rule="encode/int-limit-refused"),
    Mutant("long-limit-eight-bits-per-digit", BANANA, "        self._largestLongInt = 2 ** (limit * 7) - 1\n", "        self._largestLongInt = 2 ** (limit * 8) - 1\n", expect_rule="limits/encoder-matches-prefix-limit"),
    Mutant("pending-prefix-limit-off-by-one", BANANA, "                if pos > self.prefixLimit:\n", "                if pos >= self.prefixLimit:\n", expect_rule="decode/step"),
    Mutant("seen-prefix-limit-dropped", BANANA, "            if len(num) > self.prefixLimit:\n", "            if len(num) > self.prefixLimit + 8:\n", expect_rule="decode/step"),
    Mutant("string-limit-after-buffering", BANANA, "                if num > SIZE_LIMIT:\n                    raise BananaError(\"Security precaution: String too long.\")\n                if len(rest) >= num:\n",
           "                if len(rest) >= num:\n", expect_rule="decode/step"),
    Mutant("string-complete-needs-more", BANANA, "                if len(rest) >= num:\n", "                if len(rest) > num:\n", expect_rule="decode/step"),
    Mutant("float-little-endian-decode", BANANA, '                    gotItem(struct.unpack("!d", rest[:8])[0])\n', '                    gotItem(struct.unpack("<d", rest[:8])[0])\n', expect_rule="decode/step"),
    Mutant("b1282int-radix-256", BANANA, "        e <<= 7\n", "        e <<= 8\n", expect_rule="radix/b1282int"),
    Mutant("int2b128-keeps-high-bit", BANANA, "        stream(bytes((integer & 0x7F,)))\n", "        stream(bytes((integer & 0xFF,)))\n", expect_rule="radix/int2b128"),
    Mutant("incoming-vocabulary-not-inverted", BANANA, "        incomingVocabulary[v] = k\n", "        incomingVocabulary[k] = v\n", expect_rule="vocab/tables-inverse"),
    Mutant("vocab-sent-in-any-dialect", BANANA, '            if self.currentDialect == b"pb" and obj in self.outgoingSymbols:\n', "            if obj in self.outgoingSymbols:\n", expect_rule="encode/vocab"),
    Mutant("string-limit-skipped-with-vocabulary", BANANA, '            if self.currentDialect == b"pb" and obj in self.outgoingSymbols:\n                symbolID = self.outgoingSymbols[obj]\n                int2b128(symbolID, write)\n                write(VOCAB)\n            else:\n                if len(obj) > SIZE_LIMIT:\n                    raise BananaError(\n                        "byte string is too long to send (%d)" % (len(obj),)\n                    )\n',
           '            word = self.outgoingSymbols.get(obj) if self.currentDialect == b"pb" else None\n            if word is None and self.currentDialect != b"pb" and len(obj) > SIZE_LIMIT:\n                raise BananaError("byte string is too long to send (%d)" % (len(obj),))\n            if word is not None:\n                int2b128(word, write)\n                write(VOCAB)\n            else:\n',
           expect_rule="encode/size-limit-refused"),
    Mutant("list-size-limit-off", BANANA, "            if len(obj) > SIZE_LIMIT:\n                raise BananaError(\"list/tuple is too long to send (%d)\" % (len(obj),))\n", "", expect_rule="encode/size-limit-refused"),
    Mutant("leftover-dropped", BANANA, "        buffer = self.buffer + chunk\n", "        buffer = chunk\n", expect_rule="decode/"),
    Mutant("float-via-little-endian-struct", BANANA, '                    gotItem(struct.unpack("!d", rest[:8])[0])\n', "                    gotItem(self._double.unpack(rest[:8])[0])\n",
           more=[(BANANA, "    prefixLimit = None\n    sizeLimit = SIZE_LIMIT\n", "    prefixLimit = None\n    sizeLimit = SIZE_LIMIT\n    _double = struct.Struct(\"<d\")\n")], expect_rule="decode/"),
    Mutant("saved-buffer-not-cleared", BANANA, '        self.buffer = b""\n\n    def expressionReceived', '        pass\n\n    def expressionReceived', expect_rule="decode/segmentation-independent"),
    Mutant("prefix-limit-on-decoded-value", BANANA, "            if len(num) > self.prefixLimit:\n", "            if b1282int(num) > self._largestLongInt:\n", expect_rule="decode/"),
    Mutant("encode-straight-to-transport", BANANA, "        encodeStream = BytesIO()\n        self._encode(obj, encodeStream.write)\n        value = encodeStream.getvalue()\n        self.transport.write(value)\n",
           "        self._encode(obj, self.transport.write)\n", expect_rule="encode/refused-atomically"),
    Mutant("negative-int-boundary-sign", BANANA, "            elif obj < 0:\n                int2b128(-obj, write)\n                write(NEG)\n", "            elif obj < 0:\n                int2b128(-obj, write)\n                write(INT)\n",
           expect_rule="encode/int-forms"),
    Mutant('float-body-packed-by-a-cached-helper', BANANA, '            write(FLOAT)\n            write(struct.pack("!d", obj))\n', '            write(FLOAT)\n            write(_packDouble(obj))\n', more=[(BANANA, 'def setPrefixLimit(limit):\n', 'import functools\n\n\n@functools.cache\ndef _packDouble(number):\n    return struct.pack("!d", number)\n\n\ndef setPrefixLimit(limit):\n')], expect_rule='encode-cfg/float-path-not-memoised'),
    Mutant('float-bodies-remembered-in-a-module-table', BANANA, '            write(FLOAT)\n            write(struct.pack("!d", obj))\n', '            write(FLOAT)\n            write(_floatBodies.setdefault(obj, struct.pack("!d", obj)))\n', more=[(BANANA, 'def setPrefixLimit(limit):\n', '_floatBodies = {}\n\n\ndef setPrefixLimit(limit):\n')], expect_rule='encode-cfg/float-path-not-memoised'),
    Mutant('cached-helper-reached-through-a-plain-one', BANANA, '            write(FLOAT)\n            write(struct.pack("!d", obj))\n', '            _writeFloat(obj, write)\n', more=[(BANANA, 'def setPrefixLimit(limit):\n', 'from functools import lru_cache\n\n\n@lru_cache(maxsize=None)\ndef _body(x):\n    return struct.pack("!d", x)\n\n\ndef _writeFloat(x, write):\n    write(FLOAT)\n    write(_body(x))\n\n\ndef setPrefixLimit(limit):\n')], expect_rule='encode/float-bits-independent-of-history'),
    Mutant('integer-readers-table-without-LONGNEG', BANANA, '            elif typebyte == INT:\n                buffer = rest\n                num = b1282int(num)\n                gotItem(num)\n            elif typebyte == LONGINT:\n                buffer = rest\n                num = b1282int(num)\n                gotItem(num)\n            elif typebyte == LONGNEG:\n                buffer = rest\n                num = b1282int(num)\n                gotItem(-num)\n            elif typebyte == NEG:\n                buffer = rest\n                num = -b1282int(num)\n                gotItem(num)\n', '            elif typebyte in self._integerReaders:\n                buffer = rest\n                reader = self._integerReaders[typebyte]\n                reader(self, num, gotItem)\n', more=[(BANANA, '    def dataReceived(self, chunk):\n', '    def _readPositive(self, digits, deliver):\n        deliver(b1282int(digits))\n\n    def _readNegative(self, digits, deliver):\n        deliver(-b1282int(digits))\n\n    _integerReaders = {INT: _readPositive, LONGINT: _readPositive, NEG: _readNegative}\n\n    def dataReceived(self, chunk):\n')], expect_rule='tags-table/encoder-subset-of-decoder'),
    Mutant('integer-readers-table-negative-entries-swapped', BANANA, '            elif typebyte == INT:\n                buffer = rest\n                num = b1282int(num)\n                gotItem(num)\n            elif typebyte == LONGINT:\n                buffer = rest\n                num = b1282int(num)\n                gotItem(num)\n            elif typebyte == LONGNEG:\n                buffer = rest\n                num = b1282int(num)\n                gotItem(-num)\n            elif typebyte == NEG:\n                buffer = rest\n                num = -b1282int(num)\n                gotItem(num)\n', '            elif typebyte in self._integerReaders:\n                buffer = rest\n                reader = self._integerReaders[typebyte]\n                reader(self, num, gotItem)\n', more=[(BANANA, '    def dataReceived(self, chunk):\n', '    def _readPositive(self, digits, deliver):\n        deliver(b1282int(digits))\n\n    def _readNegative(self, digits, deliver):\n        deliver(-b1282int(digits))\n\n    _integerReaders = {INT: _readPositive, LONGINT: _readPositive, NEG: _readPositive, LONGNEG: _readNegative}\n\n    def dataReceived(self, chunk):\n')], expect_rule='decode/step'),
]
SILENT = [
    Silent('integer-arms-dispatched-through-a-class-table', BANANA, '            elif typebyte == INT:\n                buffer = rest\n                num = b1282int(num)\n                gotItem(num)\n            elif typebyte == LONGINT:\n                buffer = rest\n                num = b1282int(num)\n                gotItem(num)\n            elif typebyte == LONGNEG:\n                buffer = rest\n                num = b1282int(num)\n                gotItem(-num)\n            elif typebyte == NEG:\n                buffer = rest\n                num = -b1282int(num)\n                gotItem(num)\n', '            elif typebyte in self._integerReaders:\n                buffer = rest\n                reader = self._integerReaders[typebyte]\n                reader(self, num, gotItem)\n', more=[(BANANA, '    def dataReceived(self, chunk):\n', '    def _readPositive(self, digits, deliver):\n        deliver(b1282int(digits))\n\n    def _readNegative(self, digits, deliver):\n        deliver(-b1282int(digits))\n\n    _integerReaders = {INT: _readPositive, LONGINT: _readPositive, NEG: _readNegative, LONGNEG: _readNegative}\n\n    def dataReceived(self, chunk):\n')]),
    Silent('float-body-packed-by-a-precompiled-struct', BANANA, '            write(FLOAT)\n            write(struct.pack("!d", obj))\n', '            write(FLOAT)\n            write(_double.pack(obj))\n', more=[(BANANA, 'def setPrefixLimit(limit):\n', '_double = struct.Struct("!d")\n\n\ndef setPrefixLimit(limit):\n')]),
    Silent('float-frame-cached-by-its-packed-bytes', BANANA, '            write(FLOAT)\n            write(struct.pack("!d", obj))\n', '            write(_floatFrame(struct.pack("!d", obj)))\n', more=[(BANANA, 'def setPrefixLimit(limit):\n', 'from functools import lru_cache\n\n\n@lru_cache(maxsize=64)\ndef _floatFrame(body):\n    return FLOAT + body\n\n\ndef setPrefixLimit(limit):\n')]),
    Silent('float-written-by-an-uncached-module-helper', BANANA, '            write(FLOAT)\n            write(struct.pack("!d", obj))\n', '            _writeFloat(obj, write)\n', more=[(BANANA, 'def setPrefixLimit(limit):\n', 'def _writeFloat(x, write):\n    write(FLOAT)\n    write(struct.pack("!d", x))\n\n\ndef setPrefixLimit(limit):\n')]),
    Silent('prefix-test-duplicated-per-branch', BANANA, '            if len(num) > self.prefixLimit:\n                raise BananaError(\n                    "Security precaution: longer than %d bytes worth of prefix"\n                    % (self.prefixLimit,)\n                )\n', '            if typebyte == FLOAT:\n                if len(num) > self.prefixLimit:\n                    raise BananaError("Security precaution: prefix too long")\n            else:\n                if len(num) > self.prefixLimit:\n                    raise BananaError("Security precaution: prefix too long")\n'),
    Silent("merge-int-branches", BANANA, "            elif typebyte == INT:\n                buffer = rest\n                num = b1282int(num)\n                gotItem(num)\n            elif typebyte == LONGINT:\n",
           "            elif typebyte == INT or typebyte == LONGINT:\n"),
    Silent("int-boundary-rewritten", BANANA, "            elif obj <= self._largestInt:\n", "            elif not obj > self._largestInt:\n"),
    Silent("max-int-sent-as-longint", BANANA, "            elif obj <= self._largestInt:\n", "            elif obj < self._largestInt:\n"),
    Silent("float-via-precompiled-struct", BANANA, '                    gotItem(struct.unpack("!d", rest[:8])[0])\n', "                    gotItem(self._double.unpack(rest[:8])[0])\n",
           more=[(BANANA, "    prefixLimit = None\n    sizeLimit = SIZE_LIMIT\n", "    prefixLimit = None\n    sizeLimit = SIZE_LIMIT\n    _double = struct.Struct(\"!d\")\n")]),
    Silent("working-buffer-renamed", BANANA, "        buffer = self.buffer + chunk\n", "        buffer = b\"\".join((self.buffer, chunk))\n"),
    Silent("vocabulary-lookup-by-get", BANANA, '            if self.currentDialect == b"pb" and obj in self.outgoingSymbols:\n                symbolID = self.outgoingSymbols[obj]\n                int2b128(symbolID, write)\n                write(VOCAB)\n            else:\n',
           '            symbolID = self.outgoingSymbols.get(obj) if self.currentDialect == b"pb" else None\n            if symbolID is not None:\n                int2b128(symbolID, write)\n                write(VOCAB)\n            else:\n'),
    Silent("prefix-limit-by-position", BANANA, "            if len(num) > self.prefixLimit:\n", "            if pos > self.prefixLimit:\n"),
    Silent("encode-into-list-buffer", BANANA, "        encodeStream = BytesIO()\n        self._encode(obj, encodeStream.write)\n        value = encodeStream.getvalue()\n        self.transport.write(value)\n",
           "        parts = []\n        self._encode(obj, parts.append)\n        self.transport.write(b\"\".join(parts))\n"),
    Silent("encode-int-range-check-extracted", BANANA, "            if obj < self._smallestLongInt or obj > self._largestLongInt:\n                raise BananaError(\"int is too large to send (%d)\" % (obj,))\n",
           "            self._checkRange(obj)\n",
           more=[(BANANA, "    def _encode(self, obj, write):\n", "    def _checkRange(self, value):\n        if not self._smallestLongInt <= value <= self._largestLongInt:\n            raise BananaError(\"int is too large to send (%d)\" % (value,))\n\n    def _encode(self, obj, write):\n")]),
    Silent("decoder-size-check-helper", BANANA, "                if num > SIZE_LIMIT:\n                    raise BananaError(\"Security precaution: String too long.\")\n", "                _refuseOversized(num, \"String\")\n",
           more=[(BANANA, "class Banana(protocol.Protocol, styles.Ephemeral):\n", "def _refuseOversized(count, what):\n    if count > SIZE_LIMIT:\n        raise BananaError(\"Security precaution: %s too long.\" % (what,))\n\n\nclass Banana(protocol.Protocol, styles.Ephemeral):\n")]),
    Silent("decoder-int-branches-share-a-method", BANANA, "            elif typebyte == INT:\n                buffer = rest\n                num = b1282int(num)\n                gotItem(num)\n            elif typebyte == LONGINT:\n                buffer = rest\n                num = b1282int(num)\n                gotItem(num)\n",
           "            elif typebyte in (INT, LONGINT):\n                buffer = rest\n                self._deliverInteger(num, 1)\n",
           more=[(BANANA, "    buffer = b\"\"\n\n    def dataReceived(self, chunk):\n", "    buffer = b\"\"\n\n    def _deliverInteger(self, digits, sign):\n        self.gotItem(sign * b1282int(digits))\n\n    def dataReceived(self, chunk):\n")]),
    Silent("header-written-by-module-helper", BANANA, "            int2b128(len(obj), write)\n            write(LIST)\n", "            _header(len(obj), LIST, write)\n",
           more=[(BANANA, "class Banana(protocol.Protocol, styles.Ephemeral):\n", "def _header(number, marker, write):\n    int2b128(number, write)\n    write(marker)\n\n\nclass Banana(protocol.Protocol, styles.Ephemeral):\n")]),
    Silent("unsupported-type-message-built-first", BANANA, "            raise BananaError(\n                \"Banana cannot send {} objects: {!r}\".format(\n                    fullyQualifiedName(type(obj)), obj\n                )\n            )\n",
           "            typeName = fullyQualifiedName(type(obj))\n            raise BananaError(f\"Banana cannot send {typeName} objects: {obj!r}\")\n"),
    Silent("b1282int-shift-form", BANANA, "        i += n * e\n        e <<= 7\n", "        i = i + (n * e)\n        e = e * 128\n"),
]
