"""C45 - Jelly enforces its security policy (unjelly side)."""
from __future__ import annotations

import ast

from sa.astx import call_attr, call_name, names_read, src, statements, walk_local
from sa.effects import class_accesses
from sa.selftest import Mutant, Silent
from sa.source import AnalysisError
from sa.props._lib_c import norm_class
from sa.props._lib_i import sect, COMPAT, Abstain, BlockRaised, FollowModule, Model, NotPure, Raised, structural, bind_methods, eval_block, interp, module_env, peval

PROPERTY = "C45"
RULE_KINDS = {
    # for-all over paths: CFG dominance / provenance / who-may-write / table agreement on the normalised class (private helpers inlined)
    "resolver/": "structural", "instantiate/": "structural", "getattr/": "structural", "type-policy/": "structural", "unjelly/": "structural",
    "taster/": "structural", "registry/": "structural", "state/": "structural", "placeholders/": "structural", "policy/defaults-empty": "structural",
    # second layer: whole methods interpreted under modelled policies on crafted s-expressions
    "policy-eval/": "bounded", "references/": "bounded", "references/state-dict-identity": "structural", "references/registered-on-every-path": "structural", "policy/": "bounded",
}
JELLY = "spread/jelly.py"
TECHNIQUE = "CFG dominance + provenance on normalised _Unjellier; bounded policy scenarios second"
EXPLANATION = (
    'STRUCTURAL (for-all paths; _Unjellier with private helpers inlined and temporaries substituted; a rule that meets a he'
    'lper it could not inline abstains with a note): every resolver sink (namedObject / namedAny / __import__ ...; eval/exe'
    'c forbidden) is dominated by the true edge of taster.isModuleAllowed(m) - also through an alias or a cached answer - a'
    "nd m's assignment slice evaluates to the module part of the resolved name; every return / instantiation of a resolver "
    'result is dominated by isClassAllowed of it, every value-returning path of the dedicated resolver methods lies under t'
    'he module policy; every class handed to _genericUnjelly / _newInstance / _createBlank is a checked resolver result, a '
    "self.unjelly result, a registry entry or the method's own parameter; in unjelly() isTypeAllowed dominates every other "
    'step and one atom serves policy, registry and resolution; dynamic getattr on wire names is confined to the _unjelly_ p'
    "refix or to members of the checked class's __dict__; the taster is written only in __init__, no nested unjelly()/_Unje"
    'llier(), registries written only by the registration functions, no module-level container written from _Unjellier, eve'
    'ry placeholder test covers all subclasses of crefutil.NotKnown; SecurityOptions defaults are empty / plain value types; every returning path of _unjelly_reference stores the returned object in the reference table (an unguarded setdefault is not a store)'
    '. BOUNDED second layer: whole methods interpreted under modelled policies (permissive first, shared module state) on c'
    'rafted s-expressions in three shapes - nothing resolved outside the policy, nothing returned when the class is refused'
    ', only checked values instantiated, refused type atom stops everything; reference-table discipline for falsy / truthy '
    '/ unknown entries; the three SecurityOptions predicates on sample names. Not decided: full graph equality of jelly/unj'
    'elly round trips.'
)
ASSUMPTIONS = [
    "twisted.python.reflect.namedObject/namedAny import exactly the module part of the dotted name they are given",
    "classes registered through setUnjellyableForClass & co. are trusted by definition of the property",
    "persistentLoad / invoker are application call-backs outside the policy",
]

RESOLVERS_OBJECT = {"namedObject", "namedAny", "namedClass", "reflect.namedObject", "reflect.namedAny", "reflect.namedClass"}   # dotted object: module part = all but last
RESOLVERS_MODULE = {"__import__", "namedModule", "reflect.namedModule", "importlib.import_module", "import_module"}            # whole name is the module
FORBIDDEN = {"eval", "exec", "compile"}
INSTANTIATORS = {"self._genericUnjelly", "_newInstance", "_createBlank"}
NO_CLASS_POLICY = {
    # resolver sites whose result is not a class to be instantiated (one line of reason each)
    ("_Unjellier._unjelly_function", "namedAny"): "functions are governed by the module policy only (there is no isFunctionAllowed)",
    ("_Unjellier._unjelly_module", "__import__"): "a module object, governed by the module policy",
}
REGISTRY_WRITERS = {"setUnjellyableForClass": "unjellyableRegistry", "setUnjellyableFactoryForClass": "unjellyableFactoryRegistry"}
SAMPLES = [b"a.b.C", b"os.system", b"C", b"x.y", b"a.b.c.d.E"]
SAFE_DEFAULT_TYPES = {b"None", b"bool", b"boolean", b"string", b"str", b"int", b"float", b"datetime", b"time", b"date", b"timedelta", b"NoneType",
                      b"unicode", b"decimal", b"set", b"frozenset", b"long", b"long_int", b"list", b"tuple", b"dictionary", b"dict", b"reference", b"dereference",
                      b"unpersistable", b"persistent"}


def _single_defs(func):
    defs = {}
    for st in statements(func):
        tg = []
        if isinstance(st, ast.Assign):
            tg = [t for t in st.targets]
        elif isinstance(st, (ast.AugAssign, ast.AnnAssign)):
            tg = [st.target]
        elif isinstance(st, (ast.For, ast.AsyncFor)):
            tg = [st.target]
        for t in tg:
            for n in ast.walk(t):
                if isinstance(n, ast.Name):
                    defs.setdefault(n.id, []).append(st)
    for n in ast.walk(func):            # `(name := value)` inside a test or expression binds the local just like `name = value`
        if isinstance(n, ast.NamedExpr) and isinstance(n.target, ast.Name):
            syn = ast.Assign(targets=[ast.Name(id=n.target.id, ctx=ast.Store())], value=n.value)
            ast.copy_location(syn, n)
            defs.setdefault(n.target.id, []).append(syn)
    return defs


def _slice_values(func, exprs, root_value, funcs):
    """Evaluate ``exprs`` after the (single-assignment) slice of definitions they depend on, with every non-self
    parameter bound to ``root_value``."""
    defs = _single_defs(func)
    params = [a.arg for a in func.args.args]
    needed, order = set(), []
    work = [n for e in exprs for n in names_read(e)]
    while work:
        n = work.pop()
        if n in needed or n in params or n not in defs:
            continue
        if len(defs[n]) != 1 or not isinstance(defs[n][0], ast.Assign) or len(defs[n][0].targets) != 1 or not isinstance(defs[n][0].targets[0], ast.Name):
            raise AnalysisError(f"{func.name}: `{n}` is not a single plain assignment; name derivation not modelled")
        if any(isinstance(c, ast.Call) and isinstance(c.func, ast.Attribute) and isinstance(c.func.value, ast.Name) and c.func.value.id == n
               and c.func.attr in ("append", "extend", "insert", "pop", "remove", "update", "add", "clear", "sort", "reverse") for c in ast.walk(func)):
            raise AnalysisError(f"{func.name}: `{n}` is built up by mutation; name derivation not modelled")
        needed.add(n)
        order.append(defs[n][0])
        work.extend(names_read(defs[n][0].value))
    order.sort(key=lambda s: (s.lineno, s.col_offset))
    env = {p: root_value for p in params if p != "self"}
    try:
        eval_block(order, env, funcs=funcs)
        return [peval(e, env, funcs) for e in exprs]
    except (NotPure, Raised, BlockRaised) as ex:
        raise AnalysisError(f"{func.name}: name derivation not evaluable ({ex})")


def _is_call_to(x, names):
    return isinstance(x, ast.Call) and (call_name(x) in names)


def _policy_arg(func, expr, method):
    """The argument ``x`` when ``expr`` is (a cached result of) ``self.taster.<method>(x)`` - also through a local alias of the
    taster (``t = self.taster``) or of the bound method (``allowed = self.taster.isModuleAllowed``); else None."""
    defs = _single_defs(func)

    def one_def(name):
        d = defs.get(name, [])
        if len(d) == 1 and isinstance(d[0], ast.Assign) and len(d[0].targets) == 1 and isinstance(d[0].targets[0], ast.Name):
            return d[0].value
        return None

    def is_taster(e):
        if src(e) == "self.taster":
            return True
        return isinstance(e, ast.Name) and one_def(e.id) is not None and src(one_def(e.id)) == "self.taster"

    def is_method(e):
        if isinstance(e, ast.Attribute) and e.attr == method and is_taster(e.value):
            return True
        if isinstance(e, ast.Name) and one_def(e.id) is not None:
            v = one_def(e.id)
            return isinstance(v, ast.Attribute) and v.attr == method and is_taster(v.value)
        return False
    if isinstance(expr, ast.Call) and len(expr.args) == 1 and not expr.keywords and is_method(expr.func):
        return expr.args[0]
    if isinstance(expr, ast.Name) and one_def(expr.id) is not None and isinstance(one_def(expr.id), ast.Call):
        return _policy_arg(func, one_def(expr.id), method)
    return None


def _guard_args(g, nid, method):
    """Argument expressions of ``self.taster.<method>(arg)`` tests whose TRUE edge dominates node nid."""
    out = []
    for t, lab in g.edge_guards(nid):
        a = _policy_arg(g.func, g.node(t).ast, method) if lab == "T" else None
        if a is not None:
            out.append(a)
    return out


class _Resolved:
    """Stand-in for whatever a resolver returns (a class, so that `type(x) is type` style checks pass)."""


def _norm(m):
    return m.decode("ascii") if isinstance(m, bytes) else m


# where a wire name can sit in the s-expression handed to a handler: the atom itself, or inside a nested s-expression
SHAPES = [lambda n: [n, [b"dictionary"]], lambda n: [[b"class", n], [b"dictionary"]], lambda n: [b"x", n, [b"class", n]]]
WIRE_NAMES = [b"a.b.C", b"a.b.c.D", b"a.bc.D", b"a.D", b"os.system", b"a.b.os.system", b"a.b.os.path.join", b"C", b"a.b", b"a.b.C.method"]
# the permissive policy comes first: whatever it makes the method remember must not leak into the stricter runs that follow
POLICIES = [frozenset({"a.b", "a.b.c", "a.bc", "a", "os", "a.b.os", "a.b.os.path", "a.b.C", ""}), frozenset(), frozenset({"a.b"}), frozenset({"a"}), frozenset({"a.b", "os.path"})]


def _reachable_methods(cls, f):
    """f plus the private methods of cls it calls, transitively."""
    ms = {m.name: m for m in cls.body if isinstance(m, ast.FunctionDef)}
    seen, work = {f.name: f}, [f]
    while work:
        cur = work.pop()
        for c in ast.walk(cur):
            n = (call_name(c) or "") if isinstance(c, ast.Call) else ""
            if n.startswith("self.") and n.count(".") == 1 and n[5:] in ms and n[5:] not in seen and n[5:] != "unjelly":
                seen[n[5:]] = ms[n[5:]]
                work.append(ms[n[5:]])
    return list(seen.values())


class _SectionDone(Exception):
    """Raised to leave a section early once the evaluated rule has decided its clause (the structural fallback is skipped)."""


class _until_done:
    def __enter__(self):
        return self

    def __exit__(self, et, ev, tb):
        return et is not None and issubclass(et, _SectionDone)


def _type_policy_semantics(ctx, f, fq, menv, mod, cls):
    """unjelly() evaluated with a type policy that refuses: it must raise InsecureJelly having asked about exactly the type atom and
    having done nothing else - no registered class / factory used, no handler dispatched, nothing resolved or instantiated."""
    params = [a.arg for a in f.args.args if a.arg != "self"]
    if len(params) != 1:
        raise AnalysisError("unjelly: expected (self, obj)")
    import copy
    for atom in (b"a.b.C", b"list", b"registered.Type", b"made.ByFactory"):
        observed, asked = [], []
        funcs = FollowModule(mod, dict(COMPAT), menv)
        for r in RESOLVERS_OBJECT | RESOLVERS_MODULE:
            funcs[r] = lambda x, *a, _o=observed: (_o.append(("resolved", x)), _Resolved)[1]
        for inst in ("_newInstance", "_createBlank"):
            funcs[inst] = lambda c, *a, _o=observed: (_o.append(("instantiated", c)), None)[1]
        handler = lambda *a, _o=observed: _o.append(("handler dispatched",))            # noqa: E731
        handler.__name__ = "lam"
        funcs["getattr"] = lambda o, nme, d=None, _h=handler: (_h if isinstance(nme, str) and nme.startswith("_unjelly_") else d)
        funcs["hasattr"] = lambda o, nme: False
        registered = lambda *a, _o=observed: _o.append(("registered class used",))       # noqa: E731
        registered.__name__ = "lam"
        factory = lambda *a, _o=observed: _o.append(("registered factory used",))        # noqa: E731
        factory.__name__ = "lam"
        env = dict(menv)
        env.update({k: copy.deepcopy(v) for k, v in menv.items() if isinstance(v, (dict, list, set))})
        env["unjellyableRegistry"] = {b"registered.Type": registered}
        env["unjellyableFactoryRegistry"] = {b"made.ByFactory": factory}
        env.update({"self": object(), params[0]: [atom, [b"dictionary"]],
                    "self.taster.isTypeAllowed": lambda t, _a=asked: (_a.append(t), False)[1], "self.taster.isModuleAllowed": lambda m: True,
                    "self.taster.isClassAllowed": lambda c: True, "self._genericUnjelly": lambda c, st, _o=observed: _o.append(("instantiated", c)),
                    "self._maybePostUnjelly": lambda o: o, "self.unjelly": lambda o, _o=observed: (_o.append(("nested unjelly",)), _Unjellied(o))[1]})
        bind_methods(env, [cls], funcs, skip={f.name})
        raised = None
        try:
            r = eval_block(f.body, env, funcs=funcs)
            raised = r.raised
        except BlockRaised as ex:
            raised = str(ex.exc) if isinstance(ex.exc, RuntimeError) and str(ex.exc).startswith("raise ") else None
            if raised is None:
                raise AnalysisError(f"unjelly not evaluable for atom {atom!r}: {ex}")
        ctx.check(bool(raised) and "InsecureJelly" in raised and not observed, "policy-eval/type-refused-first", f"{fq} | refused type atom {atom!r}",
                  f"with a policy refusing the type atom {atom!r}, unjelly() " + ("does not raise InsecureJelly" if not (raised and "InsecureJelly" in raised) else "raises only after")
                  + f" {observed!r}: isTypeAllowed must be consulted, and obeyed, before anything else happens")
        ctx.check(asked[:1] == [atom], "policy-eval/type-atom", f"{fq} | policy asked about {atom!r}",
                  f"for the s-expression [{atom!r}, ...] the type policy is asked about {asked!r}: it must be asked about the very atom that is then looked up and dispatched on")


class _Unjellied(Model):
    """What self.unjelly(...) hands back in the evaluation: an object produced by the (checked) unjelly machinery."""

    def __init__(self, source):
        self.source = source


def _resolver_semantics(ctx, f, fq, menv, q="", mod=None, cls=None):
    """Evaluate the whole method with a modelled policy (exact-membership module allow-list, every class / type allowed) and
    recording resolvers: whatever idiom derives the module name, a name may be resolved only when the module that will really
    be imported / traversed for it - everything before the last dot (the whole name for module resolvers) - is allowed."""
    params = [a.arg for a in f.args.args if a.arg != "self"]
    if len(params) != 1:
        raise AnalysisError(f"{f.name}: expected (self, <s-expression>)")
    bad = None
    n = 0
    import copy
    shared = {k: copy.deepcopy(v) for k, v in menv.items() if isinstance(v, (dict, list, set))}      # module-level mutable state lives across unjelly calls and tasters
    reach = _reachable_methods(cls, f) if cls is not None else [f]
    res_calls = [c for m in reach for c in ast.walk(m) if _is_call_to(c, RESOLVERS_OBJECT | RESOLVERS_MODULE)]
    module_only = bool(res_calls) and all(call_name(c) in RESOLVERS_MODULE for c in res_calls)
    bad_inst = None

    def mentions_resolved(v):
        return v is _Resolved or (isinstance(v, (tuple, list)) and any(mentions_resolved(x) for x in v))
    for allowed in POLICIES:
        for name, shape in [(nm, sh) for nm in WIRE_NAMES for sh in SHAPES]:
            resolved = []
            funcs = FollowModule(mod, dict(COMPAT), menv) if mod is not None else dict(COMPAT)
            for r in RESOLVERS_OBJECT:
                funcs[r] = lambda x, *a, _r=resolved: (_r.append(("object", _norm(x))), _Resolved)[1]
            for r in RESOLVERS_MODULE:
                funcs[r] = lambda x, *a, _r=resolved: (_r.append(("module", _norm(x))), _Resolved)[1]
            funcs["getattr"] = lambda o, nme, d=None: d
            funcs["hasattr"] = lambda o, nme: False
            funcs["qual"] = lambda o: "qual"
            made = []
            for inst in ("_newInstance", "_createBlank"):
                funcs[inst] = lambda c, *a, _m=made: (_m.append(c), None)[1]
            env = dict(menv)
            env.update(shared)
            env.update({"self": object(), params[0]: shape(name),
                        "self.taster.isModuleAllowed": lambda m, _a=allowed: _norm(m) in _a, "self.taster.isClassAllowed": lambda c: True,
                        "self.taster.isTypeAllowed": lambda t: True, "self._genericUnjelly": lambda c, st, _m=made: (_m.append(c), ("instance of", c))[1],
                        "self._maybePostUnjelly": lambda o: o, "self.unjelly": lambda o: _Unjellied(o)})
            if cls is not None:
                bind_methods(env, [cls], funcs, skip={f.name})        # private helpers of _Unjellier are followed; the models above win
            res = None
            try:
                res = eval_block(f.body, env, funcs=funcs)
            except BlockRaised:
                pass                     # the evaluated method raises (e.g. on a name without a dot): nothing more is resolved
            n += 1
            for c in made:            # provenance of every class handed to an instantiation sink
                if not (c is _Resolved or isinstance(c, _Unjellied) or c is None) and bad_inst is None:
                    bad_inst = (name, c)
            if res is not None and res.returned and mentions_resolved(res.value) and not resolved:
                x = _norm(name)
                module = x if module_only else x.rpartition(".")[0]
                if module not in allowed and bad is None:
                    bad = (name, sorted(allowed), "remembered", x, module)
            for kind, x in resolved:
                if not isinstance(x, str):
                    continue                 # a non-text argument makes the real resolver raise: nothing is imported
                module = x if kind == "module" else x.rpartition(".")[0]
                if module not in allowed and bad is None:
                    bad = (name, sorted(allowed), kind, x, module)
    ctx.check(bad_inst is None, "policy-eval/instantiation-provenance", fq + " | <whole method, what reaches an instantiation sink>",
              bad_inst and f"for the s-expression naming {bad_inst[0]!r} the value {bad_inst[1]!r} - taken from the wire, neither a policy-checked resolver result nor an object produced by "
              "self.unjelly / the registries - is handed to an instantiation sink")
    # class policy: module allowed, class refused -> nothing resolved may be returned or instantiated (methods yielding classes / instances only)
    exempt = any((q, call_name(c)) in NO_CLASS_POLICY for c in ast.walk(f) if _is_call_to(c, RESOLVERS_OBJECT | RESOLVERS_MODULE))
    if not exempt and res_calls:
        badc = None
        for name, shape in [(nm, sh) for nm in (b"a.b.C", b"x.y") for sh in SHAPES]:
            made = []
            funcs = FollowModule(mod, dict(COMPAT), menv) if mod is not None else dict(COMPAT)
            for r in RESOLVERS_OBJECT | RESOLVERS_MODULE:
                funcs[r] = lambda x, *a: _Resolved
            funcs["getattr"] = lambda o, nme, d=None: d
            funcs["hasattr"] = lambda o, nme: False
            funcs["qual"] = lambda o: "qual"
            for inst in ("_newInstance", "_createBlank"):
                funcs[inst] = lambda c, *a, _m=made: (_m.append(c), None)[1]
            env = dict(menv)
            env.update({k: copy.deepcopy(v) for k, v in menv.items() if isinstance(v, (dict, list, set))})
            env.update({"self": object(), params[0]: shape(name), "self.taster.isModuleAllowed": lambda m: True, "self.taster.isClassAllowed": lambda c: False,
                        "self.taster.isTypeAllowed": lambda t: True, "self._genericUnjelly": lambda c, st, _m=made: (_m.append(c), ("instance of", c))[1],
                        "self._maybePostUnjelly": lambda o: o, "self.unjelly": lambda o: _Unjellied(o)})
            if cls is not None:
                bind_methods(env, [cls], funcs, skip={f.name})
            res = None
            try:
                res = eval_block(f.body, env, funcs=funcs)
            except BlockRaised:
                pass
            leaked = (res is not None and res.returned and mentions_resolved(res.value)) or any(m is _Resolved for m in made)
            if leaked and badc is None:
                badc = name
        ctx.check(badc is None, "policy-eval/class-refused", fq + " | <whole method, class refused by the policy>",
                  badc and f"with the module allowed but the class refused (isClassAllowed false), the s-expression naming {badc!r} still makes the method return or instantiate "
                  "the resolved object")
    ctx.check(bad is None, "policy-eval/never-resolves-outside-policy", fq + " | <whole method, modelled policy>",
              bad and (f"with modules {bad[1]!r} allowed, the s-expression naming {bad[0]!r} makes the method " +
                       ("return an object resolved earlier under a more permissive policy (a memo shared between tasters) although module " if bad[2] == "remembered"
                        else f"resolve {bad[3]!r}, which imports / traverses module ") +
                       f"{bad[4]!r} is not allowed (the policy of THIS unjelly must be asked about exactly the module part of the name, on every path that yields the object)"),
              detail=f"{n} (policy, wire name) cases")


def _check_references(ctx, menv):
    """Shared / cyclic references: the reference table must hand back exactly the object registered under an id - whatever its
    truth value - and create a placeholder only for an unknown id."""
    base = "twisted.spread.jelly._Unjellier."

    class Placeholder:
        def __init__(self, refid):
            self.refid = refid
            self.resolved = []

        def resolveDependants(self, o):
            self.resolved.append(o)

        def addDependant(self, *a):
            pass
    from sa.props._lib_i import Model

    class NotKnown(Model, Placeholder):
        pass
    f = ctx.func(JELLY, "_Unjellier._unjelly_dereference")
    p = [a.arg for a in f.args.args if a.arg != "self"][0]
    for label, value in (("empty list", []), ("empty dict", {}), ("empty tuple", ()), ("zero", 0), ("empty bytes", b""), ("non-empty list", [1])):
        table = {7: value}
        env = dict(menv)
        env.update({"self": object(), "self.references": table, p: [7], "NotKnown": NotKnown})
        r = eval_block(f.body, env, funcs={**COMPAT, "_Dereference": NotKnown})
        ctx.check(r.returned and r.value is value and table.get(7) is value, "references/table-discipline", f"{base}_unjelly_dereference | registered object: {label}",
                  f"a dereference of id 7, registered as {value!r}, returns {r.value!r} and leaves {table.get(7)!r} in the table: a shared {label} is replaced by an "
                  "unresolved placeholder in the result")
    table = {}
    env = dict(menv)
    env.update({"self": object(), "self.references": table, p: [7], "NotKnown": NotKnown})
    r = eval_block(f.body, env, funcs={**COMPAT, "_Dereference": NotKnown})
    ctx.check(r.returned and isinstance(r.value, NotKnown) and table.get(7) is r.value, "references/table-discipline", base + "_unjelly_dereference | unknown id",
              f"a dereference of an id not seen yet returns {r.value!r} with table {table!r}: it must register and return one placeholder (forward / cyclic reference)")
    f = ctx.func(JELLY, "_Unjellier._unjelly_reference")
    p = [a.arg for a in f.args.args if a.arg != "self"][0]
    for label, obj in (("empty list", []), ("non-empty list", [1]), ("zero", 0)):
        for prior in ("absent", "placeholder"):
            ph = NotKnown(7)
            table = {} if prior == "absent" else {7: ph}
            env = dict(menv)
            env.update({"self": object(), "self.references": table, "self.unjelly": lambda e, _o=obj: _o, p: [7, [b"x"]], "NotKnown": NotKnown})
            try:
                r = eval_block(f.body, env, funcs=dict(COMPAT))
                ok = r.returned and r.value is obj and table.get(7) is obj and (prior == "absent" or ph.resolved == [obj])
                got = (r.value, table.get(7), ph.resolved)
            except BlockRaised as ex:
                ok, got = False, repr(ex.exc)
            ctx.check(ok, "references/table-discipline", f"{base}_unjelly_reference | {label}, id {prior} before",
                      f"registering {obj!r} under id 7 ({prior} before) gives (result, table entry, placeholder notifications) = {got!r}; the object itself must be "
                      "returned, stored, and announced to a waiting placeholder")


def check(ctx):
    mod = ctx.mod(JELLY)
    cls = ctx.cls(JELLY, "_Unjellier")
    base = "twisted.spread.jelly."
    funcs = dict(COMPAT)
    menv = module_env(mod)
    orig_meths = {m.name: m for m in cls.body if isinstance(m, ast.FunctionDef)}
    keep = {n for n in orig_meths if not n.startswith("_") or n.startswith("_unjelly_") or n in ("_genericUnjelly", "_maybePostUnjelly", "_unjellySetOrFrozenset", "__init__")}
    ncls = norm_class(ctx, JELLY, "_Unjellier", keep=keep)       # private helpers inlined at their call sites, pure temporaries substituted
    meths = [(f"_Unjellier.{m.name}", m) for m in ncls.body if isinstance(m, ast.FunctionDef)]
    ctx.need(meths, "_Unjellier methods")
    known_calls = {"self." + n for n in keep} | {"self.unjelly", "self.unjellyInto", "self.persistentLoad"}
    n_res = n_inst = n_getattr = 0
    def scan_method(q, f):
        nonlocal n_res, n_inst, n_getattr
        ctx.functions.add(f"{JELLY}:{q}")
        g = ctx.cfg(f)
        fq = base + q
        # ---- R0 forbidden sinks
        for c in ast.walk(f):
            if isinstance(c, ast.Call) and call_name(c) in FORBIDDEN:
                ctx.violation("unjelly/no-code-evaluation", ctx.construct(fq, c), f"{call_name(c)}() on data reachable from the wire")
        # ---- R1 resolver sinks
        sinks = g.find(lambda x: _is_call_to(x, RESOLVERS_OBJECT | RESOLVERS_MODULE))
        semantic = False
        inst_sinks = g.find(lambda x: _is_call_to(x, INSTANTIATORS))
        fo = orig_meths.get(f.name)
        # private helpers that could not be inlined: a guard may live there, so the structural rules abstain instead of guessing
        opaque = sorted({call_name(c) for c in ast.walk(f) if isinstance(c, ast.Call) and (call_name(c) or "").startswith("self._") and call_name(c) not in known_calls})
        reaches_resolver = fo is not None and any(_is_call_to(c, RESOLVERS_OBJECT | RESOLVERS_MODULE) for m in _reachable_methods(cls, fo) for c in ast.walk(m))
        if fo is not None and (sinks or inst_sinks or reaches_resolver):
            try:
                _resolver_semantics(ctx, fo, fq, menv, q, mod, cls)
                semantic = True
            except AnalysisError as ex:
                ctx.note(f"{q}: whole-method evaluation not possible ({ex}); decided by the structural rules only")
        for s in sinks:
            for call in [x for x in walk_local(g.node(s).ast) if _is_call_to(x, RESOLVERS_OBJECT | RESOLVERS_MODULE)]:
                n_res += 1
                name = call_name(call)
                ctx.need(call.args, f"argument of {name} in {q}")
                xarg = call.args[0]
                margs = _guard_args(g, s, "isModuleAllowed")
                if not margs and opaque:
                    ctx.note(f"resolver/module-policy-dominates: {q}: no dominating test found but {opaque[0]} could not be inlined; clause left to policy-eval/never-resolves-outside-policy")
                    continue
                ok = ctx.check(bool(margs), "resolver/module-policy-dominates", ctx.construct(fq, call),
                               f"{name}({src(xarg)}) can be reached without self.taster.isModuleAllowed(...) having answered true: a name from the wire is "
                               "imported / resolved in a module the policy does not allow", witness=g.describe(g.path([g.entry], [s])))
                if ok:
                    bad = None
                    for sample in SAMPLES:
                        try:
                            vals = _slice_values(f, [xarg] + margs, [sample, [b"dictionary"]], FollowModule(mod, dict(funcs), menv))
                        except AnalysisError as ex:
                            ctx.note(f"resolver/checked-module-is-resolved-module: {q}: derivation of the module name not a plain assignment slice ({ex}); clause left to "
                                     "policy-eval/never-resolves-outside-policy")
                            bad = None
                            break
                        x, ms = vals[0], vals[1:]
                        xs = x.decode("ascii") if isinstance(x, bytes) else x
                        want = xs if name in RESOLVERS_MODULE else xs.rpartition(".")[0]
                        if not any((m.decode("ascii") if isinstance(m, bytes) else m) == want for m in ms):
                            bad = (sample, xs, ms, want)
                            break
                    ctx.check(bad is None, "resolver/checked-module-is-resolved-module", ctx.construct(fq, call) + " | module part",
                              bad and f"for the wire name {bad[0]!r} the policy is asked about module {bad[2]!r} but {name}({bad[1]!r}) resolves inside module {bad[3]!r}")
                # ---- R2 class policy on the result
                if (q, name) in NO_CLASS_POLICY:
                    ctx.ok("resolver/class-policy", ctx.construct(fq, call), "exempt: " + NO_CLASS_POLICY[(q, name)])
                    continue
                st = g.node(s).ast
                var = st.targets[0].id if isinstance(st, ast.Assign) and len(st.targets) == 1 and isinstance(st.targets[0], ast.Name) and st.value is call else None
                if var is None:
                    direct = any((isinstance(x, ast.Call) and call_name(x) in INSTANTIATORS and any(call in list(ast.walk(a)) for a in x.args)) for x in walk_local(st)) or \
                        (isinstance(st, ast.Return) and st.value is not None and call in list(ast.walk(st.value)) and not any(
                            isinstance(x, ast.Call) and (call_name(x) or "").startswith("self._") and call_name(x) not in INSTANTIATORS for x in ast.walk(st.value)))
                    if direct:
                        ctx.violation("resolver/class-policy", ctx.construct(fq, st),
                                      "the object resolved from a wire name is returned / instantiated in the same statement that resolves it: no isClassAllowed test can lie in between")
                    else:
                        ctx.note(f"resolver/class-policy: {q}: the resolver result is not bound to a local; clause left to policy-eval/class-refused")
                    continue
                uses = [n for n in g.ids(lambda n: n.kind == "stmt" and n.id != s and n.ast is not None) if
                        (isinstance(g.node(n).ast, ast.Return) and g.node(n).ast.value is not None and var in names_read(g.node(n).ast.value)) or
                        any(isinstance(x, ast.Call) and call_name(x) in INSTANTIATORS | {"self._maybePostUnjelly"} and any(var in names_read(a) for a in x.args)
                            for x in walk_local(g.node(n).ast))]
                uses = [u for u in uses if g.path([s], [u])]
                if not uses:
                    ctx.note(f"resolver/class-policy: {q}: no direct return / instantiation of {var} recognised; clause left to policy-eval/class-refused")
                for u in uses:
                    ok = any(src(a) == var for a in _guard_args(g, u, "isClassAllowed"))
                    if not ok and opaque:
                        ctx.note(f"resolver/class-policy: {q}: no dominating isClassAllowed({var}) found but {opaque[0]} could not be inlined; clause left to policy-eval/class-refused")
                        continue
                    ctx.check(ok, "resolver/class-policy", ctx.construct(fq, g.node(u).ast),
                              f"the object resolved from a wire name ({var}) is returned / instantiated without self.taster.isClassAllowed({var}) having answered true",
                              witness=g.describe(g.path([s], [u])))
        # ---- R2b every value-returning path of a dedicated resolver method lies under the module policy (early returns of cached values included)
        if sinks and f.name.startswith("_unjelly_") and not opaque:
            for rn in g.ids(lambda n: n.kind == "stmt" and isinstance(n.ast, ast.Return) and n.ast.value is not None
                            and not (isinstance(n.ast.value, ast.Constant) and n.ast.value.value is None)):
                ctx.check(bool(_guard_args(g, rn, "isModuleAllowed")), "resolver/every-return-under-policy", ctx.construct(fq, g.node(rn).ast),
                          "this return path hands back an object without self.taster.isModuleAllowed(...) having answered true on it (e.g. a value read from a cache "
                          "filled under another policy)", witness=g.describe(g.path([g.entry], [rn])))
        # ---- R3 instantiation sinks: provenance of the class argument
        for s in g.find(lambda x: _is_call_to(x, INSTANTIATORS)):
            for call in [x for x in walk_local(g.node(s).ast) if _is_call_to(x, INSTANTIATORS)]:
                n_inst += 1
                carg = call.args[0] if call.args else None
                why = _class_provenance(ctx, f, g, s, carg)
                if why is None and (opaque or _defined_by_private_call(f, carg)):
                    ctx.note(f"instantiate/class-provenance: {q}: provenance of {src(carg)} runs through a private helper that could not be inlined; clause left to "
                             "policy-eval/instantiation-provenance")
                    continue
                ctx.check(why is not None, "instantiate/class-provenance", ctx.construct(fq, call),
                          f"the class argument {src(carg)} of {call_name(call)} is neither a policy-checked resolver result, a self.unjelly(...) result, a registry entry "
                          "nor the method's own class parameter: a wire-controlled value is instantiated", detail=why or "")
        # ---- R8 dynamic attribute access with wire-derived names
        for s in g.find(lambda x: _is_call_to(x, {"getattr"})):
            for call in [x for x in walk_local(g.node(s).ast) if _is_call_to(x, {"getattr"})]:
                if len(call.args) < 2:
                    continue
                obj, nm = call.args[0], call.args[1]
                n_getattr += 1
                if isinstance(nm, ast.Constant):
                    ctx.ok("getattr/confined", ctx.construct(fq, call), "constant attribute name")
                    continue
                ok = False
                why = ""
                # constant prefix on self: "_unjelly_%s" % text
                if src(obj) == "self":
                    try:
                        probes = [peval(nm, {n: v for n in names_read(nm)}) for v in ("X", "unjellyFull", "__init__")]
                        ok = all(isinstance(p, str) and p.startswith("_unjelly_") and p.endswith(v) for p, v in zip(probes, ("X", "unjellyFull", "__init__")))
                        why = "dispatch confined to the _unjelly_ prefix"
                    except (NotPure, Raised):
                        ok = False
                else:
                    # name proven a direct member of the object's __dict__
                    for t, lab in g.edge_guards(s):
                        e = g.node(t).ast
                        if isinstance(e, ast.Compare) and len(e.ops) == 1 and ((lab == "T" and isinstance(e.ops[0], ast.In)) or (lab == "F" and isinstance(e.ops[0], ast.NotIn))) \
                                and src(e.left) == src(nm) and src(e.comparators[0]) == src(obj) + ".__dict__":
                            ok = True
                            why = "name is a key of the object's own __dict__"
                ctx.check(ok, "getattr/confined", ctx.construct(fq, call),
                          f"getattr({src(obj)}, {src(nm)}) with a name taken from the wire is not confined (to the '_unjelly_' handler prefix on self, or to keys of "
                          "the checked class's own __dict__): the peer can reach arbitrary attributes", detail=why)
        # ---- R7 no re-entry through the allow-all default policy
        for c in ast.walk(f):
            if isinstance(c, ast.Call) and call_name(c) in ("unjelly", "jelly.unjelly", "_Unjellier", "DummySecurityOptions"):
                ctx.violation("taster/no-policy-reset", ctx.construct(fq, c),
                              f"{call_name(c)}(...) inside _Unjellier starts a nested unjelly with the default allow-everything policy instead of self.taster")
    for q, f in meths:
        with sect(ctx, q):          # one unreadable method must not hide the sinks of the others
            scan_method(q, f)
    ctx.ok("taster/no-policy-reset", base + "_Unjellier", f"{len(meths)} methods scanned")
    with sect(ctx, "site floors"):
        ctx.floor("resolver sinks", n_res, 4)
        ctx.floor("instantiation sinks", n_inst, 4)
        ctx.floor("getattr sites", n_getattr, 3)

    # ---- R4 unjelly(): type policy first, one atom for everything
    with sect(ctx, 'R4 unjelly(): type policy first, one atom for everything'), structural(ctx, "type-policy/first, type-policy/same-atom", "policy-eval/type-refused-first, policy-eval/type-atom"):
        f = ctx.func(JELLY, "_Unjellier.unjelly")
        g = ctx.cfg(f)
        fq = base + "_Unjellier.unjelly"
        type_semantic = False
        try:
            _type_policy_semantics(ctx, f, fq, menv, mod, cls)
            type_semantic = True
        except AnalysisError as ex:
            ctx.note(f"unjelly: whole-method evaluation of the type policy not possible ({ex}); decided structurally")
        f = next(m for n_, m in meths if m.name == "unjelly")          # the structural rules read the normalised method
        g = ctx.cfg(f)
        tguards = g.ids(lambda n: n.kind == "test" and _policy_arg(f, n.ast, "isTypeAllowed") is not None)
        ctx.check(len(tguards) >= 1, "type-policy/first", fq + " | isTypeAllowed test", "unjelly() no longer asks the policy whether the type atom is allowed")
        acted = 0
        for n in g.ids(lambda n: n.kind in ("stmt", "test")):
            node = g.node(n)
            calls = [c for c in walk_local(node.ast) if isinstance(c, ast.Call) and call_name(c) not in ("type", "InsecureJelly") and _policy_arg(f, c, "isTypeAllowed") is None]
            if not calls or n in tguards:
                continue
            if isinstance(node.ast, ast.Raise):
                continue
            acted += 1
            ok = any(True for a in _guard_args(g, n, "isTypeAllowed"))
            ctx.check(ok, "type-policy/first", ctx.construct(fq, node.ast),
                      "this step of unjelly() runs before / without self.taster.isTypeAllowed(atom) having answered true", witness=g.describe(g.path([g.entry], [n])))
        ctx.floor("type-policy/first", acted, 6)
        # the atom asked about is the atom dispatched on
        atom_exprs = []
        for t in tguards:
            atom_exprs.append(("policy", _policy_arg(f, g.node(t).ast, "isTypeAllowed")))
        for c in ast.walk(f):
            if isinstance(c, ast.Call) and call_attr(c) == "get" and "Registry" in src(c.func) and c.args:
                atom_exprs.append(("registry", c.args[0]))
            if _is_call_to(c, RESOLVERS_OBJECT) and c.args:
                atom_exprs.append(("resolver", c.args[0]))
        for sample in SAMPLES:
            vals = _slice_values(f, [e for _, e in atom_exprs], [sample, [b"dictionary"]], funcs)
            norm = [(v.decode("ascii") if isinstance(v, bytes) else v) for v in vals]
            bad = [(k, v) for (k, _), v in zip(atom_exprs, norm) if v != sample.decode("ascii")]
            if bad:
                ctx.violation("type-policy/same-atom", fq + " | one atom for policy, registry and resolution",
                              f"for the s-expression [{sample!r}, ...] the {bad[0][0]} step uses {bad[0][1]!r} instead of the atom the type policy was asked about")
                break
        else:
            ctx.ok("type-policy/same-atom", fq + " | one atom for policy, registry and resolution", f"{len(atom_exprs)} uses x {len(SAMPLES)} samples")

    # ---- who may write the taster / the registries
    with sect(ctx, 'who may write the taster / the registries'):
        acc = [a for a in class_accesses(mod, cls, {"taster"}, receivers={"self"})]
        for a in acc:
            ctx.check(a.func == "_Unjellier.__init__", "taster/who-may-write", ctx.construct(base + a.func, a.node), "self.taster is replaced after construction: later checks consult a different policy")
        ctx.floor("taster/who-may-write", len(acc), 1)
        nreg = 0
        for q, fn in mod.functions():
            for st in ast.walk(fn):
                tgt = None
                if isinstance(st, (ast.Assign, ast.AugAssign)):
                    for t in (st.targets if isinstance(st, ast.Assign) else [st.target]):
                        root = t.value if isinstance(t, ast.Subscript) else t
                        if isinstance(root, ast.Name) and root.id in REGISTRY_WRITERS.values():
                            tgt = root.id
                elif isinstance(st, ast.Call) and isinstance(st.func, ast.Attribute) and isinstance(st.func.value, ast.Name) and st.func.value.id in REGISTRY_WRITERS.values() \
                        and st.func.attr in ("update", "setdefault", "pop", "clear", "__setitem__", "popitem"):
                    tgt = st.func.value.id
                if tgt:
                    nreg += 1
                    ctx.check(REGISTRY_WRITERS.get(q) == tgt, "registry/who-may-write", ctx.construct(base + q, st if not isinstance(st, ast.Call) else st),
                              f"{tgt} is modified in {q}: classes become instantiable from the wire without having been registered through the setUnjellyable* functions")
        ctx.floor("registry/who-may-write", nreg, 2)

    # ---- no state shared between tasters is written while unjellying
    with sect(ctx, 'no cross-policy memo'):
        shared_names = set()
        for st in mod.tree.body:
            if isinstance(st, ast.Assign) and len(st.targets) == 1 and isinstance(st.targets[0], ast.Name):
                v = st.value
                if isinstance(v, (ast.Dict, ast.List, ast.Set)) or (isinstance(v, ast.Call) and (call_name(v) or "").split(".")[-1] in
                                                                   ("dict", "list", "set", "deque", "defaultdict", "OrderedDict", "WeakValueDictionary", "WeakKeyDictionary")):
                    shared_names.add(st.targets[0].id)
        nshared = 0
        for q, f in meths:
            for st in ast.walk(f):
                hit = None
                if isinstance(st, (ast.Assign, ast.AugAssign, ast.Delete)):
                    for t in (st.targets if isinstance(st, (ast.Assign, ast.Delete)) else [st.target]):
                        root = t
                        while isinstance(root, ast.Subscript):
                            root = root.value
                        if isinstance(t, ast.Subscript) and isinstance(root, ast.Name) and root.id in shared_names:
                            hit = root.id
                elif isinstance(st, ast.Call) and isinstance(st.func, ast.Attribute) and isinstance(st.func.value, ast.Name) and st.func.value.id in shared_names \
                        and st.func.attr in ("update", "setdefault", "pop", "clear", "append", "add", "extend", "insert", "remove", "discard", "popitem", "__setitem__", "appendleft"):
                    hit = st.func.value.id
                elif isinstance(st, ast.Global):
                    hit = ", ".join(st.names)
                if hit:
                    nshared += 1
                    ctx.check(False, "state/no-cross-policy-memo", ctx.construct(base + q, st),
                              f"module-level state ({hit}) is written while unjellying: it outlives the _Unjellier and its taster, so what one (permissive) policy resolved "
                              "or registered is visible to an unjelly under another (strict) policy")
        ctx.ok("state/no-cross-policy-memo", base + "_Unjellier", f"{len(shared_names)} module-level containers, {nshared} writes from _Unjellier")

    # ---- placeholder tests cover every kind of unresolved object
    with sect(ctx, 'placeholder tests use the root class'):
        cmod = ctx.mod("persisted/crefutil.py")
        bases = {c.name: [src(b) for b in c.bases] for c in cmod.tree.body if isinstance(c, ast.ClassDef)}
        ctx.need("NotKnown" in bases, "persisted.crefutil.NotKnown")

        def descends(name, root, seen=()):
            return name == root or any(b.split("[")[0].split(".")[-1] not in seen and descends(b.split("[")[0].split(".")[-1], root, seen + (name,)) for b in bases.get(name, []))
        family = {n for n in bases if descends(n, "NotKnown")}
        sites = 0
        for q, f in meths:
            for c in ast.walk(f):
                if isinstance(c, ast.Call) and call_name(c) == "isinstance" and len(c.args) == 2:
                    named = [src(e).split(".")[-1] for e in (c.args[1].elts if isinstance(c.args[1], ast.Tuple) else [c.args[1]])]
                    if not any(n in family for n in named):
                        continue
                    sites += 1
                    covered = {n for n in family if any(descends(n, k) for k in named)}
                    missing = sorted(family - covered - {"NotKnown"})
                    ctx.check(not missing, "placeholders/root-class-test", ctx.construct(base + q, c),
                              f"this 'still unresolved?' test recognises only {sorted(covered)!r}; placeholders of kind {missing!r} (all subclasses of crefutil.NotKnown) pass as finished "
                              "objects, so a container referring back to an object under construction is frozen with the placeholder inside (cycle lost)")
        ctx.floor("placeholders/root-class-test", sites, 4)

    # ---- late resolution of cyclic references: a default state setter adopts the very state dict it is given
    with structural(ctx, "references/state-dict-identity", "(no evaluated rule covers this clause)"):
        setters = []
        uc = mod.find("Unjellyable")
        if isinstance(uc, ast.ClassDef):
            setters += [("Unjellyable." + m.name, m, m.args.args[-1].arg) for m in uc.body if isinstance(m, ast.FunctionDef) and m.name == "setStateFor"]
        ni = mod.find("_newInstance")
        if isinstance(ni, ast.FunctionDef):
            setters += [("_newInstance." + m.name, m, m.args.args[-1].arg) for m in ast.walk(ni) if isinstance(m, ast.FunctionDef) and m is not ni and m.args.args]
        if not setters:
            raise Abstain("no default state setter (Unjellyable.setStateFor / the setter inside _newInstance) found")
        for sq, m, sp in setters:
            touches = [n for n in ast.walk(m) if isinstance(n, ast.Attribute) and n.attr == "__dict__"]
            if not touches:
                continue
            adopts = [st for st in ast.walk(m) if isinstance(st, ast.Assign) and any(isinstance(t, ast.Attribute) and t.attr == "__dict__" for t in st.targets)
                      and (src(st.value) == sp or (isinstance(st.value, ast.BoolOp) and isinstance(st.value.op, ast.Or) and src(st.value.values[0]) == sp))]
            copies = [c for c in ast.walk(m) if isinstance(c, ast.Call) and ((isinstance(c.func, ast.Attribute) and c.func.attr in ("update", "copy") and "__dict__" in src(c.func.value))
                                                                            or (call_name(c) in ("dict", "copy.copy", "copy.deepcopy") and any(src(a) == sp for a in c.args)))]
            ctx.check(bool(adopts) and not copies, "references/state-dict-identity", base + sq,
                      f"the default state setter does not make the unjellied state dict itself the instance's __dict__ ({'it copies its items' if copies else 'no `__dict__ = ' + sp + '` assignment'}): "
                      "placeholders of cyclic references remember (that dict, key) and patch it once the target exists, so attributes pointing back to an object still under construction "
                      "stay crefutil placeholders forever")

    # ---- registering a reference: on every returning path the table entry is (over)written with the object that is returned
    with structural(ctx, "references/registered-on-every-path", "references/table-discipline (bounded)"):
        rf_ = next((m for _, m in meths if m.name == "_unjelly_reference"), None)
        if rf_ is None:
            raise Abstain("_Unjellier._unjelly_reference not found")
        rq = base + "_Unjellier._unjelly_reference"
        rg = ctx.cfg(rf_)
        is_table = lambda e: isinstance(e, ast.Attribute) and e.attr == "references" and isinstance(e.value, ast.Name) and e.value.id == "self"  # noqa: E731
        rets = rg.ids(lambda n: n.kind == "stmt" and isinstance(n.ast, ast.Return) and n.ast.value is not None)
        ret_names = {src(rg.node(r).ast.value) for r in rets}
        if len(ret_names) != 1 or not all(isinstance(rg.node(r).ast.value, ast.Name) for r in rets):
            raise Abstain("the registered object is not returned as one local name")
        obj = ret_names.pop()
        stores = rg.ids(lambda n: n.kind == "stmt" and isinstance(n.ast, ast.Assign) and any(isinstance(t, ast.Subscript) and is_table(t.value) for t in n.ast.targets)
                        and src(n.ast.value) == obj)
        # everything else that touches the table must be understood: reads (.get / [k] / in), the conditional store .setdefault; anything else -> abstain
        for x in ast.walk(rf_):
            if is_table(x):
                par = next((y for y in ast.walk(rf_) if any(ch is x for ch in ast.iter_child_nodes(y))), None)
                understood = (isinstance(par, ast.Subscript) or isinstance(par, ast.Compare)
                              or (isinstance(par, ast.Attribute) and par.attr in ("get", "setdefault", "__contains__")))
                if not understood:
                    raise Abstain(f"the reference table is used in a way this rule does not model ({src(par) if par is not None else 'self.references'})")
        helper = next((call_name(c) for c in ast.walk(rf_) if isinstance(c, ast.Call) and (call_name(c) or "").startswith("self._") and call_name(c) not in known_calls), None)
        if helper:
            raise Abstain(f"private helper {helper} could not be inlined")
        for sd in rg.find(lambda x: isinstance(x, ast.Call) and call_attr(x) == "setdefault" and is_table(x.func.value)):
            if rg.edge_guards(sd):
                raise Abstain("a guarded setdefault on the reference table (a store when the guard implies the id is absent)")
        # `assert 0, ...` (a constant-false assertion) ends its path: nothing is returned from there
        dead = rg.ids(lambda n: n.kind == "stmt" and isinstance(n.ast, ast.Assert) and isinstance(n.ast.test, ast.Constant) and not n.ast.test.value)
        wit = rg.must_pass([rg.entry], set(stores) | set(dead), to=set(rets), exc=False) if stores else rg.path([rg.entry], rets, edge_ok=lambda a, b, l: l != "exc")
        ctx.check(bool(stores) and wit is None, "references/registered-on-every-path", rq + f" | self.references[...] = {obj}",
                  f"_unjelly_reference can return {obj} without having stored it in the reference table (a conditional store such as setdefault keeps an earlier placeholder there): "
                  "a later dereference of the same id - the second mention of a cyclic object - gets the spent placeholder instead of the object", witness=rg.describe(wit))

    # ---- reference table discipline (shared and cyclic references)
    with sect(ctx, 'reference table discipline'):
        _check_references(ctx, menv)

    # ---- SecurityOptions predicates on a finite domain
    with sect(ctx, 'SecurityOptions predicates on a finite domain'):
        _check_security_options(ctx, mod, funcs)


def _defined_by_private_call(f, carg):
    if not isinstance(carg, ast.Name):
        return False
    return any(isinstance(st, ast.Assign) and any(isinstance(t, ast.Name) and t.id == carg.id for t in st.targets) and isinstance(st.value, ast.Call)
               and (call_name(st.value) or "").startswith("self._") and call_name(st.value) not in ("self._genericUnjelly",) for st in ast.walk(f))


def _class_provenance(ctx, f, g, sink, carg):
    if carg is None:
        return None
    if isinstance(carg, ast.Call) and call_name(carg) == "self.unjelly":
        return "result of self.unjelly(...) (produced by the checked sites)"
    if isinstance(carg, ast.Call) and call_attr(carg) == "get" and isinstance(carg.func.value, ast.Name) and carg.func.value.id in REGISTRY_WRITERS.values():
        return "registry entry"
    if not isinstance(carg, ast.Name):
        return None
    params = [a.arg for a in f.args.args]
    if carg.id in params and f.name in ("_genericUnjelly",):
        return "the method's own class parameter (callers are checked)"
    defs = _single_defs(f).get(carg.id, [])
    if len(defs) != 1 or not isinstance(defs[0], ast.Assign):
        return None
    v = defs[0].value
    if isinstance(v, ast.Call) and call_name(v) == "self.unjelly":
        return "result of self.unjelly(...) (produced by the checked sites)"
    if isinstance(v, ast.Call) and call_attr(v) == "get" and isinstance(v.func.value, ast.Name) and v.func.value.id in REGISTRY_WRITERS.values():
        return "registry entry"
    if isinstance(v, ast.Name) and v.id != carg.id:          # alias of another local (e.g. left by inlining `x = helper()`): follow it
        return _class_provenance(ctx, f, g, sink, v)
    if _is_call_to(v, RESOLVERS_OBJECT):
        if any(src(a) == carg.id for a in _guard_args(g, sink, "isClassAllowed")):
            return "resolver result under isClassAllowed"
    return None


class _K:
    pass


class _K2:
    pass


def _check_security_options(ctx, mod, funcs):
    base = "twisted.spread.jelly.SecurityOptions."

    def run(name, env, *args):
        fn = ctx.func(JELLY, "SecurityOptions." + name)
        try:
            return interp(fn, funcs, env)(object(), *args)
        except (Raised, BlockRaised) as ex:
            raise AnalysisError(f"SecurityOptions.{name} not evaluable: {ex}")

    env = {"self.allowedModules": {b"a.b": 1}}
    cases = [("a.b", True), (b"a.b", True), ("a", False), ("a.b.c", False), ("", False), ("a.bc", False), ("b", False)]
    bad = [(a, bool(run("isModuleAllowed", env, a))) for a, w in cases if bool(run("isModuleAllowed", env, a)) != w]
    ctx.check(not bad, "policy/module-exact-membership", base + "isModuleAllowed",
              bad and f"with only module 'a.b' allowed, isModuleAllowed({bad[0][0]!r}) is {bad[0][1]}: the policy must allow exactly the listed module names", detail=f"{len(cases)} names")
    env = {"self.allowedClasses": {_K: 1}}
    bad = [(k.__name__, bool(run("isClassAllowed", env, k))) for k, w in ((_K, True), (_K2, False), (object, False)) if bool(run("isClassAllowed", env, k)) != w]
    ctx.check(not bad, "policy/class-exact-membership", base + "isClassAllowed", bad and f"with only one class allowed, isClassAllowed({bad[0][0]}) is {bad[0][1]}")
    env = {"self.allowedTypes": {b"list": 1}}
    cases = [(b"list", True), ("list", True), (b"dict", False), (b"instance", False), (b"class", False), (b"module", False), (b"function", False), (b"method", False), (b"", False), (b"lis", False)]
    bad = [(a, bool(run("isTypeAllowed", env, a))) for a, w in cases if bool(run("isTypeAllowed", env, a)) != w]
    ctx.check(not bad, "policy/type-exact-membership", base + "isTypeAllowed",
              bad and f"with only type 'list' allowed, isTypeAllowed({bad[0][0]!r}) is {bad[0][1]}", detail="dotted names are deferred to the module/class policy (checked by the resolver rules)")
    # defaults: nothing but harmless value types
    init = ctx.func(JELLY, "SecurityOptions.__init__")
    e = module_env(mod)                 # module-level constants the defaults may be built from
    e["self"] = object()
    eval_block(init.body, e, funcs=FollowModule(mod, dict(funcs), e))
    for attr in ("self.allowedModules", "self.allowedClasses"):
        ctx.check(e.get(attr) == {}, "policy/defaults-empty", base + "__init__ | " + attr, f"a fresh SecurityOptions starts with {attr} = {e.get(attr)!r}: it must allow nothing until told to")
    extra = set(e.get("self.allowedTypes", {})) - SAFE_DEFAULT_TYPES
    ctx.check(isinstance(e.get("self.allowedTypes"), dict) and not extra, "policy/defaults-empty", base + "__init__ | self.allowedTypes",
              f"type atoms {sorted(extra)!r} are allowed by default: only plain value types may be (code-bearing atoms - instance, class, module, function, method - need an explicit allow)")
    c = ctx.cls(JELLY, "SecurityOptions")
    bt = next((st.value for st in c.body if isinstance(st, ast.Assign) and any(isinstance(t, ast.Name) and t.id == "basicTypes" for t in st.targets)), None)
    ctx.need(bt is not None, "SecurityOptions.basicTypes")
    vals = {v.encode("ascii") if isinstance(v, str) else v for v in peval(bt, {})}
    ctx.check(not (vals - SAFE_DEFAULT_TYPES), "policy/defaults-empty", base + "basicTypes", f"basicTypes contains code-bearing atoms {sorted(vals - SAFE_DEFAULT_TYPES)!r}")


MUTANTS = [
    Mutant("class-atom-module-check-dropped", JELLY, '        if not self.taster.isModuleAllowed(modName):\n            raise InsecureJelly("module %s not allowed" % modName)\n        klaus = namedObject(cname)\n',
           "        klaus = namedObject(cname)\n", expect_rule="resolver/"),
    Mutant("function-resolved-before-check", JELLY, '        if not self.taster.isModuleAllowed(modName):\n            raise InsecureJelly("Module not allowed: %s" % modName)\n        # XXX do I need an isFunctionAllowed?\n        function = namedAny(fname)\n',
           '        function = namedAny(fname)\n        if not self.taster.isModuleAllowed(modName):\n            raise InsecureJelly("Module not allowed: %s" % modName)\n',
           expect_rule="resolver/"),
    Mutant("generic-class-check-dropped", JELLY, '            clz = namedObject(jelTypeText)\n            if not self.taster.isClassAllowed(clz):\n                raise InsecureJelly("Class %s not allowed." % jelTypeText)\n',
           "            clz = namedObject(jelTypeText)\n", expect_rule="resolver/class-policy"),
    Mutant("class-atom-class-check-dropped", JELLY, '        if not self.taster.isClassAllowed(klaus):\n            raise InsecureJelly("class not allowed: %s" % qual(klaus))\n        return klaus\n', "        return klaus\n",
           expect_rule="resolver/class-policy"),
    Mutant("module-part-too-short", JELLY, '        modName = nativeString(".").join(clist[:-1])\n', '        modName = nativeString(".").join(clist[:1])\n', expect_rule="policy-eval/never-resolves-outside-policy"),
    Mutant("module-check-logged-not-enforced", JELLY, '        if not self.taster.isModuleAllowed(moduleName):\n            raise InsecureJelly(f"Attempted to unjelly module named {moduleName!r}")\n',
           '        if not self.taster.isModuleAllowed(moduleName):\n            warnings.warn(f"Attempted to unjelly module named {moduleName!r}")\n', expect_rule="resolver/"),
    Mutant("instance-atom-resolves-name-itself", JELLY, "        clz = self.unjelly(rest[0])\n        return self._genericUnjelly(clz, rest[1])\n",
           "        clz = namedObject(nativeString(rest[0][1]))\n        return self._genericUnjelly(clz, rest[1])\n", expect_rule="resolver/"),
    Mutant("instance-atom-nested-default-policy", JELLY, "        clz = self.unjelly(rest[0])\n        return self._genericUnjelly(clz, rest[1])\n",
           "        clz = unjelly(rest[0])\n        return self._genericUnjelly(clz, rest[1])\n", expect_rule="taster/no-policy-reset"),
    Mutant("dispatch-prefix-dropped", JELLY, '        thunk = getattr(self, "_unjelly_%s" % jelTypeText, None)\n', "        thunk = getattr(self, jelTypeText, None)\n", expect_rule="getattr/confined"),
    Mutant("method-any-attribute", JELLY, "        if im_name in im_class.__dict__:\n", "        if hasattr(im_class, im_name):\n", expect_rule="getattr/confined"),
    Mutant("type-check-after-registry", JELLY, "        if not self.taster.isTypeAllowed(jelTypeBytes):\n            raise InsecureJelly(jelTypeBytes)\n        regClass = unjellyableRegistry.get(jelTypeBytes)\n",
           "        regClass = unjellyableRegistry.get(jelTypeBytes)\n        if regClass is None and not self.taster.isTypeAllowed(jelTypeBytes):\n            raise InsecureJelly(jelTypeBytes)\n",
           expect_rule="type-policy/first"),
    Mutant("cached-answer-of-a-different-name", JELLY, '        if not self.taster.isModuleAllowed(modName):\n            raise InsecureJelly("Module not allowed: %s" % modName)\n',
           '        allowed = self.taster.isModuleAllowed(modSplit[0])\n        if not allowed:\n            raise InsecureJelly("Module not allowed: %s" % modName)\n',
           expect_rule="policy-eval/never-resolves-outside-policy"),
    Mutant("function-any-allowed-prefix", JELLY, '        modName = nativeString(".").join(modSplit[:-1])\n        if not self.taster.isModuleAllowed(modName):\n            raise InsecureJelly("Module not allowed: %s" % modName)\n',
           '        cut = len(modSplit) - 1\n        while cut > 0 and not self.taster.isModuleAllowed(nativeString(".").join(modSplit[:cut])):\n            cut -= 1\n'
           '        if cut == 0:\n            raise InsecureJelly("Module not allowed: %s" % fname)\n', expect_rule="policy-eval/never-resolves-outside-policy"),
    Mutant("dereference-truthiness-test", JELLY, "        if x is not None:\n            return x\n        der = _Dereference(refid)\n        self.references[refid] = der\n        return der\n",
           "        if x:\n            return x\n        der = _Dereference(refid)\n        self.references[refid] = der\n        return der\n", expect_rule="references/table-discipline"),
    Mutant("class-memo-shared-between-tasters", JELLY, '        clist = cname.split(nativeString("."))\n        modName = nativeString(".").join(clist[:-1])\n        if not self.taster.isModuleAllowed(modName):\n            raise InsecureJelly("module %s not allowed" % modName)\n',
           '        if cname in unjellyableFactoryRegistry:\n            return unjellyableFactoryRegistry[cname]\n        clist = cname.split(nativeString("."))\n        modName = nativeString(".").join(clist[:-1])\n        if not self.taster.isModuleAllowed(modName):\n            raise InsecureJelly("module %s not allowed" % modName)\n',
           more=[(JELLY, '            raise InsecureJelly("class not allowed: %s" % qual(klaus))\n        return klaus\n', '            raise InsecureJelly("class not allowed: %s" % qual(klaus))\n        unjellyableFactoryRegistry[cname] = klaus\n        return klaus\n')],
           expect_rule="resolver/"),
    Mutant("set-element-placeholder-test-narrowed", JELLY, "            if isinstance(data, NotKnown):\n", "            if isinstance(data, (_Dereference, _Container)):\n", expect_rule="placeholders/root-class-test"),
    Mutant("class-check-helper-forgets-to-raise", JELLY, '        if not self.taster.isClassAllowed(klaus):\n            raise InsecureJelly("class not allowed: %s" % qual(klaus))\n        return klaus\n', "        return self._vetClass(klaus)\n",
           more=[(JELLY, "    def _unjelly_class(self, rest):\n", "    def _vetClass(self, klass):\n        if not self.taster.isClassAllowed(klass):\n            log.msg(\"class not allowed: %s\" % qual(klass))\n        return klass\n\n    def _unjelly_class(self, rest):\n")],
           expect_rule="resolver/class-policy"),
    Mutant("helper-resolves-before-asking", JELLY, '            nameSplit = jelTypeText.split(".")\n            modName = ".".join(nameSplit[:-1])\n            if not self.taster.isModuleAllowed(modName):\n                raise InsecureJelly(\n                    f"Module {modName} not allowed (in type {jelTypeText})."\n                )\n            clz = namedObject(jelTypeText)\n',
           "            clz = self._lookup(jelTypeText)\n",
           more=[(JELLY, "    def _genericUnjelly(self, cls, state):\n", "    def _lookup(self, dotted):\n        found = namedObject(dotted)\n        if not self.taster.isModuleAllowed(dotted.rpartition(\".\")[0]):\n            raise InsecureJelly(\"Module not allowed.\")\n        return found\n\n    def _genericUnjelly(self, cls, state):\n")],
           expect_rule="policy-eval/never-resolves-outside-policy"),
    Mutant("state-dict-copied-into-instance", JELLY, "    def setStateFor(self, unjellier, state):\n        self.__dict__ = state\n", "    def setStateFor(self, unjellier, state):\n        self.__dict__.update(state)\n",
           expect_rule="references/state-dict-identity"),
    Mutant("new-instance-state-dict-copied", JELLY, "            instance.__dict__ = state or {}\n", "            instance.__dict__ = dict(state or {})\n", expect_rule="references/state-dict-identity"),
    Mutant("walrus-bound-class-from-the-wire", JELLY, "        regClass = unjellyableRegistry.get(jelTypeBytes)\n        if regClass is not None:\n", "        if (regClass := unjellyableRegistry.get(jelTypeBytes) or obj[1]) is not None:\n",
           expect_rule="instantiate/class-provenance"),
    Mutant("module-policy-prefix-match", JELLY, "        return moduleName in self.allowedModules\n", "        return any(moduleName.startswith(m) for m in self.allowedModules)\n",
           expect_rule="policy/module-exact-membership"),
    Mutant("type-policy-allows-code-atoms-by-default", JELLY, '            b"frozenset": 1,\n        }\n', '            b"frozenset": 1,\n            b"function": 1,\n        }\n', expect_rule="policy/defaults-empty"),
    Mutant("registry-filled-from-wire", JELLY, "        regClass = unjellyableRegistry.get(jelTypeBytes)\n", "        regClass = unjellyableRegistry.setdefault(jelTypeBytes, None)\n", expect_rule="registry/who-may-write"),
    Mutant('placeholder-notified-but-left-in-the-table', JELLY, '        ref = self.references.get(refid)\n        if ref is None:\n            self.references[refid] = o\n        elif isinstance(ref, NotKnown):\n            ref.resolveDependants(o)\n            self.references[refid] = o\n        else:\n            assert 0, "Multiple references with same ID!"\n        return o\n', '        ref = self.references.get(refid)\n        if ref is None:\n            self.references[refid] = o\n        elif isinstance(ref, NotKnown):\n            ref.resolveDependants(o)\n        else:\n            assert 0, "Multiple references with same ID!"\n        return o\n', expect_rule='references/registered-on-every-path'),
    Mutant('reference-stored-only-for-a-new-id', JELLY, '        ref = self.references.get(refid)\n        if ref is None:\n            self.references[refid] = o\n        elif isinstance(ref, NotKnown):\n            ref.resolveDependants(o)\n            self.references[refid] = o\n        else:\n            assert 0, "Multiple references with same ID!"\n        return o\n', '        ref = self.references.get(refid)\n        if refid not in self.references:\n            self.references[refid] = o\n        if isinstance(ref, NotKnown):\n            ref.resolveDependants(o)\n        return o\n', expect_rule='references/table-discipline'),
]
SILENT = [
    Silent('new-id-stored-with-a-guarded-setdefault', JELLY, '        ref = self.references.get(refid)\n        if ref is None:\n            self.references[refid] = o\n        elif isinstance(ref, NotKnown):\n            ref.resolveDependants(o)\n            self.references[refid] = o\n        else:\n            assert 0, "Multiple references with same ID!"\n        return o\n', '        ref = self.references.get(refid)\n        if ref is None:\n            self.references.setdefault(refid, o)\n        elif isinstance(ref, NotKnown):\n            ref.resolveDependants(o)\n            self.references[refid] = o\n        else:\n            assert 0, "Multiple references with same ID!"\n        return o\n'),
    Silent('reference-stored-first-then-placeholder-notified', JELLY, '        ref = self.references.get(refid)\n        if ref is None:\n            self.references[refid] = o\n        elif isinstance(ref, NotKnown):\n            ref.resolveDependants(o)\n            self.references[refid] = o\n        else:\n            assert 0, "Multiple references with same ID!"\n        return o\n', '        ref = self.references.get(refid)\n        self.references[refid] = o\n        if isinstance(ref, NotKnown):\n            ref.resolveDependants(o)\n        elif ref is not None:\n            assert 0, "Multiple references with same ID!"\n        return o\n'),
    Silent("rename-and-invert-guard", JELLY, '        if not self.taster.isModuleAllowed(modName):\n            raise InsecureJelly("Module not allowed: %s" % modName)\n        # XXX do I need an isFunctionAllowed?\n        function = namedAny(fname)\n        return function\n',
           '        if self.taster.isModuleAllowed(modName):\n            fn = namedAny(fname)\n            return fn\n        raise InsecureJelly("Module not allowed: %s" % modName)\n'),
    Silent("module-part-by-rpartition", JELLY, '        clist = cname.split(nativeString("."))\n        modName = nativeString(".").join(clist[:-1])\n', '        modName = cname.rpartition(".")[0]\n'),
    Silent("taster-alias-and-cached-answers", JELLY, '        if not self.taster.isModuleAllowed(modName):\n            raise InsecureJelly("module %s not allowed" % modName)\n        klaus = namedObject(cname)\n',
           '        policy = self.taster\n        moduleOk = policy.isModuleAllowed(modName)\n        if not moduleOk:\n            raise InsecureJelly("module %s not allowed" % modName)\n        klaus = namedObject(cname)\n'),
    Silent("type-answer-cached", JELLY, "        if not self.taster.isTypeAllowed(jelTypeBytes):\n            raise InsecureJelly(jelTypeBytes)\n",
           "        typeOk = self.taster.isTypeAllowed(jelTypeBytes)\n        if not typeOk:\n            raise InsecureJelly(jelTypeBytes)\n"),
    Silent("dereference-compacted-correctly", JELLY, "        if x is not None:\n            return x\n        der = _Dereference(refid)\n        self.references[refid] = der\n        return der\n",
           "        if x is None:\n            x = self.references[refid] = _Dereference(refid)\n        return x\n"),
    Silent("function-module-part-by-loop", JELLY, '        modName = nativeString(".").join(modSplit[:-1])\n',
           '        parts = []\n        for piece in modSplit[:-1]:\n            parts.append(piece)\n        modName = nativeString(".").join(parts)\n'),
    Silent("class-memo-owned-by-the-unjellier", JELLY, '        klaus = namedObject(cname)\n        objType = type(klaus)\n', '        klaus = namedObject(cname)\n        self.references.setdefault(("class", cname), klaus)\n        objType = type(klaus)\n'),
    Silent("placeholder-test-as-full-tuple", JELLY, "            if isinstance(data, NotKnown):\n", "            if isinstance(data, (NotKnown, _Dereference)):\n"),
    Silent("policy-checks-in-private-helpers", JELLY, '        if not self.taster.isModuleAllowed(modName):\n            raise InsecureJelly("module %s not allowed" % modName)\n        klaus = namedObject(cname)\n',
           "        self._requireModule(modName)\n        klaus = namedObject(cname)\n",
           more=[(JELLY, "    def _unjelly_class(self, rest):\n", "    def _requireModule(self, name):\n        if not self.taster.isModuleAllowed(name):\n            raise InsecureJelly(\"module %s not allowed\" % name)\n\n"
                  "    def _requireClass(self, klass):\n        if not self.taster.isClassAllowed(klass):\n            raise InsecureJelly(\"class not allowed: %s\" % qual(klass))\n        return klass\n\n    def _unjelly_class(self, rest):\n"),
                 (JELLY, '        if not self.taster.isClassAllowed(klaus):\n            raise InsecureJelly("class not allowed: %s" % qual(klaus))\n        return klaus\n', "        return self._requireClass(klaus)\n")]),
    Silent("generic-class-resolution-in-helper", JELLY, '            nameSplit = jelTypeText.split(".")\n            modName = ".".join(nameSplit[:-1])\n            if not self.taster.isModuleAllowed(modName):\n                raise InsecureJelly(\n                    f"Module {modName} not allowed (in type {jelTypeText})."\n                )\n            clz = namedObject(jelTypeText)\n            if not self.taster.isClassAllowed(clz):\n                raise InsecureJelly("Class %s not allowed." % jelTypeText)\n            return self._genericUnjelly(clz, obj[1])\n',
           "            wanted = self._vettedClass(jelTypeText)\n            return self._genericUnjelly(wanted, obj[1])\n",
           more=[(JELLY, "    def _genericUnjelly(self, cls, state):\n", "    def _vettedClass(self, dotted):\n        owner = dotted.rpartition(\".\")[0]\n        if not self.taster.isModuleAllowed(owner):\n            raise InsecureJelly(\"Module %s not allowed.\" % owner)\n"
                  "        found = namedObject(dotted)\n        if self.taster.isClassAllowed(found):\n            return found\n        raise InsecureJelly(\"Class %s not allowed.\" % dotted)\n\n    def _genericUnjelly(self, cls, state):\n")]),
    Silent("method-member-test-as-guard-clause", JELLY, "        if im_name in im_class.__dict__:\n            if im_self is None:\n                im = getattr(im_class, im_name)\n",
           "        if im_name not in im_class.__dict__:\n            raise TypeError(\"instance method changed\")\n        if True:\n            if im_self is None:\n                im = getattr(im_class, im_name)\n"),
    Silent("policy-defaults-from-module-constants", JELLY, "        self.allowedModules = {}\n        self.allowedClasses = {}\n", "        self.allowedModules = dict.fromkeys(_NOTHING_YET, 1)\n        self.allowedClasses = {}\n",
           more=[(JELLY, "class SecurityOptions:\n", "_NOTHING_YET = ()\n\n\nclass SecurityOptions:\n")]),
    Silent("state-setter-renamed-parameter", JELLY, "    def setStateFor(self, unjellier, state):\n        self.__dict__ = state\n", "    def setStateFor(self, unjellier, jellyState):\n        self.__dict__ = jellyState\n"),
    Silent("registry-lookup-bound-in-the-test", JELLY, "        regClass = unjellyableRegistry.get(jelTypeBytes)\n        if regClass is not None:\n", "        if (regClass := unjellyableRegistry.get(jelTypeBytes)) is not None:\n"),
    Silent("class-check-combined", JELLY, '            clz = namedObject(jelTypeText)\n            if not self.taster.isClassAllowed(clz):\n                raise InsecureJelly("Class %s not allowed." % jelTypeText)\n            return self._genericUnjelly(clz, obj[1])\n',
           '            clz = namedObject(jelTypeText)\n            if self.taster.isClassAllowed(clz):\n                return self._genericUnjelly(clz, obj[1])\n            raise InsecureJelly("Class %s not allowed." % jelTypeText)\n'),
]
