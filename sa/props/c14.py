"""C14 - abstract.FileDescriptor write buffering: bytes once and in order, close only when drained, producers honoured."""
from __future__ import annotations

import ast

from sa.astx import call_name, dotted, lincmp, lin_expect, src, walk_local
from sa.effects import accesses, class_accesses
from sa.selftest import Mutant, Silent
from sa.source import methods
from sa.astx import NotConst
from sa.props._lib_d import expand_calls, peval, FALSY_NONNULL, Inliner, resolve_locals, undecided_tests, abstract_instance, returns_under, path_under, aliases
from sa.props._lib_d import (NONNULL, call_nodes, calls_with, const_value_is, implied, is_self_attr, must_pass_under,
                             path_under, reach_under, self_assigns, slice_parts, succ_of)

PROPERTY = "C14"
ABS = "internet/abstract.py"
TECHNIQUE = "CFG dominance/must-pass on inlined views; exhaustive 32-row guard table; effects closure"
EXPLANATION = (
    "Decides on abstract.py: (a) _tempDataBuffer and _tempDataLen move together (append/+=len of the same value, "
    "extend/sum over the same iterable, reset pair) and are touched only by __init__/write/writeSequence/doWrite; "
    "(b) write/writeSequence buffer only while connected and not write-half-closed and every buffering path then reaches "
    "_maybePauseProducer() and startWriting(); (c) in doWrite the bytes handed to writeSomeData start at offset, offset "
    "advances exactly once by the returned count (never on an error result), every re-base of dataBuffer is followed by "
    "offset = 0, the temp buffer is consumed before it is reset and _concatenate keeps old-before-new order; (d) the "
    "close, half-close and resume actions are reachable only when offset == len(dataBuffer) and _tempDataLen == 0, and "
    "the drained-buffer decision table over (producer, streaming, paused, disconnecting, _writeDisconnecting) is the "
    "required one (pull or paused producer resumed, never closed over a pull producer, close only on request and "
    "returned to the reactor); (e) producerPaused is set with pauseProducing and cleared *before* resumeProducing; "
    "_isSendBufferFull is 'buffered > bufferSize' over both buffer levels; pull producers are never paused; "
    "(f) loseConnection/loseWriteConnection/unregisterProducer record the request and wake the writer instead of closing; "
    "registerProducer/connectionLost keep producer state coupled; whether a producer is registered is decided by identity with None at every site (never by "
    "the truthiness of the foreign object), and the decision table has rows for a registered but falsy producer. Not decided: the exact byte stream under adversarial "
    "partial writes (value-level), subclasses' writeSomeData."
    " METHODS: every clause has a structural decider (CFG dominance / must-pass / must-precede on views with unknown private helpers inlined, def-use, "
    "coupled-field effects, who-may-write closure, lincmp normal form); the drained-buffer decision table is finite-exhaustive (all 48 assignments of the state attributes (producer: absent / registered / registered-but-falsy) "
    ", completeness of that domain checked per run). No clause rests on bounded evidence."
)
RULE_KINDS = {
    # CFG dominance / must-pass-through / must-precede on the normalised view (unknown private helpers inlined), def-use of the sent slice and the
    # accepted count, coupled-field effects, who-may-write closed over the class call graph, lincmp normal form of the fullness test.  Rules that
    # fix some state attributes ("connected and disconnecting") follow only the branch outcomes consistent with them and BOTH outcomes of every other
    # test, so the verdict holds for every value of everything not fixed: a for-all over paths.
    "*": "structural",
    # every truth assignment of the five state attributes the drained-buffer tail of doWrite branches on (3 x 2^4 = 48 rows: producer absent / registered / registered but falsy); completeness of that domain
    # is checked on each run: under a full assignment no test of the region is left undecided (undecided_tests), i.e. the tail reads nothing else
    "dowrite/table": "finite-exhaustive",
    # the expression assigned to dataBuffer when it is re-based, evaluated on five (buffer, offset, pending chunks) samples - used when the value is not
    # built by the recognised _concatenate(dataBuffer, offset, _tempDataBuffer) call
    "dowrite/rebase-content/sampled": "bounded",
    # the helper that merges the unsent tail with the queued writes, evaluated on the grid offset in {0, 1, len-1, len} x (queued chunks / none)
    "concatenate/order": "bounded",
    # write / doWrite interpreted on scripted sequences (the OS accepts 0 bytes, a few, all; more data queued in between; buffer above and below
    # SEND_LIMIT): what was handed to writeSomeData and accepted, in order, must be exactly what was written
    "stream/": "bounded",
}
ASSUMPTIONS = [
    "startWriting/stopWriting/stopReading and writeSomeData do not modify the buffering attributes of the descriptor",
    "subclasses honour the writeSomeData contract (count accepted, or an exception object)",
]

QM = "twisted.internet.abstract."
QFD = QM + "FileDescriptor"
QCM = QM + "_ConsumerMixin"
BUF, LEN = "_tempDataBuffer", "_tempDataLen"
# the methods the rules are written against; any other private method of these classes is a helper introduced later and is
# analysed as if inlined at its call sites (sa.props._lib_d.Inliner)
KNOWN = ['_concatenate', '_dataMustBeBytes', '__init__', '_closeWriteConnection', '_getLogPrefix', '_isSendBufferFull', '_maybePauseProducer', '_postLoseConnection', 'connectionLost', 'doRead', 'doWrite', 'fileno', 'getHost', 'getPeer', 'logPrefix', 'loseConnection', 'loseWriteConnection', 'pauseProducing', 'readConnectionLost', 'registerProducer', 'resumeProducing', 'startReading', 'startWriting', 'stopConsuming', 'stopProducing', 'stopReading', 'stopWriting', 'unregisterProducer', 'write', 'writeConnectionLost', 'writeSequence', 'writeSomeData']


def _q(cls, name):
    return f"{QM}{cls}.{name}"


def _len_arg(e):
    if isinstance(e, ast.Call) and call_name(e) == "len" and len(e.args) == 1:
        return e.args[0]
    return None


def _sum_iterable(e):
    """sum(map(len, X)) / sum(len(i) for i in X) / sum([len(i) for i in X]) -> X"""
    if not (isinstance(e, ast.Call) and call_name(e) == "sum" and len(e.args) == 1):
        return None
    a = e.args[0]
    if isinstance(a, ast.Call) and call_name(a) == "map" and len(a.args) == 2 and src(a.args[0]) == "len":
        return a.args[1]
    if isinstance(a, (ast.GeneratorExp, ast.ListComp)) and len(a.generators) == 1 and not a.generators[0].ifs:
        gen = a.generators[0]
        la = _len_arg(a.elt)
        if la is not None and isinstance(gen.target, ast.Name) and src(la) == gen.target.id:
            return gen.iter
    return None


def _enclosing_for(node, var):
    n = getattr(node, "_parent", None)
    while n is not None and not isinstance(n, (ast.FunctionDef, ast.AsyncFunctionDef)):
        if isinstance(n, ast.For) and isinstance(n.target, ast.Name) and n.target.id == var:
            return n
        n = getattr(n, "_parent", None)
    return None


def _coupling(ctx, cls_name, fname, f):
    """K7: every mutation of _tempDataBuffer has its _tempDataLen counterpart on every path, and vice versa."""
    q = _q(cls_name, fname)
    g = ctx.cfg(f)
    acc = accesses(f, f"{cls_name}.{fname}", {BUF, LEN}, {"self"})
    bufs, lens = [], []
    for a in acc:
        if a.attr == BUF:
            if a.kind == "append" and a.node.args:
                bufs.append(("one", src(a.node.args[0]), a.node))
            elif a.kind == "extend" and a.node.args:
                bufs.append(("many", src(a.node.args[0]), a.node))
            elif a.kind in ("rebind-empty", "clear"):
                bufs.append(("reset", "", a.node))
            else:
                ctx.violation("buffer-len/operation-kind", ctx.construct(q, a.node),
                              f"_tempDataBuffer is modified by an unexpected operation ({a.kind}): bytes could be dropped, "
                              "duplicated or reordered without _tempDataLen following")
        else:
            st = a.node
            inc = None
            if a.kind == "augassign" and isinstance(st.op, ast.Add):
                inc = st.value
            elif a.kind == "assign" and isinstance(getattr(st, "value", None), ast.BinOp) and isinstance(st.value.op, ast.Add):
                # self._tempDataLen = self._tempDataLen + X  (either operand order)
                if src(st.value.left) == "self." + LEN:
                    inc = st.value.right
                elif src(st.value.right) == "self." + LEN:
                    inc = st.value.left
            if a.kind == "assign" and const_value_is(getattr(st, "value", None), lambda v: v == 0 and v is not False):
                lens.append(("reset", "", st, st))
            elif inc is not None:
                la = _len_arg(inc)
                it = _sum_iterable(inc)
                loop = _enclosing_for(st, src(la)) if la is not None and isinstance(la, ast.Name) else None
                if loop is not None:
                    lens.append(("many", src(loop.iter), st, loop))
                elif la is not None:
                    lens.append(("one", src(la), st, st))
                elif it is not None:
                    lens.append(("many", src(it), st, st))
                else:
                    ctx.violation("buffer-len/operation-kind", ctx.construct(q, st),
                                  "_tempDataLen is increased by something other than the length of the data just buffered")
            else:
                ctx.violation("buffer-len/operation-kind", ctx.construct(q, st),
                              "_tempDataLen is written by an unexpected operation (not '+= len(..)' / '= 0')")
    used = set()
    for kind, key, node in bufs:
        ok = False
        for i, (k2, key2, st, anchor) in enumerate(lens):
            if k2 != kind or key2 != key:
                continue
            m, u = g.ids_of(node), g.ids_of(anchor)
            if m and u and (g.must_pass(m, u) is None or (g.must_pass(u, m) is None and g.must_precede(u, m, exc=False) is None)):
                ok = True
                used.add(i)
                break
        ctx.check(ok, "buffer-len/coupled", ctx.construct(q, node),
                  "a change of _tempDataBuffer is not accompanied on every path by the matching change of _tempDataLen "
                  "(doWrite decides 'nothing left to send' from _tempDataLen: bytes get stranded or the connection closes early)")
    for i, (k2, key2, st, anchor) in enumerate(lens):
        if i not in used:
            ctx.violation("buffer-len/coupled", ctx.construct(q, st),
                          "_tempDataLen changes without the matching change of _tempDataBuffer (length counter drifts from the buffer)")
    return len([a for a in acc if a.attr == BUF])


_DRAINED = {"self.offset": 3, "len(self.dataBuffer)": 3, "self._tempDataLen": 0}
_UNSENT = {"self.offset": 2, "len(self.dataBuffer)": 3, "self._tempDataLen": 0}
_TEMP = {"self.offset": 3, "len(self.dataBuffer)": 3, "self._tempDataLen": 5}


def _guard_after(g, n, good, bad, after):
    return implied(g, n, good, bad, after=after)


# offset in {0, 1, len-1, len} x (pending chunks empty / non-empty), plus empty buffers
_CONCAT_SAMPLES = [(b"abcdef", 0, [b"gh"]), (b"abcdef", 0, []), (b"abcdef", 1, [b"gh", b"i"]), (b"abcdef", 5, [b"g"]), (b"abcdef", 6, [b"g", b"h"]), (b"abcdef", 6, []),
                   (b"abcdef", 2, [b"gh", b"i"]), (b"abc", 0, []), (b"abc", 3, [b"z"]), (b"", 0, [b"q", b"rs"]), (b"xy", 1, [b"", b"w"])]


def _peval_with_helpers(mod, expr, env):
    """peval; calls of module-level functions that are not reducible to one expression are run in the interpreter on the (already evaluated)
    argument values and their results entered as facts."""
    try:
        return peval(expr, env)
    except NotConst:
        pass
    from sa.props._lib_d import MiniVM, VMError, VMRaise, _NativeRaise
    funcs = {n.name for n in mod.tree.body if isinstance(n, ast.FunctionDef)}
    env = dict(env)
    for c in [x for x in ast.walk(expr) if isinstance(x, ast.Call) and isinstance(x.func, ast.Name) and x.func.id in funcs and not x.keywords]:
        try:
            args = [peval(a, env) for a in c.args]
            vm = MiniVM(mod)
            val = vm.call(vm.mod.globals_lookup(c.func.id), [list(a) if isinstance(a, list) else a for a in args], {})
        except (NotConst, VMError, VMRaise, _NativeRaise):
            raise NotConst("helper not evaluable")
        env[src(c)] = bytes(val) if isinstance(val, (memoryview, bytearray)) else val
    return peval(expr, env)


def _sampled_concat(expr, kbuf, koff, ktmp, mod=None):
    """True / a description of the first wrong value / None (not evaluable) for 'expr == buf[off:] + b"".join(tmp)' on the grid."""
    for buf, off, tmp in _CONCAT_SAMPLES:
        try:
            env = {kbuf: buf, koff: off, ktmp: list(tmp)}
            val = _peval_with_helpers(mod, expr, env) if mod is not None else peval(expr, env)
        except NotConst:
            return None
        if isinstance(val, (memoryview, bytearray)):
            val = bytes(val)
        if val != buf[off:] + b"".join(tmp):
            return f"for dataBuffer={buf!r} offset={off} _tempDataBuffer={tmp!r} it is {val!r}, not {buf[off:] + b''.join(tmp)!r}"
    return True


_STREAM_SCRIPTS = [
    # (label, SEND_LIMIT, [("w", data) | ("d", bytes accepted)], then drained with full acceptance)
    ("OS accepts 0 bytes of a fresh buffer, more data queued, then everything", 1 << 17, [("w", b"hello, "), ("d", 0), ("w", b"world"), ("d", 99)]),
    ("partial sends with data queued in between", 1 << 17, [("w", b"abcdef"), ("d", 2), ("w", b"gh"), ("d", 1), ("w", b"i"), ("d", 3), ("d", 99)]),
    ("nothing accepted twice in a row", 1 << 17, [("w", b"ab"), ("d", 0), ("d", 0), ("w", b"cd"), ("d", 1), ("d", 99)]),
    ("unsent tail longer than SEND_LIMIT (no merge), then shorter", 4, [("w", b"0123456789"), ("d", 3), ("w", b"AB"), ("d", 2), ("w", b"C"), ("d", 2), ("d", 99)]),
    ("writeSequence pieces and an empty write", 1 << 17, [("ws", [b"ab", b"", b"cd"]), ("w", b""), ("d", 1), ("ws", [b"e"]), ("d", 99)]),
]


def _stream(ctx, mod):
    """Bounded twin of the doWrite buffer rules: FileDescriptor.write / writeSequence / doWrite interpreted on scripted sequences with a stand-in
    writeSomeData that accepts a scripted number of bytes.  The accepted bytes, in order, must be a prefix of the written bytes after every step and
    all of them once the buffer has drained."""
    from sa.props._lib_d import MiniVM, VMError, VMRaise, VMStub, _NativeRaise
    from sa.source import AnalysisError
    q = _q("FileDescriptor", "doWrite")

    class _R(VMStub):
        def addWriter(self, x): pass
        def removeWriter(self, x): pass
        def addReader(self, x): pass
        def removeReader(self, x): pass

    def lazy(obj, offset=0, size=None):
        return memoryview(obj)[offset:(offset + size) if size is not None else None]

    for label, limit, script in _STREAM_SCRIPTS:
        c = q + f" | <{label}>"
        sent, written, state = [], [], {"accept": 0}

        def wsd(vm, o, data):
            n = min(state["accept"], len(data))
            sent.append(bytes(data[:n]))
            return n
        try:
            vm = MiniVM(mod, hooks={"writeSomeData": wsd}, overrides={"lazyByteSlice": lazy})
            o = vm.new(vm.cls("FileDescriptor"), _R())
            o.attrs["connected"] = 1
            o.attrs["SEND_LIMIT"] = limit
            bad = None
            steps = list(script) + [("d", 1 << 30)] * 6
            for op, arg in steps:
                if op == "w":
                    written.append(arg)
                    vm.call_method(o, "write", arg)
                elif op == "ws":
                    written.extend(arg)
                    vm.call_method(o, "writeSequence", list(arg))
                else:
                    state["accept"] = arg
                    r = vm.call_method(o, "doWrite")
                    if r is not None and not isinstance(r, int):
                        bad = f"doWrite returned {r!r}"
                        break
                if not b"".join(written).startswith(b"".join(sent)):
                    bad = f"after {op} {arg!r}: accepted so far {b''.join(sent)!r} is not a prefix of what was written {b''.join(written)!r}"
                    break
            if bad is None and b"".join(sent) != b"".join(written):
                bad = f"after the buffer drained the OS was given {b''.join(sent)!r}, written was {b''.join(written)!r}"
        except VMError as e:
            # the bounded twin cannot run this code: it abstains, the structural buffer rules above decide
            ctx.note(f"stream/bytes-sent-are-bytes-written: not evaluated for <{label}>: construct outside the interpreter's subset: {e}")
            continue
        except (VMRaise, _NativeRaise) as e:
            bad = f"interpreting the script raises {e!r}"[:200]
        ctx.check(bad is None, "stream/bytes-sent-are-bytes-written", c,
                  "the bytes handed to the OS differ from the bytes written (lost, duplicated or reordered): " + (bad or ""))


def _presence_by_identity(ctx, mod, inl, classes):
    """Structural sibling agreement: an attribute that holds an optional FOREIGN object (assigned from a parameter somewhere, None elsewhere) has its
    presence decided by identity with None at every site of the classes - never by truthiness, which is the foreign object's own business."""
    foreign = {}
    for cls in classes:
        for name, m in methods(cls).items():
            params = {a.arg for a in m.args.args[1:]}
            for st in walk_local(m):
                if isinstance(st, ast.Assign):
                    pairs = []
                    for t in st.targets:
                        if isinstance(t, (ast.Tuple, ast.List)) and isinstance(st.value, (ast.Tuple, ast.List)) and len(t.elts) == len(st.value.elts):
                            pairs.extend(zip(t.elts, st.value.elts))
                        else:
                            pairs.append((t, st.value))
                    for t, v in pairs:
                        if is_self_attr(t) and isinstance(v, ast.Name) and v.id in params:
                            foreign.setdefault(t.attr, set()).add("param")
                        elif is_self_attr(t) and const_value_is(v, lambda x: x is None):
                            foreign.setdefault(t.attr, set()).add("none")
        for k, v in __import__("sa.source", fromlist=["class_assigns"]).class_assigns(cls).items():
            if const_value_is(v, lambda x: x is None):
                foreign.setdefault(k, set()).add("none")
    optional = sorted(a for a, kinds in foreign.items() if kinds >= {"param", "none"})
    ctx.need(optional, "an attribute holding an optional user-supplied object (e.g. producer)")
    nsites = 0
    for cls in classes:
        for name, m in methods(cls).items():
            q = QM + f"{cls.name}.{name}"
            # a local that only ever holds a sample of the attribute (p = self.producer) stands for it: `if p:` is the same truthiness test
            sampled = {n: a for a in optional for n in aliases(m, f"self.{a}")}

            def held(o):
                if is_self_attr(o) and o.attr in optional:
                    return o.attr
                if isinstance(o, ast.Name) and o.id in sampled:
                    return sampled[o.id]
                return None
            for x in walk_local(m):
                operands = []
                if isinstance(x, (ast.If, ast.While, ast.IfExp, ast.Assert)):
                    operands = [x.test]
                elif isinstance(x, ast.BoolOp):
                    operands = list(x.values)
                elif isinstance(x, ast.UnaryOp) and isinstance(x.op, ast.Not):
                    operands = [x.operand]
                elif isinstance(x, ast.Call) and call_name(x) == "bool":
                    operands = list(x.args)
                for o in operands:
                    if held(o):
                        o = ast.Attribute(value=ast.Name(id="self"), attr=held(o))
                        nsites += 1
                        ctx.violation("presence/decided-by-identity", ctx.construct(q, x if not isinstance(x, (ast.If, ast.While)) else x.test),
                                      f"whether self.{o.attr} is set is decided by its truthiness here, while it is set / cleared with None and tested with "
                                      f"'is None' / 'is not None' everywhere else: a registered {o.attr} object that happens to be falsy (a queue-like producer "
                                      "with __len__ whose queue is empty) is treated as absent - never resumed, or the connection is closed over it")
                if isinstance(x, ast.Compare) and len(x.ops) == 1 and held(x.left) \
                        and const_value_is(x.comparators[0], lambda v: v is None):
                    nsites += 1
                    ctx.check(isinstance(x.ops[0], (ast.Is, ast.IsNot)), "presence/decided-by-identity", ctx.construct(q, x),
                              f"self.{held(x.left)} is compared with None by ==/!= (the foreign object's __eq__), not by identity")
    ctx.floor("presence/decided-by-identity", nsites, 3)


def check(ctx):
    from sa.props._lib_d import Guarded
    g_ = Guarded(ctx, RULE_KINDS, lambda: g_.__dict__.get('_inl14', []))
    _check(g_)


def _check(ctx):
    mod = ctx.mod(ABS)
    fd = ctx.cls(ABS, "FileDescriptor")
    cm = ctx.cls(ABS, "_ConsumerMixin")
    inl = Inliner(mod, ["FileDescriptor", "_ConsumerMixin"], KNOWN, extended=True)
    ctx.__dict__["_inl14"] = [inl]

    def view(qual):
        return inl.view(ctx.func(ABS, qual))

    def analysed_methods(cls):
        """(name, function to analyse): known methods as inlined views; a helper unknown to the rules only if it could not be
        inlined everywhere (then it is judged on its own)."""
        ms = methods(cls)
        out = [(n, inl.view(m)) for n, m in ms.items() if n in KNOWN]
        out += [(n, m) for n, m in ms.items() if n not in KNOWN and (n not in inl.inlined or n in inl.refused)]
        return out

    with ctx.section("buffer/length coupling"):
        # ---- (a) K7 buffer <-> length, in every method of the class --------------------------------------
        sites = 0
        for name, f in analysed_methods(fd):
            sites += _coupling(ctx, "FileDescriptor", name, f)
        ctx.floor("buffer-len/coupled", sites, 4)

    with ctx.section("write and writeSequence"):
        # ---- (b) write / writeSequence ----------------------------------------------------------------------
        for name in ("write", "writeSequence"):
            f = view(f"FileDescriptor.{name}")
            g = ctx.cfg(f)
            q = _q("FileDescriptor", name)
            muts = [a for a in accesses(f, name, {BUF}, {"self"}) if a.kind in ("append", "extend")]
            ctx.check(bool(muts), "write/buffers", q, f"{name}() no longer stores the data in _tempDataBuffer (bytes written while connected are dropped)")
            lens = [a for a in accesses(f, name, {LEN}, {"self"})]
            mp = call_nodes(g, "self._maybePauseProducer")
            sw = call_nodes(g, "self.startWriting")
            for a in muts:
                ids = g.ids_of(a.node)
                for n in ids:
                    c = ctx.construct(q, a.node)
                    ctx.check(implied(g, n, [{"self.connected": 1}], [{"self.connected": 0}]), "write/only-while-connected", c,
                              "data is buffered although the descriptor is not connected (bytes written after the connection "
                              "ended would be kept / sent on a recycled state)")
                    ctx.check(implied(g, n, [{"self._writeDisconnected": False}], [{"self._writeDisconnected": True}]),
                              "write/not-after-half-close", c,
                              "data is buffered after the write side was shut down: doWrite would hand it to a socket closed for writing")
                    w = g.must_pass([n], mp)
                    ctx.check(bool(mp) and w is None, "write/pause-check-follows", c,
                              "a buffering path does not reach _maybePauseProducer(): a streaming producer is not paused when the "
                              "buffer exceeds bufferSize", witness=g.describe(w))
                    w = g.must_pass([n], sw)
                    ctx.check(bool(sw) and w is None, "write/wakes-writer", c,
                              "a buffering path does not reach startWriting(): the data sits in the buffer until some other event "
                              "registers the descriptor for writing", witness=g.describe(w))
            # the fullness check must see the complete update
            upd = set()
            for a in muts + lens:
                upd.update(g.ids_of(a.node))
            for m in mp:
                w = g.path([m], upd, strict=True, edge_ok=lambda a, b, l: l != "exc")
                ctx.check(w is None, "write/pause-check-after-update", ctx.construct(q, g.node(m).ast),
                          "_maybePauseProducer() runs before the buffer/length update is complete (fullness computed on stale length)",
                          witness=g.describe(w))

    with ctx.section("doWrite"):
        # ---- (c) doWrite: what is sent, how offset moves ---------------------------------------------------------
        f = view("FileDescriptor.doWrite")
        g = ctx.cfg(f)
        q = _q("FileDescriptor", "doWrite")
        sends = calls_with(g, "self.writeSomeData")
        ctx.need(sends, "self.writeSomeData(...) call in doWrite")
        def _sent_ok(arg, n, extra_good=None):
            """arg denotes the unsent part of dataBuffer; returns (ok, why)."""
            why = "writeSomeData is not given the unsent part of dataBuffer"
            if isinstance(arg, ast.Name):
                defs = [x for x in walk_local(f) if isinstance(x, ast.Assign) and len(x.targets) == 1 and isinstance(x.targets[0], ast.Name)
                        and x.targets[0].id == arg.id]
                if defs:
                    res = [_sent_ok(d.value, nid) for d in defs for nid in g.ids_of(d)]
                    bad = [r for r in res if not r[0]]
                    return (not bad and bool(res)), (bad[0][1] if bad else why)
                return False, why
            if isinstance(arg, ast.IfExp):
                from sa.props._lib_d import test_value
                a = _sent_ok(arg.body, n) if src(arg.body) != "self.dataBuffer" else (test_value(arg.test, {"self.offset": 3}) is False, why)
                b = _sent_ok(arg.orelse, n) if src(arg.orelse) != "self.dataBuffer" else (test_value(arg.test, {"self.offset": 3}) is True, why)
                return (a[0] and b[0]), why
            sp = slice_parts(arg)
            if isinstance(arg, ast.Call) and call_name(arg) == "lazyByteSlice" and [src(x) for x in arg.args] == ["self.dataBuffer", "self.offset"]:
                return True, ""
            if sp and src(sp[0]) in ("self.dataBuffer", "memoryview(self.dataBuffer)") and sp[1] is not None and src(sp[1]) == "self.offset" and sp[2] is None:
                return True, ""
            if src(arg) == "self.dataBuffer":
                return implied(g, n, [{"self.offset": 0}], [{"self.offset": 3}]), (
                    "the whole dataBuffer is handed to writeSomeData although offset may be non-zero: bytes already "
                    "accepted by the OS are sent a second time")
            return False, why

        for n, call in sends:
            arg = call.args[0] if len(call.args) == 1 else None
            ok, why = _sent_ok(arg, n) if arg is not None else (False, "writeSomeData is not given the unsent part of dataBuffer")
            ctx.check(ok, "dowrite/send-from-offset", ctx.construct(q, call), why)
        result_vars = set()
        for n, call in sends:
            st = g.node(n).ast
            if isinstance(st, ast.Assign) and len(st.targets) == 1 and isinstance(st.targets[0], ast.Name) and st.value is call:
                result_vars.add(st.targets[0].id)
        adv = [n.id for n in g.nodes if n.kind == "stmt" and g.reachable(n.id) and isinstance(n.ast, ast.AugAssign) and is_self_attr(n.ast.target, "offset")]
        ctx.check(len(adv) == 1, "dowrite/single-advance", q,
                  f"doWrite advances self.offset at {len(adv)} places (exactly one '+= <bytes accepted>' is required)")
        for a in adv:
            st = g.node(a).ast
            c = ctx.construct(q, st)
            other = [x for x in walk_local(f) if isinstance(x, (ast.Assign, ast.AugAssign)) and x is not st
                     and any(isinstance(t, ast.Name) and t.id == src(st.value) for t in (x.targets if isinstance(x, ast.Assign) else [x.target]))
                     and not (isinstance(x, ast.Assign) and isinstance(x.value, ast.Call) and call_name(x.value) == "self.writeSomeData")]
            ctx.check(isinstance(st.op, ast.Add) and isinstance(st.value, ast.Name) and st.value.id in result_vars and not other,
                      "dowrite/advance-by-accepted", c,
                      "offset does not advance by exactly the count returned by writeSomeData (bytes skipped or re-sent)")
            w = g.must_precede([n for n, _ in sends], [a])
            ctx.check(w is None, "dowrite/advance-by-accepted", c + " | after send", "offset advances on a path that did not call writeSomeData",
                      witness=g.describe(w))
            rv = src(st.value)
            # evaluated, not matched: the error object is followed from the send to wherever the function ends
            err = abstract_instance("<exception object returned by writeSomeData>", {"Exception", "BaseException"})
            after_send = [s for n, _ in sends for s in succ_of(g, n, None)]
            facts_err = {rv: err}
            ctx.check(a not in reach_under(g, facts_err, srcs=after_send), "dowrite/no-advance-on-error", c,
                      "offset is advanced although writeSomeData returned an exception object",
                      witness=g.describe(path_under(g, facts_err, [a], srcs=after_send)))
            ends = returns_under(g, facts_err, srcs=after_send)
            ctx.check(bool(ends) and all(v is err for _, v in ends), "dowrite/error-returned", q + " | <error result of writeSomeData>",
                      "an exception object returned by writeSomeData is not returned to the reactor (connection loss is not reported)",
                      witness="; ".join(f"line {g.node(n).lineno}: returns {'an undetermined value' if v is NotConst else repr(v)}" for n, v in ends if v is not err))

        # re-basing dataBuffer
        zero_off = self_assigns(g, "offset", lambda v: const_value_is(v, lambda x: x == 0 and x is not False))
        rebases = self_assigns(g, "dataBuffer")
        ctx.floor("dowrite/rebase", len(rebases), 1)
        for r in rebases:
            st = g.node(r).ast
            c = ctx.construct(q, st)
            w = g.must_pass([r], zero_off, to=[g.exit] + [n for n, _ in sends])
            ctx.check(w is None, "dowrite/rebase-resets-offset", c,
                      "dataBuffer is replaced by its unsent remainder but offset is not reset to 0 before the next send / exit "
                      "(the first bytes of the new buffer are skipped)", witness=g.describe(w))
            v = st.value
            if const_value_is(v, lambda x: x == b""):
                ctx.check(implied(g, r, [_DRAINED], [_UNSENT]),
                          "dowrite/rebase-content", c, "dataBuffer is emptied although unsent bytes remain in it")
            else:
                ok = (isinstance(v, ast.Call) and call_name(v) == "_concatenate"
                      and [src(x) for x in v.args] == ["self.dataBuffer", "self.offset", "self._tempDataBuffer"])
                wrong_args = isinstance(v, ast.Call) and call_name(v) == "_concatenate" and not ok
                if ok or wrong_args:
                    ctx.check(ok, "dowrite/rebase-content", c,
                              "the new dataBuffer is not 'unsent rest of dataBuffer (from offset) followed by _tempDataBuffer'")
                else:
                    ctx.note("dowrite/rebase-content: the new dataBuffer is not built by _concatenate(dataBuffer, offset, _tempDataBuffer); its value is "
                             "decided by dowrite/rebase-content/sampled")
                val = _sampled_concat(expand_calls(mod, v), "self.dataBuffer", "self.offset", "self._tempDataBuffer", mod=mod)
                if val is None:
                    ctx.note("dowrite/rebase-content/sampled: the expression assigned to dataBuffer could not be evaluated: " + src(v)[:120])
                else:
                    ctx.check(val is True, "dowrite/rebase-content/sampled", c,
                              "the new dataBuffer is not 'unsent rest of dataBuffer (from offset) followed by _tempDataBuffer': " + str(val))
        send_ids = [n for n, _ in sends]
        for z in zero_off:
            c = ctx.construct(q, g.node(z).ast)
            w = g.must_precede(rebases, [z])
            w2 = g.path(send_ids, [z], avoid=rebases, strict=True, edge_ok=lambda a, b, l: l != "exc")
            ctx.check(w is None and w2 is None, "dowrite/offset-reset-only-with-rebase", c,
                      "offset is reset to 0 on a path that did not replace dataBuffer by its unsent remainder since the last send: "
                      "bytes already handed to the OS are sent again", witness=g.describe(w or w2))
        for n in [a for a in accesses(f, "doWrite", {BUF}, {"self"}) if a.kind in ("rebind-empty", "clear")]:
            for nid in g.ids_of(n.node):
                consumers = [r for r in rebases if "self._tempDataBuffer" in src(g.node(r).ast.value)]
                w = g.must_precede(consumers, [nid])
                ctx.check(bool(consumers) and w is None, "dowrite/temp-consumed-before-reset", ctx.construct(q, n.node),
                          "_tempDataBuffer is emptied on a path that did not first move its content into dataBuffer (written bytes are lost)",
                          witness=g.describe(w))

        # ---- (d) drained-only actions and the decision table ----------------------------------------------------------
        close = call_nodes(g, "self._postLoseConnection")
        half = call_nodes(g, "self._closeWriteConnection")
        resume = call_nodes(g, "self.producer.resumeProducing")
        wd_set = self_assigns(g, "_writeDisconnected", lambda v: const_value_is(v, lambda x: x is True))
        ctx.check(bool(close), "dowrite/close-present", q, "doWrite never calls _postLoseConnection(): loseConnection() can never complete")
        ctx.check(bool(half), "dowrite/half-close-present", q, "doWrite never calls _closeWriteConnection(): loseWriteConnection() can never complete")
        ctx.check(bool(resume), "dowrite/resume-present", q, "doWrite never resumes the producer")
        for kind, ns in (("close", close), ("half-close", half), ("half-close", wd_set), ("resume", resume)):
            for n in ns:
                c = ctx.construct(q, g.node(n).ast)
                ok1 = _guard_after(g, n, [_DRAINED], [_UNSENT], adv)
                ok2 = _guard_after(g, n, [_DRAINED], [_TEMP], adv)
                what = {"close": "the connection is closed", "half-close": "the write side is shut down", "resume": "the producer is resumed"}[kind]
                ctx.check(ok1, f"dowrite/{kind}-only-when-drained", c,
                          f"{what} while dataBuffer still holds unsent bytes (offset < len(dataBuffer) after this write)")
                ctx.check(ok2, f"dowrite/{kind}-only-when-drained", c + " | temp",
                          f"{what} while _tempDataBuffer still holds bytes written before (not _tempDataLen is not required)")
        for n in close:
            st = g.node(n).ast
            returned = isinstance(st, ast.Return) and st.value is not None and call_name(st.value) == "self._postLoseConnection"
            if not returned and isinstance(st, ast.Assign) and len(st.targets) == 1 and isinstance(st.targets[0], ast.Name) \
                    and call_name(st.value) == "self._postLoseConnection":
                v = st.targets[0].id
                rets_v = [x.id for x in g.nodes if x.kind == "stmt" and isinstance(x.ast, ast.Return) and x.ast.value is not None and src(x.ast.value) == v]
                returned = bool(rets_v) and g.must_pass([n], rets_v) is None
            ctx.check(returned, "dowrite/close-returned",
                      ctx.construct(q, st), "the result of _postLoseConnection() is not returned to the reactor: the connection is never torn down")
        for n in half:
            w = g.must_precede(wd_set, [n])
            ctx.check(bool(wd_set) and w is None, "dowrite/half-close-flag-first", ctx.construct(q, g.node(n).ast),
                      "_writeDisconnected is not set before the half-close handler runs (a loseConnection() from the handler would wait "
                      "for a doWrite that never closes)", witness=g.describe(w))

        starts = [s for a in adv for s in succ_of(g, a, None)]
        ctx.need(starts, "statement after the offset advance in doWrite")
        drained = {"self.offset": 3, "len(self.dataBuffer)": 3, "self._tempDataLen": 0}
        rows = 0
        # "a producer is registered" and "the producer object is truthy" are different facts: a producer is a foreign object and may well be falsy
        # (a queue-like producer with __len__ whose queue is empty); the table has a row for registered-and-falsy
        for prod in (None, NONNULL, FALSY_NONNULL):
            for streaming in (False, True):
                for paused in (False, True):
                    for disc in (0, 1):
                        for wdisc in (False, True):
                            facts = dict(drained)
                            facts.update({"self.producer": prod, "self.streamingProducer": streaming, "self.producerPaused": paused,
                                          "self.disconnecting": disc, "self._writeDisconnecting": wdisc})
                            label = (f"<drained: producer={'None' if prod is None else 'set' if prod is NONNULL else 'set-but-falsy'} streaming={streaming} paused={paused} "
                                     f"disconnecting={disc} writeDisconnecting={wdisc}>")
                            c = q + " | " + label
                            R = reach_under(g, facts, srcs=starts)
                            und = undecided_tests(g, facts, srcs=starts)
                            if und and rows == 0:
                                # the verdicts below still hold for every value of whatever else is read (both outcomes of an undecided test are followed);
                                # only the claim "these 32 rows are all there is" is not established on this tree
                                ctx.note("dowrite/table: the drained-buffer tail of doWrite also branches on " + src(g.node(und[0]).ast) +
                                         ", which is outside (producer, streamingProducer, producerPaused, disconnecting, _writeDisconnecting): the table is "
                                         "evaluated with that test free")
                            rows += 1
                            must_resume = prod is not None and (not streaming or paused)
                            pull = prod is not None and not streaming
                            if must_resume:
                                w = must_pass_under(g, facts, resume, srcs=starts)
                                ctx.check(w is None, "dowrite/table-resume", c,
                                          "the buffer drained but a pull producer / paused streaming producer is not asked for more data "
                                          "(it stays silent forever)", witness=g.describe(w))
                            if prod is None:
                                ctx.check(not (R & set(resume)), "dowrite/table-resume", c + " | none", "resumeProducing is reached without a producer")
                            if pull:
                                ctx.check(not (R & set(close)) and not (R & set(half)), "dowrite/table-no-close-over-pull-producer", c,
                                          "the connection is closed / half-closed while a non-streaming producer is still registered",
                                          witness=g.describe(path_under(g, facts, set(close) | set(half), srcs=starts)))
                            if not disc:
                                ctx.check(not (R & set(close)), "dowrite/table-close-only-on-request", c,
                                          "the connection is closed although loseConnection() was not called",
                                          witness=g.describe(path_under(g, facts, close, srcs=starts)))
                            if not wdisc:
                                ctx.check(not (R & set(half)), "dowrite/table-close-only-on-request", c + " | half",
                                          "the write side is shut down although loseWriteConnection() was not called")
                            if prod is None and disc:
                                w = must_pass_under(g, facts, close, srcs=starts)
                                ctx.check(w is None, "dowrite/table-close", c,
                                          "loseConnection() was requested, everything is sent and no producer is registered, yet doWrite does not close",
                                          witness=g.describe(w))
                            if prod is None and not disc and wdisc:
                                w = must_pass_under(g, facts, half, srcs=starts)
                                ctx.check(w is None, "dowrite/table-half-close", c,
                                          "loseWriteConnection() was requested and everything is sent, yet doWrite does not shut the write side down",
                                          witness=g.describe(w))
        ctx.floor("dowrite/table", rows, 48)
        # nothing of this under a non-drained buffer (path-sensitive version of the guard rule)
        for facts, lab in (({"self.offset": 2, "len(self.dataBuffer)": 3, "self._tempDataLen": 0}, "dataBuffer not drained"),
                           ({"self.offset": 3, "len(self.dataBuffer)": 3, "self._tempDataLen": 5}, "temp buffer not empty")):
            R = reach_under(g, facts, srcs=starts)
            bad = R & (set(close) | set(half) | set(resume))
            ctx.check(not bad, "dowrite/table-not-drained", q + f" | <{lab}>",
                      "close / half-close / resume is reachable while bytes are still buffered",
                      witness=g.describe(path_under(g, facts, bad, srcs=starts)) if bad else "")

    with ctx.section("stream evaluation"):
        _stream(ctx, mod)
    with ctx.section("_concatenate"):
        # _concatenate: old-before-new order
        cf = next((n for n in mod.tree.body if isinstance(n, ast.FunctionDef) and n.name == "_concatenate"), None)
        if cf is None:
            ctx.note("concatenate/order: no module-level _concatenate helper; the order of old and new bytes is decided where dataBuffer is re-based "
                     "(dowrite/rebase-content/sampled)")
        else:
            ctx.functions.add(f"{ABS}:_concatenate")
            params = [a.arg for a in cf.args.args]
            rets = [x for x in walk_local(cf) if isinstance(x, ast.Return)]
            ok = False
            if len(params) == 3 and len(rets) == 1 and isinstance(rets[0].value, ast.Call) and isinstance(rets[0].value.func, ast.Attribute) \
                    and rets[0].value.func.attr == "join" and const_value_is(rets[0].value.func.value, lambda x: x == b"") and len(rets[0].value.args) == 1:
                a = rets[0].value.args[0]
                if isinstance(a, ast.BinOp) and isinstance(a.op, ast.Add) and isinstance(a.left, (ast.List, ast.Tuple)) and len(a.left.elts) == 1:
                    sp = slice_parts(a.left.elts[0])
                    ok = bool(sp and params[0] in src(sp[0]) and sp[1] is not None and src(sp[1]) == params[1] and sp[2] is None
                              and src(a.right) == params[2])
            val = None
            if len(params) == 3:
                call = ast.parse(f"_concatenate({params[0]}, {params[1]}, {params[2]})", mode="eval").body
                val = _sampled_concat(expand_calls(mod, call), *params, mod=mod)
            if ok or val is True:
                ctx.ok("concatenate/order", QM + "_concatenate")
            elif val is None:
                ctx.note("concatenate/order: the body of _concatenate is neither the recognised join expression nor evaluable; clause left to "
                         "dowrite/rebase-content/sampled")
            else:
                ctx.violation("concatenate/order", QM + "_concatenate",
                              "_concatenate does not return 'bObj[offset:] followed by the elements of bArray' (old bytes before new, each once): " + str(val))

    with ctx.section("producer pause flag"):
        # ---- (e) producer flag coupling, fullness, pausing ----------------------------------------------------------------
        nflag = 0
        for name, m in analysed_methods(fd):
            gm = ctx.cfg(m)
            qm = _q("FileDescriptor", name)
            pauses = call_nodes(gm, "self.producer.pauseProducing")
            resumes = call_nodes(gm, "self.producer.resumeProducing")
            set_t = self_assigns(gm, "producerPaused", lambda v: const_value_is(v, lambda x: x is True))
            set_f = self_assigns(gm, "producerPaused", lambda v: const_value_is(v, lambda x: x is False))
            for p in pauses:
                nflag += 1
                ok = bool(set_t) and (gm.must_precede(set_t, [p]) is None or gm.must_pass([p], set_t) is None)
                ctx.check(ok, "producer-flag/pause-recorded", ctx.construct(qm, gm.node(p).ast),
                          "the producer is paused without producerPaused = True on that path: doWrite will never resume it")
            for s in set_t:
                nflag += 1
                ok = bool(pauses) and (gm.must_pass([s], pauses) is None or gm.must_precede(pauses, [s]) is None)
                ctx.check(ok, "producer-flag/pause-recorded", ctx.construct(qm, gm.node(s).ast),
                          "producerPaused = True without pauseProducing() on that path")
            for r in resumes:
                nflag += 1
                w = gm.must_precede(set_f, [r])
                ctx.check(bool(set_f) and w is None, "producer-flag/cleared-before-resume", ctx.construct(qm, gm.node(r).ast),
                          "resumeProducing() is called before producerPaused is cleared: a producer that writes synchronously and gets "
                          "paused again inside the call has its pause flag wiped afterwards and is never resumed", witness=gm.describe(w))
                back = gm.path([r], set_f, strict=True, edge_ok=lambda a, b, l: l != "exc")
                ctx.check(back is None, "producer-flag/cleared-before-resume", ctx.construct(qm, gm.node(r).ast) + " | after",
                          "producerPaused is cleared after the resumeProducing() call-out", witness=gm.describe(back))
            for s in set_f:
                nflag += 1
                ctx.check(bool(resumes) and gm.must_pass([s], resumes) is None, "producer-flag/cleared-before-resume",
                          ctx.construct(qm, gm.node(s).ast), "producerPaused is cleared without resuming the producer")
        ctx.floor("producer-flag", nflag, 2)

    with ctx.section("_isSendBufferFull"):
        # ---- fullness
        f = view("FileDescriptor._isSendBufferFull")
        q2 = _q("FileDescriptor", "_isSendBufferFull")
        rets = [x for x in walk_local(f) if isinstance(x, ast.Return) and x.value is not None]
        ctx.need(len(rets) == 1, "single return in _isSendBufferFull")
        nf = lincmp(resolve_locals(f, rets[0].value))
        want = [lin_expect({"len(self.dataBuffer)": 1, "self._tempDataLen": 1, "self.bufferSize": -1}, 1),
                lin_expect({"len(self.dataBuffer)": 1, "self.offset": -1, "self._tempDataLen": 1, "self.bufferSize": -1}, 1)]
        ctx.check(nf in want, "full/boundary", ctx.construct(q2, rets[0]),
                  "the send buffer is not reported full exactly when 'bytes in dataBuffer + _tempDataLen > bufferSize' "
                  f"(normal form found: {sorted(nf[0]) if nf else None} >= {nf[1] if nf else None})")

    with ctx.section("_maybePauseProducer"):
        # ---- pausing
        f = view("FileDescriptor._maybePauseProducer")
        g2 = ctx.cfg(f)
        q2 = _q("FileDescriptor", "_maybePauseProducer")
        pauses = call_nodes(g2, "self.producer.pauseProducing")
        ctx.check(bool(pauses), "pause/present", q2, "_maybePauseProducer never pauses the producer")
        for p in pauses:
            c = ctx.construct(q2, g2.node(p).ast)
            ctx.check(implied(g2, p, [{"self.producer": NONNULL}], [{"self.producer": None}]), "pause/only-with-producer", c,
                      "pauseProducing() reachable without a registered producer")
            ctx.check(implied(g2, p, [{"self.streamingProducer": True}], [{"self.streamingProducer": False}]), "pause/only-streaming", c,
                      "a pull (non-streaming) producer is paused: it has no pauseProducing contract and is driven by resumeProducing only")
            ctx.check(implied(g2, p, [{"self._isSendBufferFull()": True}], [{"self._isSendBufferFull()": False}]), "pause/only-when-full", c,
                      "the producer is paused although the buffer is not over bufferSize")
        w = must_pass_under(g2, {"self.producer": NONNULL, "self.streamingProducer": True, "self._isSendBufferFull()": True}, pauses)
        ctx.check(w is None, "pause/when-full", q2 + " | <streaming producer, buffer full>",
                  "a streaming producer is not paused although buffered data exceeds bufferSize", witness=g2.describe(w))

    with ctx.section("loseConnection"):
        # ---- (f) close requests, producer registration ---------------------------------------------------------------------
        f = view("FileDescriptor.loseConnection")
        g3 = ctx.cfg(f)
        q3 = _q("FileDescriptor", "loseConnection")
        hard = call_nodes(g3, "self.connectionLost", "self._postLoseConnection", "self._closeSocket")
        for h in hard:
            ctx.check(implied(g3, h, [{"self._writeDisconnected": True}], [{"self._writeDisconnected": False}]), "lose/no-immediate-close",
                      ctx.construct(q3, g3.node(h).ast),
                      "loseConnection() tears the connection down at once although buffered data may remain (only allowed when the write side is already shut)")
        facts = {"self.connected": 1, "self.disconnecting": 0, "self._writeDisconnected": False}
        dset = self_assigns(g3, "disconnecting", lambda v: const_value_is(v, bool))
        sw = call_nodes(g3, "self.startWriting")
        w = must_pass_under(g3, facts, dset)
        ctx.check(bool(dset) and w is None, "lose/records-request", q3 + " | <connected, first request>",
                  "loseConnection() does not set self.disconnecting: doWrite will never close", witness=g3.describe(w))
        w = must_pass_under(g3, facts, sw)
        ctx.check(bool(sw) and w is None, "lose/wakes-writer", q3 + " | <connected, first request>",
                  "loseConnection() does not call startWriting(): with an empty buffer no doWrite happens and the connection never closes",
                  witness=g3.describe(w))
        R = reach_under(g3, {"self.connected": 0})
        ctx.check(not (R & (set(hard) | set(dset))), "lose/only-while-connected", q3 + " | <not connected>",
                  "loseConnection() acts on a descriptor that is no longer connected (a second connectionLost is possible)")

    with ctx.section("loseWriteConnection"):
        # ---- loseWriteConnection
        f = view("FileDescriptor.loseWriteConnection")
        g4 = ctx.cfg(f)
        q4 = _q("FileDescriptor", "loseWriteConnection")
        ws = self_assigns(g4, "_writeDisconnecting", lambda v: const_value_is(v, lambda x: x is True))
        w1 = g4.must_pass([g4.entry], ws)
        w2 = g4.must_pass([g4.entry], call_nodes(g4, "self.startWriting"))
        ctx.check(bool(ws) and w1 is None, "lose-write/records-request", q4, "loseWriteConnection() does not set _writeDisconnecting")
        ctx.check(w2 is None, "lose-write/wakes-writer", q4, "loseWriteConnection() does not call startWriting(): the half-close never happens on an idle connection")
        ctx.check(not call_nodes(g4, "self._closeWriteConnection", "self.connectionLost"), "lose-write/no-immediate-close", q4,
                  "loseWriteConnection() shuts the write side down at once, before buffered data is sent")

    with ctx.section("unregisterProducer"):
        # ---- unregisterProducer
        f = view("_ConsumerMixin.unregisterProducer")
        g5 = ctx.cfg(f)
        q5 = _q("_ConsumerMixin", "unregisterProducer")
        clr = self_assigns(g5, "producer", lambda v: const_value_is(v, lambda x: x is None))
        ctx.check(bool(clr) and g5.must_pass([g5.entry], clr) is None, "unregister/clears", q5, "unregisterProducer() leaves self.producer set")
        sw = call_nodes(g5, "self.startWriting")
        w = must_pass_under(g5, {"self.connected": 1, "self.disconnecting": 1}, sw)
        ctx.check(bool(sw) and w is None, "unregister/wakes-pending-close", q5 + " | <connected, disconnecting>",
                  "a close postponed because of the producer is not re-armed when the producer unregisters: the connection never closes",
                  witness=g5.describe(w))

    with ctx.section("registerProducer"):
        # ---- registerProducer
        f = view("_ConsumerMixin.registerProducer")
        g6 = ctx.cfg(f)
        q6 = _q("_ConsumerMixin", "registerProducer")
        pparam = f.args.args[1].arg if len(f.args.args) >= 3 else "producer"
        sparam = f.args.args[2].arg if len(f.args.args) >= 3 else "streaming"
        store = self_assigns(g6, "producer", lambda v: src(v) == pparam)
        sstore = self_assigns(g6, "streamingProducer", lambda v: src(v) == sparam)
        ctx.check(bool(store), "register/stores", q6, "registerProducer() does not store the producer")
        for s in store:
            c = ctx.construct(q6, g6.node(s).ast)
            ctx.check(implied(g6, s, [{"self.producer": None}], [{"self.producer": NONNULL}]), "register/one-producer", c,
                      "a second producer silently replaces a registered one")
            ctx.check(implied(g6, s, [{"self.disconnected": 0}], [{"self.disconnected": 1}]), "register/not-when-disconnected", c,
                      "a producer is registered on a disconnected descriptor (it would never be stopped)")
            ok = bool(sstore) and (g6.must_pass([s], sstore) is None or g6.must_precede(sstore, [s], exc=False) is None)
            ctx.check(ok, "register/streaming-recorded", c,
                      "the producer is stored without recording whether it is streaming: a push producer is then driven as a pull producer "
                      "(or the reverse)")
        kick = call_nodes(g6, f"{pparam}.resumeProducing", "self.producer.resumeProducing")
        w = must_pass_under(g6, {"self.producer": None, "self.disconnected": 0, sparam: False}, kick)
        ctx.check(bool(kick) and w is None, "register/pull-producer-started", q6 + " | <pull producer>",
                  "a pull producer is registered but never asked for its first chunk", witness=g6.describe(w))
        R = reach_under(g6, {"self.producer": None, "self.disconnected": 0, sparam: True})
        ctx.check(not (R & set(kick)), "register/push-producer-not-kicked", q6 + " | <push producer>",
                  "resumeProducing() is called on a streaming producer at registration")
        stop = call_nodes(g6, f"{pparam}.stopProducing")
        w = must_pass_under(g6, {"self.producer": None, "self.disconnected": 1}, stop)
        ctx.check(bool(stop) and w is None, "register/stopped-when-disconnected", q6 + " | <disconnected>",
                  "a producer registered after the connection was lost is not told to stop", witness=g6.describe(w))

    with ctx.section("connectionLost"):
        # ---- connectionLost
        f = view("FileDescriptor.connectionLost")
        g7 = ctx.cfg(f)
        q7 = _q("FileDescriptor", "connectionLost")
        c0 = self_assigns(g7, "connected", lambda v: const_value_is(v, lambda x: not x))
        d1 = self_assigns(g7, "disconnected", lambda v: const_value_is(v, bool))
        ctx.check(bool(c0) and g7.must_pass([g7.entry], c0) is None, "lost/clears-connected", q7,
                  "connectionLost() leaves self.connected set: later write() calls keep buffering for a dead descriptor")
        ctx.check(bool(d1) and g7.must_pass([g7.entry], d1) is None, "lost/sets-disconnected", q7, "connectionLost() does not set self.disconnected")
        stop = call_nodes(g7, "self.producer.stopProducing")
        w = must_pass_under(g7, {"self.producer": NONNULL}, stop)
        ctx.check(bool(stop) and w is None, "lost/stops-producer", q7 + " | <producer registered>",
                  "a registered producer is not stopped when the connection is lost", witness=g7.describe(w))

    with ctx.section("presence of foreign objects"):
        _presence_by_identity(ctx, mod, inl, [fd, cm])
    with ctx.section("who may write"):
        # ---- who may write -----------------------------------------------------------------------------------------------------
        allow = {
            "offset": {"FileDescriptor.doWrite"}, "dataBuffer": {"FileDescriptor.doWrite"},
            BUF: {"FileDescriptor.__init__", "FileDescriptor.write", "FileDescriptor.writeSequence", "FileDescriptor.doWrite"},
            LEN: {"FileDescriptor.__init__", "FileDescriptor.write", "FileDescriptor.writeSequence", "FileDescriptor.doWrite"},
            "producerPaused": {"FileDescriptor.doWrite", "FileDescriptor._maybePauseProducer"},
            "_writeDisconnected": {"FileDescriptor.doWrite"}, "_writeDisconnecting": {"FileDescriptor.loseWriteConnection"},
            "disconnecting": {"FileDescriptor.loseConnection"},
            "connected": {"FileDescriptor.connectionLost"}, "disconnected": {"FileDescriptor.connectionLost"},
            "producer": {"_ConsumerMixin.registerProducer", "_ConsumerMixin.unregisterProducer", "FileDescriptor.connectionLost"},
            "streamingProducer": {"_ConsumerMixin.registerProducer"},
        }
        acc = class_accesses(mod, fd, set(allow), {"self"}) + class_accesses(mod, cm, set(allow), {"self"})
        for a in acc:
            ctx.check(inl.permitted(a.func.split(".")[-1], {x.split(".")[-1] for x in allow[a.attr]}), "who-may-write/" + a.attr, ctx.construct(QM + a.func, a.node),
                      f"self.{a.attr} is modified outside the functions that own the write-buffer protocol")
        ctx.floor("who-may-write", len(acc), 20)


_DW = "FileDescriptor.doWrite"
MUTANTS = [
    Mutant("merge-keeps-the-unsent-tail-only-when-something-was-already-sent", ABS, '    return b"".join([memoryview(bObj)[offset:]] + bArray)\n',
           "    tail = memoryview(bObj)[offset:] if offset else b\"\"\n    return b\"\".join([tail] + bArray)\n", expect_rule="concatenate/order"),
    Mutant("merge-with-nothing-queued-returns-the-whole-old-buffer", ABS, '    return b"".join([memoryview(bObj)[offset:]] + bArray)\n',
           "    if not bArray:\n        return bObj\n    return b\"\".join([memoryview(bObj)[offset:]] + bArray)\n", expect_rule="stream/bytes-sent-are-bytes-written"),
    Mutant("merge-puts-queued-writes-before-the-unsent-tail", ABS, '    return b"".join([memoryview(bObj)[offset:]] + bArray)\n', "    return b\"\".join(bArray + [memoryview(bObj)[offset:]])\n", expect_rule="stream/"),
    Mutant("write-drops-len-update", ABS, "            self._tempDataBuffer.append(data)\n            self._tempDataLen += len(data)\n",
           "            self._tempDataBuffer.append(data)\n", expect_rule="buffer-len/coupled"),
    Mutant("dowrite-drops-len-reset", ABS, "            self._tempDataBuffer = []\n            self._tempDataLen = 0\n",
           "            self._tempDataBuffer = []\n", expect_rule="buffer-len/coupled"),
    Mutant("writesequence-no-wakeup", ABS, "        self._maybePauseProducer()\n        self.startWriting()\n\n    def loseConnection",
           "        self._maybePauseProducer()\n\n    def loseConnection", expect_rule="write/wakes-writer"),
    Mutant("writesequence-no-pause-check", ABS, "            self._tempDataLen += len(i)\n        self._maybePauseProducer()\n",
           "            self._tempDataLen += len(i)\n", expect_rule="write/pause-check-follows"),
    Mutant("close-ignores-temp-buffer", ABS, "        if self.offset == len(self.dataBuffer) and not self._tempDataLen:",
           "        if self.offset == len(self.dataBuffer):", expect_rule="dowrite/"),
    Mutant("close-before-producer-test", ABS,
           "            if self.producer is not None and (\n                (not self.streamingProducer) or self.producerPaused\n            ):\n"
           "                # tell them to supply some more.\n                self.producerPaused = False\n                self.producer.resumeProducing()\n"
           "            elif self.disconnecting:\n                # But if I was previously asked to let the connection die, do\n                # so.\n"
           "                return self._postLoseConnection()\n",
           "            if self.disconnecting:\n                return self._postLoseConnection()\n"
           "            elif self.producer is not None and (\n                (not self.streamingProducer) or self.producerPaused\n            ):\n"
           "                self.producerPaused = False\n                self.producer.resumeProducing()\n",
           expect_rule="dowrite/table-no-close-over-pull-producer"),
    Mutant("rebase-keeps-offset", ABS, "            self.offset = 0\n            self._tempDataBuffer = []\n", "            self._tempDataBuffer = []\n",
           expect_rule="dowrite/rebase-resets-offset"),
    Mutant("resume-before-flag-reset", ABS, "                self.producerPaused = False\n                self.producer.resumeProducing()\n",
           "                self.producer.resumeProducing()\n                self.producerPaused = False\n", expect_rule="producer-flag/cleared-before-resume"),
    Mutant("full-boundary-ge", ABS, "return len(self.dataBuffer) + self._tempDataLen > self.bufferSize",
           "return len(self.dataBuffer) + self._tempDataLen >= self.bufferSize", expect_rule="full/boundary"),
    Mutant("full-ignores-temp", ABS, "return len(self.dataBuffer) + self._tempDataLen > self.bufferSize",
           "return len(self.dataBuffer) > self.bufferSize", expect_rule="full/boundary"),
    Mutant("unregister-no-wakeup", ABS, "        self.producer = None\n        if self.connected and self.disconnecting:\n            self.startWriting()\n",
           "        self.producer = None\n", expect_rule="unregister/wakes-pending-close"),
    Mutant("write-after-half-close", ABS, "        if not self.connected or self._writeDisconnected:\n            return\n        if data:",
           "        if not self.connected:\n            return\n        if data:", expect_rule="write/not-after-half-close"),
    Mutant("resend-from-start", ABS, "l = self.writeSomeData(lazyByteSlice(self.dataBuffer, self.offset))",
           "l = self.writeSomeData(self.dataBuffer)", expect_rule="dowrite/send-from-offset"),
    Mutant("concatenate-new-before-old", ABS, "return b\"\".join([memoryview(bObj)[offset:]] + bArray)",
           "return b\"\".join(bArray + [memoryview(bObj)[offset:]])", expect_rule="concatenate/order"),
    Mutant("pause-pull-producer", ABS, "        if self.producer is not None and self.streamingProducer:\n", "        if self.producer is not None:\n",
           expect_rule="pause/only-streaming"),
    Mutant("lose-no-wakeup", ABS, "                self.stopReading()\n                self.startWriting()\n                self.disconnecting = 1\n",
           "                self.stopReading()\n                self.disconnecting = 1\n", expect_rule="lose/wakes-writer"),
    Mutant("close-not-returned", ABS, "                return self._postLoseConnection()\n", "                self._postLoseConnection()\n",
           expect_rule="dowrite/close-returned"),
    Mutant("error-result-swallowed", ABS, "        if isinstance(l, Exception) or l < 0:\n            return l\n        self.offset += l\n",
           "        if isinstance(l, Exception) or l < 0:\n            return None\n        self.offset += l\n", expect_rule="dowrite/error-returned"),
    Mutant("advance-before-error-test", ABS, "        if isinstance(l, Exception) or l < 0:\n            return l\n        self.offset += l\n",
           "        if not isinstance(l, Exception) and l < 0:\n            return l\n        self.offset += l\n", expect_rule="dowrite/no-advance-on-error"),
    Mutant("drained-reset-keeps-buffer", ABS, "            self.dataBuffer = b\"\"\n            self.offset = 0\n            # stop writing.\n",
           "            self.offset = 0\n            # stop writing.\n", expect_rule="dowrite/offset-reset-only-with-rebase"),
    Mutant("pause-flag-not-set", ABS, "                self.producerPaused = True\n                self.producer.pauseProducing()\n",
           "                self.producer.pauseProducing()\n", expect_rule="producer-flag/pause-recorded"),
    Mutant("streaming-flag-not-recorded", ABS, "            self.producer = producer\n            self.streamingProducer = streaming\n",
           "            self.producer = producer\n", expect_rule="register/streaming-recorded"),
    Mutant("helper-drops-length-update", ABS,
           "            self._tempDataBuffer.append(data)\n            self._tempDataLen += len(data)\n            self._maybePauseProducer()\n            self.startWriting()\n",
           "            self._tempDataBuffer.append(data)\n            self._noteQueued(len(data))\n",
           more=[(ABS, "    def write(self, data: bytes) -> None:\n",
                  "    def _noteQueued(self, count):\n        self._maybePauseProducer()\n        self.startWriting()\n\n    def write(self, data: bytes) -> None:\n")],
           expect_rule="buffer-len/coupled"),
    Mutant("helper-writes-offset-from-outside-dowrite", ABS, "    def pauseProducing(self):\n        self.stopReading()\n",
           "    def pauseProducing(self):\n        self._rewind()\n        self.stopReading()\n\n    def _rewind(self):\n        self.offset = 0\n", expect_rule="who-may-write/offset"),
    Mutant("producer-presence-by-truthiness-when-pausing", ABS, "        if self.producer is not None and self.streamingProducer:\n", "        if self.producer and self.streamingProducer:\n",
           expect_rule="presence/decided-by-identity"),
    Mutant("connection-lost-skips-falsy-producer", ABS, "        if self.producer is not None:\n            self.producer.stopProducing()\n", "        if self.producer:\n            self.producer.stopProducing()\n",
           expect_rule="presence/decided-by-identity"),
    Mutant("drained-buffer-ignores-falsy-producer", ABS, "            if self.producer is not None and (\n                (not self.streamingProducer) or self.producerPaused\n            ):\n",
           "            if bool(self.producer) and (\n                (not self.streamingProducer) or self.producerPaused\n            ):\n", expect_rule="dowrite/table"),
    Mutant("temp-reset-outside-rebase", ABS,
           "            self.offset = 0\n            self._tempDataBuffer = []\n            self._tempDataLen = 0\n\n        # Send as much",
           "            self.offset = 0\n        self._tempDataBuffer = []\n        self._tempDataLen = 0\n\n        # Send as much",
           expect_rule="dowrite/temp-consumed-before-reset"),
]
SILENT = [
    Silent("rename-result-local", ABS,
           "            l = self.writeSomeData(lazyByteSlice(self.dataBuffer, self.offset))\n        else:\n            l = self.writeSomeData(self.dataBuffer)\n",
           "            written = self.writeSomeData(lazyByteSlice(self.dataBuffer, self.offset))\n        else:\n            written = self.writeSomeData(self.dataBuffer)\n",
           more=[(ABS, "        if isinstance(l, Exception) or l < 0:\n            return l\n        self.offset += l\n",
                  "        if isinstance(written, Exception) or written < 0:\n            return written\n        self.offset += written\n")]),
    Silent("emptiness-test-respelled", ABS, "        if self.offset == len(self.dataBuffer) and not self._tempDataLen:",
           "        if self._tempDataLen == 0 and not len(self.dataBuffer) != self.offset:"),
    Silent("full-test-mirrored", ABS, "return len(self.dataBuffer) + self._tempDataLen > self.bufferSize",
           "return self.bufferSize < self._tempDataLen + len(self.dataBuffer)"),
    Silent("write-guard-nested", ABS,
           "        if not self.connected or self._writeDisconnected:\n            return\n        if data:\n            self._tempDataBuffer.append(data)\n"
           "            self._tempDataLen += len(data)\n            self._maybePauseProducer()\n            self.startWriting()\n",
           "        if self.connected and not self._writeDisconnected and data:\n            self._tempDataLen += len(data)\n"
           "            self._tempDataBuffer.append(data)\n            self._maybePauseProducer()\n            self.startWriting()\n"),
    Silent("writesequence-sum", ABS, "        for i in iovec:\n            self._tempDataLen += len(i)\n        self._maybePauseProducer()",
           "        self._tempDataLen += sum(map(len, iovec))\n        self._maybePauseProducer()"),
    Silent("tail-as-nested-else", ABS,
           "            elif self.disconnecting:\n                # But if I was previously asked to let the connection die, do\n                # so.\n"
           "                return self._postLoseConnection()\n            elif self._writeDisconnecting:\n",
           "            elif self.disconnecting:\n                result = self._postLoseConnection()\n                return result\n            elif self._writeDisconnecting:\n",
           allow_error=False),
    Silent("full-test-through-named-temporary", ABS, "        return len(self.dataBuffer) + self._tempDataLen > self.bufferSize",
           "        queued = self._tempDataLen + len(self.dataBuffer)\n        return queued > self.bufferSize"),
    Silent("buffering-tail-extracted-into-helper", ABS,
           "            self._tempDataBuffer.append(data)\n            self._tempDataLen += len(data)\n            self._maybePauseProducer()\n            self.startWriting()\n",
           "            self._tempDataBuffer.append(data)\n            self._noteQueued(len(data))\n",
           more=[(ABS, "        self._tempDataBuffer.extend(iovec)\n        for i in iovec:\n            self._tempDataLen += len(i)\n        self._maybePauseProducer()\n        self.startWriting()\n",
                  "        self._tempDataBuffer.extend(iovec)\n        self._noteQueued(sum(map(len, iovec)))\n"),
                 (ABS, "    def write(self, data: bytes) -> None:\n",
                  "    def _noteQueued(self, count):\n        self._tempDataLen += count\n        self._maybePauseProducer()\n        self.startWriting()\n\n    def write(self, data: bytes) -> None:\n")]),
    Silent("dowrite-split-into-helpers", ABS,
           "            self.dataBuffer = _concatenate(\n                self.dataBuffer, self.offset, self._tempDataBuffer\n            )\n            self.offset = 0\n            self._tempDataBuffer = []\n            self._tempDataLen = 0\n",
           "            self._mergeQueued()\n",
           more=[(ABS, "        if self.offset:\n            l = self.writeSomeData(lazyByteSlice(self.dataBuffer, self.offset))\n        else:\n            l = self.writeSomeData(self.dataBuffer)\n",
                  "        l = self.writeSomeData(self._toSend())\n"),
                 (ABS, "    def _postLoseConnection(self):\n",
                  "    def _mergeQueued(self):\n        self.dataBuffer = _concatenate(self.dataBuffer, self.offset, self._tempDataBuffer)\n        self.offset = 0\n"
                  "        self._tempDataBuffer = []\n        self._tempDataLen = 0\n\n    def _toSend(self):\n        if not self.offset:\n            return self.dataBuffer\n"
                  "        return lazyByteSlice(self.dataBuffer, self.offset)\n\n    def _postLoseConnection(self):\n")]),
    Silent("lose-connection-guard-clause", ABS,
           "        if self.connected and not self.disconnecting:\n            if self._writeDisconnected:\n                # doWrite won't trigger the connection close anymore\n"
           "                self.stopReading()\n                self.stopWriting()\n                self.connectionLost(failure.Failure(main.CONNECTION_DONE))\n"
           "            else:\n                self.stopReading()\n                self.startWriting()\n                self.disconnecting = 1\n",
           "        if not self.connected or self.disconnecting:\n            return\n        halfClosed = self._writeDisconnected\n        self.stopReading()\n"
           "        if halfClosed:\n            self.stopWriting()\n            self.connectionLost(failure.Failure(main.CONNECTION_DONE))\n            return\n"
           "        self.startWriting()\n        self.disconnecting = 1\n"),
    Silent("full-test-through-static-limit-helper", ABS, "        return len(self.dataBuffer) + self._tempDataLen > self.bufferSize",
           "        return self._exceeds(len(self.dataBuffer) + self._tempDataLen, self.bufferSize)",
           more=[(ABS, "    def _maybePauseProducer(self):\n", "    @staticmethod\n    def _exceeds(amount, limit):\n        return amount > limit\n\n    def _maybePauseProducer(self):\n")]),
    Silent("chunk-selected-by-conditional-expression", ABS,
           "        if self.offset:\n            l = self.writeSomeData(lazyByteSlice(self.dataBuffer, self.offset))\n        else:\n            l = self.writeSomeData(self.dataBuffer)\n",
           "        chunk = self.dataBuffer if not self.offset else lazyByteSlice(self.dataBuffer, self.offset)\n        l = self.writeSomeData(chunk)\n"),
    Silent("dowrite-tail-flattened-with-named-conditions", ABS,
           "        if self.offset == len(self.dataBuffer) and not self._tempDataLen:\n            self.dataBuffer = b\"\"\n            self.offset = 0\n            # stop writing.\n            self.stopWriting()\n"
           "            # If I've got a producer who is supposed to supply me with data,\n            if self.producer is not None and (\n                (not self.streamingProducer) or self.producerPaused\n            ):\n"
           "                # tell them to supply some more.\n                self.producerPaused = False\n                self.producer.resumeProducing()\n            elif self.disconnecting:\n"
           "                # But if I was previously asked to let the connection die, do\n                # so.\n                return self._postLoseConnection()\n            elif self._writeDisconnecting:\n"
           "                # I was previously asked to half-close the connection.  We\n                # set _writeDisconnected before calling handler, in case the\n"
           "                # handler calls loseConnection(), which will want to check for\n                # this attribute.\n"
           "                self._writeDisconnected = True\n                result = self._closeWriteConnection()\n                return result\n        return None\n",
           "        drained = self.offset == len(self.dataBuffer) and not self._tempDataLen\n        if not drained:\n            return None\n        self.dataBuffer = b\"\"\n        self.offset = 0\n        self.stopWriting()\n"
           "        wantsMore = self.producer is not None and (not self.streamingProducer or self.producerPaused)\n        if wantsMore:\n            self.producerPaused = False\n            self.producer.resumeProducing()\n            return None\n"
           "        if self.disconnecting:\n            return self._postLoseConnection()\n        if self._writeDisconnecting:\n            self._writeDisconnected = True\n            return self._closeWriteConnection()\n        return None\n"),
    Silent("register-selects-action-through-tuple", ABS,
           "        if self.disconnected:\n            producer.stopProducing()\n        else:\n            self.producer = producer\n            self.streamingProducer = streaming\n            if not streaming:\n                producer.resumeProducing()\n",
           "        if self.disconnected:\n            producer.stopProducing()\n            return\n        self.producer, self.streamingProducer = producer, streaming\n        if streaming:\n            return\n        producer.resumeProducing()\n"),
    Silent("connection-lost-producer-release-in-helper-shared", ABS,
           "        if self.producer is not None:\n            self.producer.stopProducing()\n            self.producer = None\n        self.stopReading()\n        self.stopWriting()\n",
           "        held = self.producer\n        if held is not None:\n            held.stopProducing()\n            self._forgetProducer()\n        self.stopReading()\n        self.stopWriting()\n",
           more=[(ABS, "        self.producer = None\n        if self.connected and self.disconnecting:\n            self.startWriting()\n",
                  "        self._forgetProducer()\n        if self.connected and self.disconnecting:\n            self.startWriting()\n"),
                 (ABS, "    def unregisterProducer(self):\n", "    def _forgetProducer(self):\n        taken, self.producer = self.producer, None\n        return taken\n\n    def unregisterProducer(self):\n")]),
    Silent("writesequence-queueing-in-a-helper-the-normaliser-does-not-inline", ABS,
           "        self._tempDataBuffer.extend(iovec)\n        for i in iovec:\n            self._tempDataLen += len(i)\n        self._maybePauseProducer()\n        self.startWriting()\n",
           "        self._queue(iovec)\n        self._maybePauseProducer()\n        self.startWriting()\n",
           more=[(ABS, "    def writeSequence(self, iovec: Iterable[bytes]) -> None:\n",
                  "    def _queue(self, chunks):\n        self._tempDataBuffer.extend(chunks)\n        for chunk in chunks:\n            self._tempDataLen += len(chunk)\n        else:\n            return\n\n"
                  "    def writeSequence(self, iovec: Iterable[bytes]) -> None:\n")]),
    Silent("unregister-guard-nested", ABS, "        if self.connected and self.disconnecting:\n            self.startWriting()\n\n\n@implementer(interfaces.ILoggingContext)",
           "        if self.connected:\n            if self.disconnecting:\n                self.startWriting()\n\n\n@implementer(interfaces.ILoggingContext)"),
]
