"""C17 - TLSMemoryBIOProtocol: application bytes in order, shutdown deferred until flushed, one connectionLost after the data."""
from __future__ import annotations

import ast

from sa.astx import NotConst, call_name, src, walk_local
from sa.effects import class_accesses
from sa.selftest import Mutant, Silent
from sa.source import methods
from sa.props._lib_d import (NONNULL, call_nodes, calls_with, const_value_is, handler_names, implied, local_def, path_under, peval,
                             reach_under, self_assigns, slice_parts, succ_of, test_value)
from sa.props._lib_d import must_pass_under as _must_pass_under
from sa.props._lib_d import Views, resolve_locals, facts_at

PROPERTY = "C17"
T = "protocols/tls.py"
TECHNIQUE = "CFG must-pass/dominance on inlined views, guarded call-site closure, exhaustive 16-state liveness model"
EXPLANATION = (
    "Decides on protocols/tls.py: (a) ProtocolWrapper.connectionLost is called from exactly one place, on every path of "
    "TLSMemoryBIOProtocol.connectionLost, after the receive BIO was drained into the application and _lostTLSConnection was "
    "set (no data after connectionLost), with the first recorded reason; application data is delivered only from "
    "_flushReceiveBIO, unless aborted, and every failure branch of its loop terminates it; (b) every _shutdownTLS() call "
    "site is on the allow-list and, outside abort / peer-initiated shutdown, is dominated by 'no buffered application "
    "writes' (and 'no producer' / 'disconnecting' where required); each event that removes the obstacle (buffer drained, "
    "producer unregistered) re-checks disconnecting and shuts down; _shutdownTLS closes the transport only after a "
    "successful bidirectional shutdown and after flushing the send BIO; _tlsShutdownFinished always flushes then closes and "
    "keeps the first reason; (c) pending writes are swapped out before being re-written, kept FIFO, a WantReadError "
    "re-buffers exactly the unsent suffix and leaves the loop, progress is counted by what send() accepted; write drops "
    "data only when disconnecting without producer; writeSequence and the buffering subclass route through write, and the "
    "aggregator flushes before loseConnection, re-arms its timer and keeps buffer/size coupled; (d) dataReceived re-tests "
    "the handshake after advancing it, un-buffers and then drains the receive BIO; producers are paused on buffering and "
    "resumed on drain; (e) a finite model over (handshakeDone, writes buffered, producer, disconnecting), with transitions read off the guards of "
    "loseConnection / unregisterProducer / _unbufferPendingWrites / dataReceived / _checkHandshakeStatus, shows that every state a postponed "
    "loseConnection() can leave behind still reaches abortConnection() or a post-handshake _shutdownTLS(). Not decided: interleavings with OpenSSL's internal state, value-level equality of streams."
    " METHODS: structural (CFG must-pass / dominance on inlined views, guarded call-site closure, def-use) for every clause; the postponed-close liveness model "
    "is finite-exhaustive (16 states x events, every transition decided by a full state assignment); the single-threshold tests of _write and of the "
    "aggregator are evaluated on one representative per class (<, =, >). No bounded rules."
)
RULE_KINDS = {
    # CFG must-pass / must-precede / dominance on the normalised view (unknown private helpers inlined, single-assignment temporaries substituted),
    # call-site allow-lists closed over the class call graph, def-use of chunk / suffix / accepted count, FIFO who-may-write.  Rules that fix some
    # state attributes follow both outcomes of every other test, so they hold for every value of everything not fixed.
    "*": "structural",
    # all 2^4 abstract states (handshakeDone, writes buffered, producer, disconnecting) x all events; each transition is read off the guards under a
    # FULL state assignment and must be decided by it (may-reach == must-reach is required per transition, else the section errors): exhaustive
    "liveness/": "finite-exhaustive",
    # single threshold comparisons evaluated on one representative of each class they distinguish (< , = , >): position vs len(bytes); space left
    # after the write vs 0; timer pending or not
    "write/loop-boundary": "finite-exhaustive",
    "aggregate/flush-when-full": "finite-exhaustive", "aggregate/flush-scheduled": "finite-exhaustive", "aggregate/one-timer": "finite-exhaustive",
    "aggregate/size-coupled": "finite-exhaustive",
    # `self._reason or reason` on both cases (a reason recorded / none)
    "lost/first-reason-wins": "finite-exhaustive",
}
ASSUMPTIONS = [
    "SSL_shutdown before the handshake has completed has no effect (error swallowed by _shutdownTLS); guaranteed events: a registered producer eventually "
    "unregisters, a pending handshake eventually completes, data arrives while writes are blocked on a read",
    "the underlying transport delivers connectionLost once (C15); OpenSSL raises WantReadError consistently while a handshake is pending",
    "_flushSendBIO/_write do not change disconnecting/_producer; only _write -> _bufferedWrite appends to _appSendBuffer",
]
Q = "twisted.protocols.tls."
QP = Q + "TLSMemoryBIOProtocol."

# methods the rules are written against; any other private method of these classes is a helper introduced later and is analysed as
# if inlined at its call sites (sa.props._lib_d.Inliner / Views)
KNOWN = {'protocols/tls.py': {'<module>': ['_representsEOF', '_get_default_clock'],
                      'BufferingTLSTransport': ['__init__', 'loseConnection', 'writeSequence'],
                      'TLSMemoryBIOProtocol': ['__init__', '_bufferedWrite', '_checkHandshakeStatus', '_flushReceiveBIO', '_flushSendBIO', '_shutdownTLS', '_tlsShutdownFinished',
                                               '_unbufferPendingWrites', '_write', 'abortConnection', 'connectionLost', 'dataReceived', 'failVerification', 'getHandle',
                                               'getPeerCertificate', 'loseConnection', 'makeConnection', 'negotiatedProtocol', 'registerProducer', 'unregisterProducer', 'write',
                                               'writeSequence'],
                      '_AggregateSmallWrites': ['__init__', '_scheduledFlush', 'flush', 'write'],
                      '_ProducerMembrane': ['__init__', 'pauseProducing', 'resumeProducing', 'stopProducing']}}


def _views(ctx):
    v = ctx.__dict__.get("_views_d")
    if v is None:
        v = ctx.__dict__["_views_d"] = Views(ctx, KNOWN, extended=True)
    return v


def _F(ctx, rel, qual):
    return _views(ctx).f(rel, qual)


def _M(ctx, rel, cls_name):
    return _views(ctx).methods(rel, cls_name)



def must_pass_under(g, facts, via, srcs=None, to=None):
    via = list(via)
    w = _must_pass_under(g, facts, via, srcs=srcs, to=to)
    if w is None and not (reach_under(g, facts, srcs=srcs) & set(via)):
        return list(srcs)[:1] if srcs else [g.entry]
    return w


def _nx(a, b, l):
    return l != "exc"


def _base_calls(g, method):
    return [(n, c) for n, c in calls_with(g, "." + method)
            if src(c.func) in (f"ProtocolWrapper.{method}", f"super().{method}", f"policies.ProtocolWrapper.{method}")]


# ---- liveness of a postponed close: finite model over (handshakeDone, writes buffered, producer, disconnecting) -------------------

def _reaches(ctx, g, facts, nodes, srcs, what):
    """Under fully specified state facts: is one of ``nodes`` executed?  (may == must, else the guard reads something
    outside the abstract state and the model is not applicable: AnalysisError, caught by the section.)"""
    nodes = list(nodes)
    if not nodes:
        return False
    if not (reach_under(g, facts, srcs=srcs) & set(nodes)):
        return False
    ctx.need(_must_pass_under(g, facts, nodes, srcs=srcs) is None,
             f"{what}: whether the action is taken is not decided by (handshakeDone, buffered, producer, disconnecting)")
    return True


def _rebuffer_sites(ctx):
    """The places that put unsent application bytes back into the pending queue, recognised by ROLE, not by the name of a helper: inside _write, in
    the WantReadError handler of the OpenSSL send, either a call of self._bufferedWrite(x) or the append self._appSendBuffer.append(x) itself (the
    one-caller helper written out in place).  Returns (view of _write, its CFG, send node, [(handler node, [(site node, x)])])."""
    f = _F(ctx, T, "TLSMemoryBIOProtocol._write")
    g = ctx.cfg(f)
    snd = calls_with(g, "self._tlsConnection.send")
    ctx.need(len(snd) == 1, "single self._tlsConnection.send() in _write")
    sn = snd[0][0]
    sites = [(n, c.args[0] if c.args else None) for n, c in calls_with(g, "self._bufferedWrite", "self._appSendBuffer.append")]
    out = []
    for h in succ_of(g, sn, "exc"):
        if g.node(h).kind == "handler" and "WantReadError" in handler_names(g.node(h).ast):
            out.append((h, [(n, a) for n, a in sites if g.dominates(h, n)]))
    return f, g, sn, out


def _replay_loop(ctx, g):
    """(loop head node, nodes control continues with when the loop is left normally, name of the list being replayed or None) for the loop in which
    the detached writes are passed to _write again - a ``for`` over the detached list or a ``while`` that empties it, whichever the code uses."""
    rew = set(call_nodes(g, "self._write"))
    heads = []
    for n in g.nodes:
        if n.kind == "for" and g.reachable(n.id):
            inside = g.reach(succ_of(g, n.id, "iter"), avoid=[n.id])
            if rew & set(inside):
                heads.append((n, succ_of(g, n.id, "done"), n.ast.iter.id if isinstance(n.ast.iter, ast.Name) else None))
    for w in [x for x in walk_local(g.func) if isinstance(x, ast.While)]:
        tests = [i for x in ast.walk(w.test) for i in g.ids_of(x) if g.nodes[i].kind == "test" and g.reachable(i)]
        first = [i for i in g.ids_of(w.body[0])] if w.body else []
        if not tests or not first:
            continue
        inside = set(g.reach(first, avoid=tests))
        if rew & inside:
            out = sorted({d for t in tests for d, l in g.succ[t] if l in ("T", "F") and d not in tests and d not in inside})
            names = {x.id for x in ast.walk(w.test) if isinstance(x, ast.Name) and x.id != "len"}
            heads.append((g.nodes[tests[0]], out, next(iter(names)) if len(names) == 1 else None))
    ctx.need(len(heads) == 1, "the re-write loop of _unbufferPendingWrites")
    return heads[0]


def _liveness(ctx):
    """Every state with disconnecting=True that loseConnection() can leave behind must still be able to reach an *effective*
    close (abortConnection(), or _shutdownTLS() once the handshake is done - SSL_shutdown during the handshake fails and is
    swallowed) through the events that are guaranteed to happen: the producer unregisters, the handshake completes, buffered
    writes drain on incoming data.  Transitions are read off the guards of the five functions involved."""
    B_ = lambda b: NONNULL if b else ()          # noqa: E731
    P_ = lambda p: NONNULL if p else None        # noqa: E731
    fl = _F(ctx, T, "TLSMemoryBIOProtocol.loseConnection")
    gl = ctx.cfg(fl)
    fu = _F(ctx, T, "TLSMemoryBIOProtocol.unregisterProducer")
    gu = ctx.cfg(fu)
    fb = _F(ctx, T, "TLSMemoryBIOProtocol._unbufferPendingWrites")
    gb = ctx.cfg(fb)
    fdr = _F(ctx, T, "TLSMemoryBIOProtocol.dataReceived")
    gd = ctx.cfg(fdr)
    fh = _F(ctx, T, "TLSMemoryBIOProtocol._checkHandshakeStatus")
    gh = ctx.cfg(fh)
    tail = _replay_loop(ctx, gb)[1]
    hs_calls = call_nodes(gd, "self._checkHandshakeStatus")
    ctx.need(hs_calls, "self._checkHandshakeStatus() in dataReceived")
    after_hs = [s for h in hs_calls for s in succ_of(gd, h, None)]
    done_sets = self_assigns(gh, "_handshakeDone", lambda v: const_value_is(v, lambda x: x is True))
    ctx.need(done_sets, "_handshakeDone = True in _checkHandshakeStatus")
    after_done = [s for d in done_sets for s in succ_of(gh, d, None)]

    def acts(g, facts, srcs, what):
        return {"abort": _reaches(ctx, g, facts, call_nodes(g, "self.abortConnection", "self.transport.abortConnection"), srcs, what),
                "shutdown": _reaches(ctx, g, facts, call_nodes(g, "self._shutdownTLS"), srcs, what),
                "unbuffer": _reaches(ctx, g, facts, call_nodes(g, "self._unbufferPendingWrites"), srcs, what)}

    def state_facts(H, B, P, D):
        return {"self._handshakeDone": H, "self._appSendBuffer": B_(B), "self._producer": P_(P), "self.disconnecting": D,
                "self.connected": True, "self._aborted": False, "self._lostTLSConnection": False}

    def closes(a, H):
        return a["abort"] or (a["shutdown"] and H)

    def unbuffer_tail(P, D):
        f = state_facts(True, False, P, D)
        return acts(gb, f, tail, "_unbufferPendingWrites tail")

    CLOSING = "closing"

    def ev_lose(H, B, P):
        a = acts(gl, state_facts(H, B, P, False), None, "loseConnection")
        note = "" if closes(a, H) or not a["shutdown"] else " [_shutdownTLS() during the handshake: no effect]"
        return (CLOSING if closes(a, H) else (H, B, P, True)), "loseConnection()" + note

    def events(s):
        H, B, P, D = s
        out = []
        if P:
            f = state_facts(H, B, True, D)
            f["isinstance(self._producer._producer, _PullToPush)"] = False
            a = acts(gu, f, None, "unregisterProducer")
            note = "" if closes(a, H) or not a["shutdown"] else " [_shutdownTLS() during the handshake: no effect]"
            out.append((CLOSING if closes(a, H) else (H, B, False, D), "unregisterProducer()" + note))
            if not H and not B:
                out.append(((H, True, P, D), "producer writes, OpenSSL wants to read first: write buffered"))
        if not H:
            f = state_facts(True, B, P, D)
            a1 = acts(gh, f, after_done, "_checkHandshakeStatus after completion")
            a2 = acts(gd, f, after_hs, "dataReceived after the handshake completed")
            a = {k: a1[k] or a2[k] for k in a1}
            if closes(a, True):
                out.append((CLOSING, "handshake completes"))
            elif a["unbuffer"]:
                t = unbuffer_tail(P, D)
                out.append((CLOSING if closes(t, True) else (True, False, P, D), "handshake completes, buffered writes go out"))
            else:
                out.append(((True, B, P, D), "handshake completes"))
        elif B:
            a = acts(gd, state_facts(True, True, P, D), None, "dataReceived with writes buffered")
            if closes(a, True):
                out.append((CLOSING, "data arrives"))
            elif a["unbuffer"]:
                t = unbuffer_tail(P, D)
                out.append((CLOSING if closes(t, True) else (True, False, P, D), "data arrives, buffered writes go out"))
        return out

    # reachable pending states
    start = {}
    for H in (False, True):
        for B in (False, True):
            for P in (False, True):
                nxt, lab = ev_lose(H, B, P)
                if nxt != CLOSING:
                    start.setdefault(nxt, f"<handshakeDone={H} writesBuffered={B} producer={P}> --{lab}-->")
    trans = {}
    how = dict(start)
    todo = list(start)
    while todo:
        s = todo.pop()
        if s in trans:
            continue
        trans[s] = events(s)
        for nxt, lab in trans[s]:
            if nxt != CLOSING and nxt not in how:
                how[nxt] = how[s] + f" <handshakeDone={s[0]} writesBuffered={s[1]} producer={s[2]} disconnecting> --{lab}-->"
                todo.append(nxt)
    # backward closure: who can still close
    can = set()
    changed = True
    while changed:
        changed = False
        for s, evs in trans.items():
            if s not in can and any(n == CLOSING or n in can for n, _ in evs):
                can.add(s)
                changed = True
    q = QP[:-1]
    ctx.extra["liveness_pending_states"] = len(trans)
    for s in sorted(trans):
        c = q + f" | <disconnecting, handshakeDone={s[0]} writesBuffered={s[1]} producer={s[2]}>"
        dead = s not in can
        entry = dead and (s in start or any(s in [n for n, _ in trans[p]] for p in trans if p in can))
        if dead and not entry:
            continue
        ctx.check(not dead, "liveness/postponed-close-is-picked-up", c,
                  "loseConnection() was called and postponed, but from this state no remaining event (producer unregisters, handshake completes, "
                  "buffered writes drain) starts an effective TLS shutdown or aborts: disconnecting stays True forever, no close alert is sent, "
                  "neither transport is closed and the applications never see connectionLost. The guards of loseConnection / unregisterProducer / "
                  "_unbufferPendingWrites / dataReceived do not cover this combination between them",
                  witness=how[s] + f" <handshakeDone={s[0]} writesBuffered={s[1]} producer={s[2]} disconnecting>: no remaining event closes")
    ctx.floor("liveness/postponed-close-is-picked-up", len(trans), 2)



def check(ctx):
    from sa.props._lib_d import Guarded
    _check(Guarded(ctx, RULE_KINDS))


def _check(ctx):
    mod = ctx.mod(T)
    cls = ctx.cls(T, "TLSMemoryBIOProtocol")
    sub = ctx.cls(T, "BufferingTLSTransport")
    A = Q + "_AggregateSmallWrites."

    with ctx.section("delivery sites"):
        # ---- sec: delivery sites
        # ---- (a) connectionLost / data delivery ----------------------------------------------------------------------------
        sites_cl, sites_dr = [], []
        for c_ in (cls, sub):
            for name, m in _M(ctx, T, c_.name):
                gm = ctx.cfg(m)
                for n, call in _base_calls(gm, "connectionLost"):
                    sites_cl.append((c_.name, name, n, call))
                for n, call in _base_calls(gm, "dataReceived"):
                    sites_dr.append((c_.name, name, n, call))
        for cn, name, n, call in sites_cl:
            ctx.check((cn, name) == ("TLSMemoryBIOProtocol", "connectionLost"), "lost/single-site", ctx.construct(Q + f"{cn}.{name}", call),
                      "the application's connectionLost is invoked from a second place: it can be delivered twice")
        for cn, name, n, call in sites_dr:
            ctx.check((cn, name) == ("TLSMemoryBIOProtocol", "_flushReceiveBIO"), "data/single-site", ctx.construct(Q + f"{cn}.{name}", call),
                      "application data is delivered from outside _flushReceiveBIO (bypassing the lost/aborted checks)")
    with ctx.section("TLSMemoryBIOProtocol.connectionLost"):
        # ---- sec: TLSMemoryBIOProtocol.connectionLost
        f = _F(ctx, T, "TLSMemoryBIOProtocol.connectionLost")
        g = ctx.cfg(f)
        q = QP + "connectionLost"
        base = _base_calls(g, "connectionLost")
        ctx.check(len(base) == 1, "lost/single-site", q, f"{len(base)} calls of ProtocolWrapper.connectionLost in connectionLost (exactly one)")
        flush = call_nodes(g, "self._flushReceiveBIO")
        shut = call_nodes(g, "self._tlsConnection.bio_shutdown")
        lost_t = self_assigns(g, "_lostTLSConnection", lambda v: const_value_is(v, lambda x: x is True))
        rparam = f.args.args[1].arg
        for n, call in base:
            c = ctx.construct(q, call)
            w = g.must_pass([g.entry], [n])
            ctx.check(w is None, "lost/always-forwarded", c, "some path through connectionLost does not tell the application", witness=g.describe(w))
            facts = {"self._lostTLSConnection": False}
            w = must_pass_under(g, facts, flush, to=[n, g.exit])
            ctx.check(bool(flush) and w is None, "lost/data-before-lost", c,
                      "when the transport goes away first, the bytes still sitting in the receive BIO are not delivered before connectionLost",
                      witness=g.describe(w))
            for fl in flush:
                w = g.must_precede(shut, [fl])
                ctx.check(bool(shut) and w is None, "lost/bio-shutdown-before-drain", ctx.construct(q, g.node(fl).ast),
                          "the receive BIO is drained without first telling OpenSSL that no more data will arrive (bio_shutdown)", witness=g.describe(w))
                back = g.path([n], [fl], strict=True, edge_ok=_nx)
                ctx.check(back is None, "lost/no-data-after-lost", ctx.construct(q, g.node(fl).ast),
                          "application data can be delivered after the application's connectionLost", witness=g.describe(back))
            w = must_pass_under(g, facts, lost_t, to=[n, g.exit])
            ctx.check(bool(lost_t) and w is None, "lost/no-data-after-lost", c,
                      "_lostTLSConnection is not set before the application's connectionLost: a later dataReceived/_write still reaches OpenSSL "
                      "and the application", witness=g.describe(w))
            # followed along the paths from the entry to the call, for both cases (a reason recorded by the TLS layer / none): whatever locals,
            # conditional expressions or if-statements select the value, the argument must come out as the recorded reason, else the transport's
            arg = call.args[1] if len(call.args) == 2 else None
            outcomes = []
            for recorded, want in (("FIRST", "FIRST"), (None, "TRANSPORT")):
                for fa in facts_at(g, {"self._reason": recorded, rparam: "TRANSPORT"}, [n]):
                    try:
                        outcomes.append((peval(arg, fa) if arg is not None else None, want))
                    except NotConst:
                        outcomes.append((NotConst, want))
            if arg is None or not outcomes:
                ctx.violation("lost/first-reason-wins", c, "the application's connectionLost is not given a reason")
            elif any(v is NotConst for v, _ in outcomes):
                ctx.note(f"lost/first-reason-wins: the reason expression {src(arg)!r} could not be evaluated on some path; not decided for {c}")
            else:
                wrong = [(v, w_) for v, w_ in outcomes if v != w_]
                ctx.check(not wrong, "lost/first-reason-wins", c, "the application is not given 'the recorded TLS-level reason, else the transport's reason'" +
                          (f": gets {wrong[0][0]!r} where {wrong[0][1]!r} is due (FIRST = recorded by the TLS layer, TRANSPORT = the argument)" if wrong else ""))
    with ctx.section("TLSMemoryBIOProtocol._flushReceiveBIO"):
        # ---- sec: TLSMemoryBIOProtocol._flushReceiveBIO
        f = _F(ctx, T, "TLSMemoryBIOProtocol._flushReceiveBIO")
        g = ctx.cfg(f)
        q = QP + "_flushReceiveBIO"
        recv = calls_with(g, "self._tlsConnection.recv")
        ctx.need(len(recv) == 1, "single self._tlsConnection.recv() in _flushReceiveBIO")
        rn, rcall = recv[0]
        rst = g.node(rn).ast
        rvar = rst.targets[0].id if isinstance(rst, ast.Assign) and isinstance(rst.targets[0], ast.Name) else None
        for n, call in _base_calls(g, "dataReceived"):
            c = ctx.construct(q, call)
            ctx.check(implied(g, n, [{"self._aborted": False}], [{"self._aborted": True}]), "data/not-after-abort", c,
                      "application data is delivered after abortConnection()")
            ctx.check(implied(g, n, [{"self._lostTLSConnection": False}], [{"self._lostTLSConnection": True}]), "data/not-after-lost", c,
                      "application data is delivered although the TLS connection is already lost (after connectionLost)")
            ctx.check(len(call.args) == 2 and rvar is not None and src(call.args[1]) == rvar and g.must_precede([rn], [n]) is None, "data/what-was-received", c,
                      "the bytes delivered are not the bytes just returned by OpenSSL's recv()")
        fin = call_nodes(g, "self._tlsShutdownFinished")
        for h in succ_of(g, rn, "exc"):
            if g.node(h).kind != "handler":
                continue
            names = handler_names(g.node(h).ast)
            if names == ["WantReadError"]:
                back = path_under(g, {}, [rn], srcs=[h])
                ctx.check(back is None, "data/loop-terminates", ctx.construct(q, "except WantReadError:"),
                          "after WantReadError (no more application data) the loop calls recv() again: busy loop", witness=g.describe(back))
            else:
                w = g.must_pass([h], fin, to=[rn, g.exit])
                ctx.check(bool(fin) and w is None, "data/loop-terminates", ctx.construct(q, f"except {', '.join(names)}:"),
                          "a TLS failure / clean TLS shutdown in the receive loop does not reach _tlsShutdownFinished: the loop spins and the "
                          "transport is never closed", witness=g.describe(w))
        fs = call_nodes(g, "self._flushSendBIO")
        w = g.must_pass([g.entry], fs)
        ctx.check(bool(fs) and w is None, "data/response-flushed", q, "bytes OpenSSL produced while reading (handshake replies, alerts) are not flushed to the transport",
                  witness=g.describe(w))

    with ctx.section("shutdown call sites"):
        # ---- sec: shutdown call sites
        # ---- (b) shutdown discipline --------------------------------------------------------------------------------------------
        allow = {
            "loseConnection": {"buffer": True, "producer": True},
            "_unbufferPendingWrites": {"buffer": True, "producer": True, "disconnecting": True},
            "unregisterProducer": {"buffer": True, "disconnecting": True},
            "abortConnection": {},
            "_flushReceiveBIO": {"handler": "ZeroReturnError"},
        }
        nsites = 0
        for c_ in (cls, sub):
            for name, m in _M(ctx, T, c_.name):
                gm = ctx.cfg(m)
                for n, call in calls_with(gm, "self._shutdownTLS"):
                    nsites += 1
                    qq = Q + f"{c_.name}.{name}"
                    c = ctx.construct(qq, call)
                    if c_.name != "TLSMemoryBIOProtocol" or name not in allow:
                        ctx.violation("shutdown/allowed-sites", c, "a new _shutdownTLS() call site: the TLS close alert can be sent while application writes are still buffered")
                        continue
                    ctx.ok("shutdown/allowed-sites", c)
                    need = allow[name]
                    if need.get("buffer"):
                        ctx.check(implied(gm, n, [{"self._appSendBuffer": ()}], [{"self._appSendBuffer": NONNULL}]), "shutdown/not-while-writes-buffered", c,
                                  "TLS shutdown is started while application writes are still waiting in _appSendBuffer: bytes written before "
                                  "loseConnection() are never sent")
                    if need.get("producer"):
                        ctx.check(implied(gm, n, [{"self._producer": None}], [{"self._producer": NONNULL}]), "shutdown/not-while-producer", c,
                                  "TLS shutdown is started while a producer is still registered")
                    if need.get("disconnecting"):
                        ctx.check(implied(gm, n, [{"self.disconnecting": True}], [{"self.disconnecting": False}]), "shutdown/only-if-requested", c,
                                  "TLS shutdown is started although loseConnection() was not called")
                    if need.get("handler"):
                        inh = any(gm.node(h).kind == "handler" and need["handler"] in handler_names(gm.node(h).ast) and gm.dominates(h, n) for h in range(len(gm.nodes)))
                        ctx.check(inh, "shutdown/only-if-requested", c, "_flushReceiveBIO starts a TLS shutdown outside the peer-initiated (ZeroReturnError) branch")
        ctx.floor("shutdown/allowed-sites", nsites, 3)

    with ctx.section("TLSMemoryBIOProtocol._shutdownTLS"):
        # ---- sec: TLSMemoryBIOProtocol._shutdownTLS
        f = _F(ctx, T, "TLSMemoryBIOProtocol._shutdownTLS")
        g = ctx.cfg(f)
        q = QP + "_shutdownTLS"
        sh = calls_with(g, "self._tlsConnection.shutdown")
        ctx.need(len(sh) == 1, "self._tlsConnection.shutdown() in _shutdownTLS")
        sst = g.node(sh[0][0]).ast
        svar = sst.targets[0].id if isinstance(sst, ast.Assign) and isinstance(sst.targets[0], ast.Name) else "shutdownSuccess"
        lc = call_nodes(g, "self.transport.loseConnection")
        fs = call_nodes(g, "self._flushSendBIO")
        ctx.check(bool(lc), "shutdown/closes-transport", q, "_shutdownTLS never closes the underlying transport")
        for n in lc:
            c = ctx.construct(q, g.node(n).ast)
            ctx.check(implied(g, n, [{svar: True}], [{svar: False}]), "shutdown/transport-closed-only-after-both-sides", c,
                      "the transport is closed although the TLS shutdown is not complete in both directions: bytes the peer wrote before its own "
                      "loseConnection are cut off")
            w = g.must_precede(fs, [n])
            ctx.check(bool(fs) and w is None, "shutdown/alert-flushed-before-close", c, "the close alert is not flushed to the transport before the transport is closed",
                      witness=g.describe(w))
        w = must_pass_under(g, {svar: True}, lc, srcs=succ_of(g, sh[0][0], None))
        ctx.check(w is None, "shutdown/closes-transport", q + " | <shutdown complete>", "after a complete TLS shutdown the transport is not closed", witness=g.describe(w))
        w = g.must_pass([g.entry], fs)
        ctx.check(bool(fs) and w is None, "shutdown/alert-flushed", q, "the close alert produced by shutdown() is not flushed to the transport on every path",
                  witness=g.describe(w))
        for h in succ_of(g, sh[0][0], "exc"):
            if g.node(h).kind == "handler":
                R = reach_under(g, {}, srcs=[h])
                sets = [x.id for x in g.nodes if x.kind == "stmt" and isinstance(x.ast, ast.Assign) and any(isinstance(t, ast.Name) and t.id == svar for t in x.ast.targets)
                        and const_value_is(x.ast.value, lambda v: v is False)]
                w = g.must_pass([h], sets, to=lc + [g.exit])
                ctx.check(bool(sets) and w is None, "shutdown/transport-closed-only-after-both-sides", ctx.construct(q, "except Error:"),
                          "a failed shutdown() is treated as complete", witness=g.describe(w))

    with ctx.section("TLSMemoryBIOProtocol._tlsShutdownFinished"):
        # ---- sec: TLSMemoryBIOProtocol._tlsShutdownFinished
        f = _F(ctx, T, "TLSMemoryBIOProtocol._tlsShutdownFinished")
        g = ctx.cfg(f)
        q = QP + "_tlsShutdownFinished"
        lc = call_nodes(g, "self.transport.loseConnection", "self.transport.abortConnection")
        fs = call_nodes(g, "self._flushSendBIO")
        lost_t = self_assigns(g, "_lostTLSConnection", lambda v: const_value_is(v, lambda x: x is True))
        w = g.must_pass([g.entry], lc)
        ctx.check(bool(lc) and w is None, "finished/closes-transport", q, "some path through _tlsShutdownFinished leaves the underlying transport open", witness=g.describe(w))
        w = g.must_pass([g.entry], lost_t)
        ctx.check(bool(lost_t) and w is None, "finished/marks-lost", q, "_lostTLSConnection is not set: the receive loop does not terminate and later writes reach a dead TLS object",
                  witness=g.describe(w))
        for n in lc:
            w = g.must_precede(fs, [n])
            ctx.check(bool(fs) and w is None, "finished/alert-flushed-before-close", ctx.construct(q, g.node(n).ast),
                      "pending TLS alerts are not flushed before the transport is closed", witness=g.describe(w))
        for n in self_assigns(g, "_reason"):
            ctx.check(implied(g, n, [{"self._reason": None}], [{"self._reason": NONNULL}]), "finished/first-reason-wins", ctx.construct(q, g.node(n).ast),
                      "a later failure overwrites the first recorded reason")

        # wake-ups of a postponed shutdown
    with ctx.section("TLSMemoryBIOProtocol._unbufferPendingWrites"):
        # ---- sec: TLSMemoryBIOProtocol._unbufferPendingWrites
        f = _F(ctx, T, "TLSMemoryBIOProtocol._unbufferPendingWrites")
        g = ctx.cfg(f)
        q = QP + "_unbufferPendingWrites"
        # order of the replay, whatever the loop looks like: the argument of _write must not be taken from the END of the detached list
        for n_, c_ in calls_with(g, "self._write"):
            a_ = c_.args[0] if c_.args else None
            a_ = resolve_locals(f, a_) if a_ is not None else None
            lifo = isinstance(a_, ast.Call) and isinstance(a_.func, ast.Attribute) and a_.func.attr == "pop" and \
                (not a_.args or const_value_is(a_.args[0], lambda v: isinstance(v, int) and v < 0))
            lifo = lifo or (isinstance(a_, ast.Subscript) and const_value_is(a_.slice, lambda v: isinstance(v, int) and v < 0))
            for lp in [x for x in g.nodes if x.kind == "for" and g.reachable(x.id)]:
                it_ = lp.ast.iter
                if a_ is not None and src(a_) == src(lp.ast.target) and ((isinstance(it_, ast.Call) and call_name(it_) == "reversed") or
                                                                         (isinstance(it_, ast.Subscript) and isinstance(it_.slice, ast.Slice) and it_.slice.step is not None
                                                                          and const_value_is(it_.slice.step, lambda v: isinstance(v, int) and v < 0))):
                    lifo = True
            ctx.check(not lifo, "unbuffer/replayed-oldest-first", ctx.construct(q, c_),
                      "the writes buffered during the handshake are replayed newest-first (taken from the end of the list): the peer receives the bytes "
                      "in a different order than they were written")
        head, tail, lst = _replay_loop(ctx, g)
        st = call_nodes(g, "self._shutdownTLS")
        rs = call_nodes(g, "self._producer.resumeProducing")
        for facts, lab, must, never in (
                ({"self._appSendBuffer": (), "self._producer": None, "self.disconnecting": True}, "drained, no producer, disconnecting", st, rs),
                ({"self._appSendBuffer": (), "self._producer": NONNULL, "self.disconnecting": True}, "drained, producer registered", rs, st),
                ({"self._appSendBuffer": (), "self._producer": None, "self.disconnecting": False}, "drained, not disconnecting", [], st + rs),
                ({"self._appSendBuffer": NONNULL, "self._producer": NONNULL, "self.disconnecting": True}, "re-buffered", [], st + rs)):
            c = q + f" | <{lab}>"
            R = reach_under(g, facts, srcs=tail)
            if must is not None and lab.startswith("drained") and "not disconnecting" not in lab:
                w = must_pass_under(g, facts, must, srcs=tail) if must else tail
                ctx.check(bool(must) and w is None, "unbuffer/continuation", c,
                          "after the buffered writes went out, the postponed action (TLS shutdown requested by loseConnection / resuming the paused "
                          "producer) is not taken: the connection never closes / the producer stays paused", witness=g.describe(w))
            ctx.check(not (R & set(never)), "unbuffer/continuation", c + " | not",
                      "shutdown / resume happens although writes are still buffered, a producer is registered, or no close was requested",
                      witness=g.describe(path_under(g, facts, set(never), srcs=tail)) if R & set(never) else "")
        # swap before re-writing
        def _from_list(a):
            """the argument of _write is an element of the detached list: the for target, lst.pop(0), or lst[0] (through a local)"""
            if head.kind == "for" and src(a) == src(head.ast.target):
                return True
            a = local_def(f, a)             # one step: the element was taken into a local first
            if lst and isinstance(a, ast.Call) and call_name(a) == f"{lst}.pop":
                return True
            return bool(lst and isinstance(a, ast.Subscript) and src(a.value) == lst)
        rew = [n for n, c in calls_with(g, "self._write") if c.args and _from_list(c.args[0])]
        where = ctx.construct(q, f"for {src(head.ast.target)} in {src(head.ast.iter)}:" if head.kind == "for" else f"while {src(head.ast)}:")
        direct = src(head.ast.iter) if head.kind == "for" else src(head.ast)
        if lst is None and "self._appSendBuffer" in direct:
            ctx.violation("unbuffer/swap-before-rewrite", where,
                          "the replay loop runs over self._appSendBuffer itself: a write that is re-buffered during the loop is appended to the list being "
                          "iterated (endless loop / duplicated bytes) or wiped afterwards")
        elif lst is None:
            ctx.note("unbuffer/swap-before-rewrite, unbuffer/rewrites: the list the replay loop runs over is not a plain local (" + where + "); "
                     "not decided structurally")
        else:
            ctx.check(bool(rew), "unbuffer/rewrites", q, "the pending writes are not passed to _write again")
            resets = self_assigns(g, "_appSendBuffer", lambda v: isinstance(v, (ast.List, ast.Tuple)) and not v.elts)
            caps = []
            for x in g.nodes:
                if x.kind == "stmt" and g.reachable(x.id) and isinstance(x.ast, ast.Assign):
                    tg, v = x.ast.targets[0], x.ast.value
                    if isinstance(tg, ast.Name) and tg.id == lst and src(v) == "self._appSendBuffer":
                        caps.append(x.id)
                    elif isinstance(tg, ast.Tuple) and isinstance(v, ast.Tuple) and len(tg.elts) == len(v.elts):
                        for t_, v_ in zip(tg.elts, v.elts):
                            if isinstance(t_, ast.Name) and t_.id == lst and src(v_) == "self._appSendBuffer":
                                caps.append(x.id)
            ok = bool(caps) and bool(resets) and g.must_precede(caps, [head.id]) is None and g.must_precede(resets, [head.id]) is None \
                and all(g.path([r], caps, strict=True, edge_ok=_nx) is None for r in resets if r not in caps)
            ctx.check(ok, "unbuffer/swap-before-rewrite", where,
                      "the pending list is not detached (captured in a local and _appSendBuffer reset) before its elements are re-written: a write that "
                      "is re-buffered during the loop is appended to the list being iterated (endless loop / duplicated bytes) or wiped afterwards")
        acc = class_accesses(mod, cls, {"_appSendBuffer"}, {"self"})
        for a in acc:
            inl_ = _views(ctx).inliner(T)
            fn_ = a.func.split(".")[-1]          # a helper unknown to the rules inherits the permission of all its callers
            in_role = False
            if a.kind == "append" and fn_ == "_write":
                # the helper written out in place: the append that the WantReadError handler of the send reaches
                fw_, gw_, _, hs_ = _rebuffer_sites(ctx)
                role_srcs = {src(gw_.node(n_).ast) for _, ss_ in hs_ for n_, _a in ss_}
                in_role = src(a.node) in role_srcs or any(src(a.node) in t_ for t_ in role_srcs)
            okk = (a.kind == "append" and (inl_.permitted(fn_, {"_bufferedWrite"}) or in_role)) \
                or (a.kind in ("rebind-empty", "assign") and inl_.permitted(fn_, {"makeConnection", "_unbufferPendingWrites"}))
            ctx.check(okk, "buffer/fifo-who-may-write", ctx.construct(Q + a.func, a.node),
                      f"_appSendBuffer is modified by '{a.kind}' here: pending application writes must only be appended (FIFO) by _bufferedWrite "
                      "and detached by _unbufferPendingWrites")
        ctx.floor("buffer/fifo-who-may-write", len(acc), 3)

    with ctx.section("TLSMemoryBIOProtocol.unregisterProducer"):
        # ---- sec: TLSMemoryBIOProtocol.unregisterProducer
        f = _F(ctx, T, "TLSMemoryBIOProtocol.unregisterProducer")
        g = ctx.cfg(f)
        q = QP + "unregisterProducer"
        st = call_nodes(g, "self._shutdownTLS")
        clr = self_assigns(g, "_producer", lambda v: const_value_is(v, lambda x: x is None))
        tun = call_nodes(g, "self.transport.unregisterProducer")
        base_f = {"self._producer": NONNULL, "isinstance(self._producer._producer, _PullToPush)": False}
        for extra, lab, want in (({"self.disconnecting": True, "self._appSendBuffer": ()}, "disconnecting, nothing buffered", True),
                                 ({"self.disconnecting": True, "self._appSendBuffer": NONNULL}, "disconnecting, writes buffered", False),
                                 ({"self.disconnecting": False, "self._appSendBuffer": ()}, "not disconnecting", False)):
            facts = dict(base_f, **extra)
            c = q + f" | <{lab}>"
            if want:
                w = must_pass_under(g, facts, st + call_nodes(g, "self.abortConnection"))
                ctx.check(w is None, "unregister/resumes-postponed-shutdown", c,
                          "loseConnection() was postponed because of the producer; when it unregisters neither the TLS shutdown nor an abort is started: the connection never closes",
                          witness=g.describe(w))
            else:
                ctx.check(not (reach_under(g, facts) & set(st)), "unregister/resumes-postponed-shutdown", c + " | not", "TLS shutdown started although not due")
            w = must_pass_under(g, facts, clr)
            ctx.check(w is None, "unregister/clears-producer", c, "the producer reference is kept after unregisterProducer", witness=g.describe(w))
            w = must_pass_under(g, facts, tun)
            ctx.check(w is None, "unregister/transport-unregistered", c, "the membrane is left registered with the underlying transport", witness=g.describe(w))
        for s in st:
            ctx.check(g.must_precede(clr, [s]) is None, "unregister/clears-producer", ctx.construct(q, g.node(s).ast) + " | before shutdown", "shutdown starts while _producer is still set")

    with ctx.section("TLSMemoryBIOProtocol.loseConnection"):
        # ---- sec: TLSMemoryBIOProtocol.loseConnection
        f = _F(ctx, T, "TLSMemoryBIOProtocol.loseConnection")
        g = ctx.cfg(f)
        q = QP + "loseConnection"
        st = call_nodes(g, "self._shutdownTLS")
        ab = call_nodes(g, "self.abortConnection")
        dset = self_assigns(g, "disconnecting", lambda v: const_value_is(v, lambda x: x is True))
        live = {"self.disconnecting": False, "self.connected": True}
        for extra, lab, shut_now in (({"self._handshakeDone": True, "self._appSendBuffer": (), "self._producer": None}, "idle", True),
                                     ({"self._handshakeDone": True, "self._appSendBuffer": NONNULL, "self._producer": None}, "writes buffered", False),
                                     ({"self._handshakeDone": False, "self._appSendBuffer": NONNULL, "self._producer": None}, "handshake pending, writes buffered", False),
                                     ({"self._handshakeDone": True, "self._appSendBuffer": (), "self._producer": NONNULL}, "producer registered", False)):
            facts = dict(live, **extra)
            c = q + f" | <{lab}>"
            w = must_pass_under(g, facts, dset)
            ctx.check(w is None, "lose/records-request", c, "loseConnection() does not set disconnecting: the postponed shutdown is never picked up", witness=g.describe(w))
            R = reach_under(g, facts)
            if shut_now:
                w = must_pass_under(g, facts, st)
                ctx.check(w is None, "lose/shuts-down-when-idle", c, "nothing is pending but the TLS shutdown is not started", witness=g.describe(w))
            else:
                ctx.check(not (R & set(st)) and not (R & set(ab)), "lose/postponed-while-pending", c,
                          "the TLS shutdown / abort is started although application writes are buffered or a producer is registered: bytes written "
                          "before loseConnection() are lost", witness=g.describe(path_under(g, facts, set(st) | set(ab))))
        R = reach_under(g, {"self.disconnecting": False, "self.connected": False})
        ctx.check(not (R & (set(st) | set(ab) | set(dset))), "lose/only-while-connected", q + " | <not connected>", "loseConnection() acts on a connection that is already gone")

        # ---- (c) the write path --------------------------------------------------------------------------------------------------------
    with ctx.section("TLSMemoryBIOProtocol._write"):
        # ---- sec: TLSMemoryBIOProtocol._write
        f = _F(ctx, T, "TLSMemoryBIOProtocol._write")
        g = ctx.cfg(f)
        q = QP + "_write"
        bparam = f.args.args[1].arg
        snd = calls_with(g, "self._tlsConnection.send")
        ctx.need(len(snd) == 1, "single self._tlsConnection.send() in _write")
        sn, scall = snd[0]
        sst = g.node(sn).ast
        sentv = sst.targets[0].id if isinstance(sst, ast.Assign) and isinstance(sst.targets[0], ast.Name) else None
        chunk = resolve_locals(f, scall.args[0]) if scall.args else None
        sp = slice_parts(chunk) if chunk is not None else None
        posv = src(sp[1]) if sp and sp[1] is not None else None
        ok = bool(sp) and src(sp[0]) == bparam and posv is not None and sp[2] is not None and posv in src(sp[2])
        ctx.check(ok, "write/chunk-from-position", ctx.construct(q, scall), "the chunk handed to OpenSSL does not start at the position reached so far")
        # followed from a successful send() round to the next one with concrete numbers (position 10, 3 bytes accepted, 100 to send): however the new
        # position is computed - in place, through a local, as the value a helper hands back - the next chunk must start at 13
        ok_send = succ_of(g, sn, None)
        trial = {posv: 10, sentv: 3, f"len({bparam})": 100} if posv and sentv else None
        if trial is not None:
            # locals bound once to a constant before the loop (the record size) are part of the state the round starts in
            from sa.props._lib_d import _local_bindings
            binds = _local_bindings(f)
            for st_ in walk_local(f):
                if isinstance(st_, ast.Assign) and len(st_.targets) == 1 and isinstance(st_.targets[0], ast.Name) and len(binds.get(st_.targets[0].id, [])) == 1 \
                        and st_.targets[0].id not in trial:
                    try:
                        v_ = peval(st_.value, {})
                    except NotConst:
                        continue
                    if isinstance(v_, int) and not isinstance(v_, bool):
                        trial[st_.targets[0].id] = v_
        if trial is None or not ok_send:
            ctx.note("write/advance-by-accepted, write/ciphertext-flushed: position / accepted-count variables of the send loop not recognised; not decided")
        else:
            arrivals = facts_at(g, trial, [sn], srcs=ok_send)
            got = sorted({fa.get(posv, "?") for fa in arrivals}, key=repr)
            if "?" in got:
                ctx.note(f"write/advance-by-accepted: the position {posv} at the next send() could not be evaluated; not decided")
            else:
                ctx.check(got == [13], "write/advance-by-accepted", q + " | <position>",
                          "the position does not advance by exactly what send() accepted (bytes skipped or sent twice): after position 10 and 3 accepted bytes the "
                          f"next chunk starts at {got if got else 'nothing (send() is not tried again)'}")
            fsb = call_nodes(g, "self._flushSendBIO")
            w = must_pass_under(g, trial, fsb, srcs=ok_send, to=[sn, g.exit])
            ctx.check(bool(fsb) and w is None, "write/ciphertext-flushed", q + " | <after send>", "encrypted bytes are left in the send BIO after a successful send()",
                      witness=g.describe(w))
        role = {h_: ss_ for h_, ss_ in _rebuffer_sites(ctx)[3]}
        for h in succ_of(g, sn, "exc"):
            if g.node(h).kind != "handler":
                continue
            names = handler_names(g.node(h).ast)
            hc = ctx.construct(q, f"except {', '.join(names)}:")
            back = path_under(g, {}, [sn], srcs=[h])       # branch outcomes fixed by what the handler itself assigns (a result of None, a flag) are respected
            ctx.check(back is None, "write/handler-leaves-loop", hc, "after a failed send() the loop tries again with the same data", witness=g.describe(back))
            if "WantReadError" in names:
                mine = role.get(h, [])
                w = g.must_pass([h], [n for n, _ in mine])
                ctx.check(bool(mine) and w is None, "write/wantread-rebuffers", hc, "data OpenSSL cannot take yet is dropped instead of being buffered", witness=g.describe(w))
                for n, arg in mine:
                    a = slice_parts(resolve_locals(f, arg)) if arg is not None else None
                    ctx.check(bool(a) and src(a[0]) == bparam and a[1] is not None and src(a[1]) == posv and a[2] is None, "write/wantread-rebuffers-unsent-suffix",
                              ctx.construct(q, g.node(n).ast), "what is re-buffered is not exactly the unsent suffix bytes[alreadySent:] (a prefix is duplicated or the tail is lost)")
            else:
                fin = call_nodes(g, "self._tlsShutdownFinished")
                w = g.must_pass([h], [n for n in fin if g.dominates(h, n)])
                ctx.check(w is None and bool(fin), "write/error-closes", hc, "a TLS error while writing does not tear the connection down", witness=g.describe(w))
        heads = [x.id for x in g.nodes if x.kind == "join" and isinstance(x.ast, ast.While) and g.reachable(x.id)]
        if heads and posv:
            for pos, ln, enter in ((4, 5, True), (5, 5, False), (0, 0, False)):
                R = reach_under(g, {posv: pos, f"len({bparam})": ln}, srcs=heads)
                ctx.check((sn in R) == enter, "write/loop-boundary", q + f" | <position {pos} of {ln}>",
                          "send() is not attempted although bytes remain" if enter else "send() is attempted with nothing left to send (endless loop on empty chunks)")
        R = reach_under(g, {"self._lostTLSConnection": True})
        ctx.check(sn not in R, "write/not-after-lost", q + " | <TLS connection lost>", "bytes are handed to OpenSSL after the TLS connection was lost")
        w = must_pass_under(g, {"self._lostTLSConnection": False, f"len({bparam})": 3}, [sn])
        ctx.check(w is None, "write/reaches-openssl", q + " | <connected>", "_write returns without handing the bytes to OpenSSL", witness=g.describe(w))

    with ctx.section("TLSMemoryBIOProtocol.write"):
        # ---- sec: TLSMemoryBIOProtocol.write
        f = _F(ctx, T, "TLSMemoryBIOProtocol.write")
        g = ctx.cfg(f)
        q = QP + "write"
        bparam = f.args.args[1].arg
        wr = [n for n, c in calls_with(g, "self._write") if c.args and src(c.args[0]) == bparam]
        for facts, lab, sent in (({"self.disconnecting": False}, "not disconnecting", True), ({"self.disconnecting": True, "self._producer": NONNULL}, "disconnecting, producer registered", True),
                                 ({"self.disconnecting": True, "self._producer": None}, "disconnecting, no producer", False)):
            c = q + f" | <{lab}>"
            if sent:
                w = must_pass_under(g, facts, wr)
                ctx.check(w is None, "write/dropped-only-after-close", c, "written bytes are dropped although the connection is not closing (or its producer is still registered)",
                          witness=g.describe(w))
            else:
                ctx.check(not (reach_under(g, facts) & set(wr)), "write/dropped-only-after-close", c, "bytes written after loseConnection() are still sent")
    with ctx.section("TLSMemoryBIOProtocol.writeSequence"):
        # ---- sec: TLSMemoryBIOProtocol.writeSequence
        f = _F(ctx, T, "TLSMemoryBIOProtocol.writeSequence")
        ip = f.args.args[1].arg
        ok = any(call_name(c) == "self.write" and c.args and src(c.args[0]) == f"b''.join({ip})" for c in walk_local(f) if isinstance(c, ast.Call))
        ctx.check(ok, "write/sequence-routes-through-write", QP + "writeSequence", "writeSequence does not go through write(b''.join(iovec)) (disconnect / ordering rules bypassed)")
    with ctx.section("TLSMemoryBIOProtocol._bufferedWrite"):
        # ---- sec: TLSMemoryBIOProtocol._bufferedWrite
        from sa.source import methods as _methods_of
        if "_bufferedWrite" in _methods_of(cls):
            f = _F(ctx, T, "TLSMemoryBIOProtocol._bufferedWrite")
            g = ctx.cfg(f)
            q = QP + "_bufferedWrite"
            ps = call_nodes(g, "self._producer.pauseProducing")
            w = must_pass_under(g, {"self._producer": NONNULL}, ps)
            ctx.check(w is None, "backpressure/pause-on-buffering", q + " | <producer registered>", "a producer is not paused when its data has to be buffered", witness=g.describe(w))
            ctx.check(not (reach_under(g, {"self._producer": None}) & set(ps)), "backpressure/pause-on-buffering", q + " | <no producer>", "pauseProducing on None")
        else:
            # no such helper: the same clause at the place that plays its role - after the append in the WantReadError handler of the send
            fw, g, sn_, hs = _rebuffer_sites(ctx)
            q = QP + "_write"
            appends = [n for _, ss in hs for n, _a in ss if "self._appSendBuffer.append" in src(g.node(n).ast)]
            ctx.need(appends, "the place where unsent bytes are put into _appSendBuffer (no _bufferedWrite helper, no append in the WantReadError handler of _write)")
            ps = call_nodes(g, "self._producer.pauseProducing")
            after = [s_ for n in appends for s_ in succ_of(g, n, None)]
            w = must_pass_under(g, {"self._producer": NONNULL}, ps, srcs=after, to=[g.exit, sn_])
            ctx.check(w is None, "backpressure/pause-on-buffering", q + " | <producer registered>", "a producer is not paused when its data has to be buffered", witness=g.describe(w))
            ctx.check(not (reach_under(g, {"self._producer": None}, srcs=after) & set(ps)), "backpressure/pause-on-buffering", q + " | <no producer>", "pauseProducing on None")
    with ctx.section("TLSMemoryBIOProtocol._flushSendBIO"):
        # ---- sec: TLSMemoryBIOProtocol._flushSendBIO
        f = _F(ctx, T, "TLSMemoryBIOProtocol._flushSendBIO")
        g = ctx.cfg(f)
        q = QP + "_flushSendBIO"
        br = calls_with(g, "self._tlsConnection.bio_read")
        tw = calls_with(g, "self.transport.write")
        ok = len(br) == 1 and len(tw) == 1 and isinstance(g.node(br[0][0]).ast, ast.Assign) and tw[0][1].args and \
            src(tw[0][1].args[0]) == src(g.node(br[0][0]).ast.targets[0]) and g.must_pass([br[0][0]], [tw[0][0]]) is None
        ctx.check(ok, "write/ciphertext-to-transport", q, "what bio_read() returned is not written to the underlying transport")

        # buffering subclass + aggregator
    with ctx.section("BufferingTLSTransport.loseConnection"):
        # ---- sec: BufferingTLSTransport.loseConnection
        f = _F(ctx, T, "BufferingTLSTransport.loseConnection")
        g = ctx.cfg(f)
        q = Q + "BufferingTLSTransport.loseConnection"
        fl = call_nodes(g, "self._aggregator.flush")
        sup = [n for n, c in calls_with(g, ".loseConnection") if src(c.func) in ("super().loseConnection", "TLSMemoryBIOProtocol.loseConnection")]
        ctx.check(bool(sup) and g.must_pass([g.entry], sup) is None, "aggregate/lose-forwards", q, "loseConnection() is not forwarded to TLSMemoryBIOProtocol")
        for s in sup:
            w = g.must_precede(fl, [s])
            ctx.check(bool(fl) and w is None, "aggregate/flushed-before-lose", ctx.construct(q, g.node(s).ast),
                      "small writes still held by the aggregator are not flushed before loseConnection(): bytes written before the close are dropped",
                      witness=g.describe(w))
    with ctx.section("BufferingTLSTransport.writeSequence"):
        # ---- sec: BufferingTLSTransport.writeSequence
        f = _F(ctx, T, "BufferingTLSTransport.writeSequence")
        ip = f.args.args[1].arg
        ok = any(call_name(c) in ("self._aggregator.write", "self.write") and c.args and src(resolve_locals(f, c.args[0])) == f"b''.join({ip})"
                 for c in walk_local(f) if isinstance(c, ast.Call))
        ctx.check(ok, "aggregate/sequence-routes-through-aggregator", Q + "BufferingTLSTransport.writeSequence",
                  "writeSequence bypasses the aggregator: its bytes overtake earlier small writes still waiting there")
    with ctx.section("BufferingTLSTransport.__init__"):
        # ---- sec: BufferingTLSTransport.__init__
        f = _F(ctx, T, "BufferingTLSTransport.__init__")
        # self.write is the .write of the very object stored in self._aggregator (named directly, or through the same local),
        # and that object is built by _AggregateSmallWrites(...)
        assigns = [st for st in walk_local(f) if isinstance(st, ast.Assign)]
        wdefs = [st.value for st in assigns if any(src(t) == "self.write" for t in st.targets)]
        adefs = [st.value for st in assigns if any(src(t) == "self._aggregator" for t in st.targets)]
        oka = len(adefs) == 1 and call_name(resolve_locals(f, adefs[0])) == "_AggregateSmallWrites"
        recv = wdefs[0].value if len(wdefs) == 1 and isinstance(wdefs[0], ast.Attribute) and wdefs[0].attr == "write" else None
        okw = recv is not None and (src(recv) == "self._aggregator" or (isinstance(recv, ast.Name) and oka and src(adefs[0]) == recv.id))
        ctx.check(okw and oka,
                  "aggregate/write-routes-through-aggregator", Q + "BufferingTLSTransport.__init__", "write is not bound to the aggregator")

    with ctx.section("_AggregateSmallWrites.write"):
        # ---- sec: _AggregateSmallWrites.write
        f = _F(ctx, T, "_AggregateSmallWrites.write")
        g = ctx.cfg(f)
        q = A + "write"
        dp = f.args.args[1].arg
        ap = [n for n, c in calls_with(g, "self._buffer.append") if c.args and src(c.args[0]) == dp]
        ctx.check(bool(ap) and g.must_pass([g.entry], ap) is None, "aggregate/append", q, "the data is not appended to the aggregation buffer on every path")
        fl = call_nodes(g, "self.flush")
        cl = [(n, c) for n, c in calls_with(g, "self._clock.callLater")]
        small = {"self._bufferLeft": 10, f"len({dp})": 3, "self._scheduled": None}
        ends = facts_at(g, small, [g.exit])
        ctx.check(bool(ends) and all(e.get("self._bufferLeft") == 7 for e in ends), "aggregate/size-coupled", q,
                  "_bufferLeft is not reduced by len(data) together with the append (evaluated: 10 bytes left, 3 written, "
                  f"left afterwards: {sorted({repr(e.get('self._bufferLeft')) for e in ends})})")
        w = must_pass_under(g, {"self._bufferLeft": 2, f"len({dp})": 3, "self._scheduled": None}, fl)
        ctx.check(w is None, "aggregate/flush-when-full", q + " | <buffer over limit>", "an over-full aggregation buffer is not flushed at once", witness=g.describe(w))
        for left in (10, 3):        # room to spare / exactly full
            facts = {"self._bufferLeft": left, f"len({dp})": 3, "self._scheduled": None}
            w = must_pass_under(g, facts, [n for n, _ in cl])
            ctx.check(w is None and not (reach_under(g, facts) & set(fl)), "aggregate/flush-scheduled", q + f" | <first small write, {left - 3} bytes left>",
                      "a small write is buffered but no flush is scheduled (or it is flushed at once although it fits): the bytes are never sent unless more data follows",
                      witness=g.describe(w))
        for n, c in cl:
            st_ = g.node(n).ast
            ok = isinstance(st_, ast.Assign) and src(st_.targets[0]) == "self._scheduled" and len(c.args) == 2 and src(c.args[1]) == "self._scheduledFlush"
            ctx.check(ok, "aggregate/flush-scheduled", ctx.construct(q, c), "the scheduled call is not remembered in _scheduled / does not run _scheduledFlush")
        R = reach_under(g, {"self._bufferLeft": 10, f"len({dp})": 3, "self._scheduled": NONNULL})
        ctx.check(not (R & {n for n, _ in cl}), "aggregate/one-timer", q + " | <flush already scheduled>", "a second flush timer is started while one is pending")
    with ctx.section("_AggregateSmallWrites._scheduledFlush"):
        # ---- sec: _AggregateSmallWrites._scheduledFlush
        f = _F(ctx, T, "_AggregateSmallWrites._scheduledFlush")
        g = ctx.cfg(f)
        q = A + "_scheduledFlush"
        rs = self_assigns(g, "_scheduled", lambda v: const_value_is(v, lambda x: x is None))
        fl = call_nodes(g, "self.flush")
        ctx.check(bool(rs) and g.must_pass([g.entry], rs) is None, "aggregate/timer-rearmed", q,
                  "_scheduled is not cleared when the timer fires: every later small write believes a flush is pending and is never sent")
        ctx.check(bool(fl) and g.must_pass([g.entry], fl) is None, "aggregate/timer-flushes", q, "the timer does not flush the buffer")
    with ctx.section("_AggregateSmallWrites.flush"):
        # ---- sec: _AggregateSmallWrites.flush
        f = _F(ctx, T, "_AggregateSmallWrites.flush")
        g = ctx.cfg(f)
        q = A + "flush"
        wr = [(n, c) for n, c in calls_with(g, "self._write")]
        facts = {"self._buffer": NONNULL}
        w = must_pass_under(g, facts, [n for n, _ in wr])
        ctx.check(w is None, "aggregate/flush-writes", q + " | <non-empty>", "flush() does not write the aggregated bytes", witness=g.describe(w))
        for n, c in wr:
            ctx.check(len(c.args) == 1 and src(resolve_locals(f, c.args[0])) == "b''.join(self._buffer)", "aggregate/flush-writes", ctx.construct(q, c), "flush() does not write the buffered pieces joined in order")
        from sa.effects import accesses as _accesses
        acc = _accesses(f, "_AggregateSmallWrites.flush", {"_buffer"}, {"self"})
        clears = [i for a in acc if a.kind in ("clear", "rebind-empty", "del-prefix") for i in g.ids_of(a.node)]
        w = must_pass_under(g, facts, clears)
        ctx.check(w is None, "aggregate/flush-empties", q + " | <non-empty>", "the aggregation buffer is not emptied by flush(): the same bytes are written again", witness=g.describe(w))
        rl = self_assigns(g, "_bufferLeft", lambda v: src(v) == "self.MAX_BUFFER_SIZE")
        w = must_pass_under(g, facts, rl)
        ctx.check(w is None, "aggregate/size-coupled", q + " | <non-empty>", "_bufferLeft is not reset when the buffer is emptied", witness=g.describe(w))

        # ---- (d) dataReceived, handshake, producers --------------------------------------------------------------------------------------
    with ctx.section("TLSMemoryBIOProtocol.dataReceived"):
        # ---- sec: TLSMemoryBIOProtocol.dataReceived
        f = _F(ctx, T, "TLSMemoryBIOProtocol.dataReceived")
        g = ctx.cfg(f)
        q = QP + "dataReceived"
        bparam = f.args.args[1].arg
        bw = [n for n, c in calls_with(g, "self._tlsConnection.bio_write") if c.args and src(c.args[0]) == bparam]
        hs = call_nodes(g, "self._checkHandshakeStatus")
        ub = call_nodes(g, "self._unbufferPendingWrites")
        fr = call_nodes(g, "self._flushReceiveBIO")
        ctx.check(bool(bw) and g.must_pass([g.entry], bw) is None and all(g.must_precede(bw, [x]) is None for x in hs + ub + fr), "received/fed-to-openssl-first", q,
                  "the received bytes are not handed to OpenSSL before the handshake / receive processing")
        w = must_pass_under(g, {"self._handshakeDone": True, "self._appSendBuffer": NONNULL}, ub, to=fr + [g.exit])
        ctx.check(w is None, "received/unblocks-buffered-writes", q + " | <handshake done, writes buffered>",
                  "incoming data does not retry the application writes that were waiting for it", witness=g.describe(w))
        w = must_pass_under(g, {"self._handshakeDone": True, "self._appSendBuffer": ()}, fr)
        ctx.check(w is None, "received/drains-receive-bio", q + " | <handshake done>", "application data made available by the new bytes is not delivered", witness=g.describe(w))
        for h in hs:
            nxt = succ_of(g, h, None)
            w = must_pass_under(g, {"self._handshakeDone": True, "self._appSendBuffer": ()}, fr, srcs=nxt)
            ctx.check(w is None, "received/handshake-retested", ctx.construct(q, g.node(h).ast),
                      "when the handshake completes with this very segment, the application data that followed it in the same segment is not processed "
                      "until more data arrives", witness=g.describe(w))
            R = reach_under(g, {"self._handshakeDone": False, "self._appSendBuffer": NONNULL}, srcs=nxt)
            ctx.check(not (R & set(ub)), "received/no-unbuffer-before-handshake", ctx.construct(q, g.node(h).ast) + " | pending",
                      "buffered writes are retried although the handshake is still incomplete")
            ctx.check(implied(g, h, [{"self._handshakeDone": False}], [{"self._handshakeDone": True}]), "received/handshake-only-while-pending", ctx.construct(q, g.node(h).ast) + " | once",
                      "do_handshake() is driven again after the handshake completed")
    with ctx.section("TLSMemoryBIOProtocol._checkHandshakeStatus"):
        # ---- sec: TLSMemoryBIOProtocol._checkHandshakeStatus
        f = _F(ctx, T, "TLSMemoryBIOProtocol._checkHandshakeStatus")
        g = ctx.cfg(f)
        q = QP + "_checkHandshakeStatus"
        dh = call_nodes(g, "self._tlsConnection.do_handshake")
        ctx.need(len(dh) == 1, "do_handshake() in _checkHandshakeStatus")
        done = self_assigns(g, "_handshakeDone", lambda v: const_value_is(v, lambda x: x is True))
        w = g.must_pass([dh[0]], done)
        ctx.check(bool(done) and w is None, "handshake/completion-recorded", q, "a successful do_handshake() is not recorded in _handshakeDone", witness=g.describe(w))
        for d in done:
            ctx.check(g.must_precede(dh, [d]) is None and not [h for h in range(len(g.nodes)) if g.node(h).kind == "handler" and g.dominates(h, d)],
                      "handshake/completion-recorded", ctx.construct(q, g.node(d).ast), "_handshakeDone is set on a path where do_handshake() did not succeed")
        for h in succ_of(g, dh[0], "exc"):
            if g.node(h).kind != "handler":
                continue
            names = handler_names(g.node(h).ast)
            if "WantReadError" in names:
                w = g.must_pass([h], call_nodes(g, "self._flushSendBIO"))
                ctx.check(w is None, "handshake/progress-flushed", ctx.construct(q, "except WantReadError:"), "handshake bytes produced so far are not flushed to the peer: the handshake stalls",
                          witness=g.describe(w))
            else:
                w = g.must_pass([h], call_nodes(g, "self._tlsShutdownFinished"))
                ctx.check(w is None, "handshake/failure-closes", ctx.construct(q, f"except {', '.join(names)}:"), "a failed handshake does not close the connection", witness=g.describe(w))
        R = reach_under(g, {"self._aborted": True})
        ctx.check(not (R & set(dh)), "handshake/not-after-abort", q + " | <aborted>", "the handshake is driven on an aborted connection")

    with ctx.section("TLSMemoryBIOProtocol.registerProducer"):
        # ---- sec: TLSMemoryBIOProtocol.registerProducer
        f = _F(ctx, T, "TLSMemoryBIOProtocol.registerProducer")
        g = ctx.cfg(f)
        q = QP + "registerProducer"
        pp = f.args.args[1].arg
        store = self_assigns(g, "_producer")
        treg = [(n, c) for n, c in calls_with(g, "self.transport.registerProducer")]
        R = reach_under(g, {"self._lostTLSConnection": True})
        w = must_pass_under(g, {"self._lostTLSConnection": True}, call_nodes(g, f"{pp}.stopProducing"))
        ctx.check(w is None and not (R & set(store)) and not (R & {n for n, _ in treg}), "producer/stopped-when-lost", q + " | <TLS connection lost>",
                  "a producer registered after the connection was lost is not stopped (or is registered anyway)", witness=g.describe(w))
        for st_flag in (True, False):
            facts = {"self._lostTLSConnection": False, f.args.args[2].arg: st_flag}
            w1 = must_pass_under(g, facts, store)
            w2 = must_pass_under(g, facts, [n for n, _ in treg])
            ctx.check(w1 is None and w2 is None, "producer/registered-both-levels", q + f" | <streaming={st_flag}>",
                      "the producer is not both remembered in _producer and registered with the transport", witness=g.describe(w1 or w2))
        for n, c in treg:
            ok = len(c.args) == 2 and const_value_is(c.args[1], lambda v: v is True) and any(src(g.node(s).ast.value) == src(c.args[0]) for s in store)
            ctx.check(ok, "producer/registered-both-levels", ctx.construct(q, c), "the transport is not given the same (membrane-wrapped, streaming) producer that _producer holds")
        mem = [x.id for x in g.nodes if x.kind == "stmt" and isinstance(x.ast, ast.Assign) and isinstance(x.ast.value, ast.Call) and call_name(x.ast.value) == "_ProducerMembrane"]
        ctx.check(bool(mem) and all(g.must_precede(mem, [s]) is None for s in store), "producer/membrane", q, "the producer is stored without the pause/resume membrane")
        for name, flagval, callee in (("pauseProducing", True, "self._producer.pauseProducing"), ("resumeProducing", False, "self._producer.resumeProducing")):
            f = _F(ctx, T, f"_ProducerMembrane.{name}")
            g = ctx.cfg(f)
            q = Q + f"_ProducerMembrane.{name}"
            cs = call_nodes(g, callee)
            fl = self_assigns(g, "_producerPaused", lambda v, fv=flagval: const_value_is(v, lambda x: x is fv))
            w = must_pass_under(g, {"self._producerPaused": not flagval}, cs)
            ctx.check(w is None, "membrane/forwards-change", q + " | <state changes>", f"{name}() is not forwarded to the producer when its state has to change", witness=g.describe(w))
            R = reach_under(g, {"self._producerPaused": flagval})
            ctx.check(not (R & set(cs)), "membrane/idempotent", q + " | <no change>", f"{name}() is forwarded again although the producer is already in that state")
            ctx.check(bool(fl) and all(g.must_precede(fl, [c]) is None for c in cs), "membrane/flag-before-callout", q,
                      "the membrane flag is not updated before the producer call-out (a producer that writes from resumeProducing and gets paused again is left inconsistent)")
    with ctx.section("TLSMemoryBIOProtocol.abortConnection"):
        # ---- sec: TLSMemoryBIOProtocol.abortConnection
        f = _F(ctx, T, "TLSMemoryBIOProtocol.abortConnection")
        g = ctx.cfg(f)
        q = QP + "abortConnection"
        need = {"_aborted = True": self_assigns(g, "_aborted", lambda v: const_value_is(v, lambda x: x is True)),
                "transport.abortConnection()": call_nodes(g, "self.transport.abortConnection")}
        for what, ns in need.items():
            ctx.check(bool(ns) and g.must_pass([g.entry], ns) is None, "abort/complete", q + f" | {what}", f"abortConnection() does not always perform {what}")
    with ctx.section("presence of the producer"):
        # sibling agreement: _producer holds a foreign object (the membrane around the application's producer); whether one is registered is decided by
        # identity with None at every site, never by truthiness
        nsites = 0
        for c_ in (cls, sub):
            for name, m in methods(c_).items():
                qn = Q + f"{c_.name}.{name}"
                for x in walk_local(m):
                    operands = [x.test] if isinstance(x, (ast.If, ast.While, ast.IfExp, ast.Assert)) else list(x.values) if isinstance(x, ast.BoolOp) else \
                        [x.operand] if isinstance(x, ast.UnaryOp) and isinstance(x.op, ast.Not) else []
                    for o in operands:
                        if src(o) == "self._producer":
                            nsites += 1
                            ctx.violation("presence/decided-by-identity", ctx.construct(qn, x.test if isinstance(x, (ast.If, ast.While)) else x),
                                          "whether a producer is registered is decided by the truthiness of the producer object here, by 'is None' everywhere else: a "
                                          "registered producer that is falsy is treated as absent (TLS shutdown started over it / never resumed)")
                    if isinstance(x, ast.Compare) and len(x.ops) == 1 and src(x.left) == "self._producer" and const_value_is(x.comparators[0], lambda v: v is None):
                        nsites += 1
                        ctx.check(isinstance(x.ops[0], (ast.Is, ast.IsNot)), "presence/decided-by-identity", ctx.construct(qn, x), "self._producer compared with None by ==/!=")
        ctx.floor("presence/decided-by-identity", nsites, 4)
    with ctx.section("liveness of a postponed close"):
        _liveness(ctx)


_UB = ("        pendingWrites, self._appSendBuffer = self._appSendBuffer, []\n        for eachWrite in pendingWrites:\n            self._write(eachWrite)\n")
MUTANTS = [
    Mutant("write-helper-returns-position-advanced-by-the-chunk-size", T, "            toSend = bytes[alreadySent : alreadySent + bufferSize]\n            try:\n                sent = self._tlsConnection.send(toSend)\n            except WantReadError:\n                self._bufferedWrite(bytes[alreadySent:])\n                break\n            except Error:\n                # Pretend TLS connection disconnected, which will trigger\n                # disconnect of underlying transport. The error will be passed\n                # to the application protocol's connectionLost method.  The\n                # other SSL implementation doesn't, but losing helpful\n                # debugging information is a bad idea.\n                self._tlsShutdownFinished(Failure())\n                break\n            else:\n                # We've successfully handed off the bytes to the OpenSSL\n                # Connection object.\n                alreadySent += sent\n                # See if OpenSSL wants to hand any bytes off to the underlying\n                # transport as a result.\n                self._flushSendBIO()\n\n", '            reached = self._handOver(bytes, alreadySent, bufferSize)\n            if reached is None:\n                break\n            alreadySent = reached\n            self._flushSendBIO()\n\n    def _handOver(self, octets, start, limit):\n        piece = octets[start : start + limit]\n        try:\n            accepted = self._tlsConnection.send(piece)\n        except WantReadError:\n            self._bufferedWrite(octets[start:])\n            return None\n        except Error:\n            self._tlsShutdownFinished(Failure())\n            return None\n        return start + limit\n\n', expect_rule="write/advance-by-accepted"),
    Mutant("write-helper-shape-forgets-to-flush-ciphertext", T, "            toSend = bytes[alreadySent : alreadySent + bufferSize]\n            try:\n                sent = self._tlsConnection.send(toSend)\n            except WantReadError:\n                self._bufferedWrite(bytes[alreadySent:])\n                break\n            except Error:\n                # Pretend TLS connection disconnected, which will trigger\n                # disconnect of underlying transport. The error will be passed\n                # to the application protocol's connectionLost method.  The\n                # other SSL implementation doesn't, but losing helpful\n                # debugging information is a bad idea.\n                self._tlsShutdownFinished(Failure())\n                break\n            else:\n                # We've successfully handed off the bytes to the OpenSSL\n                # Connection object.\n                alreadySent += sent\n                # See if OpenSSL wants to hand any bytes off to the underlying\n                # transport as a result.\n                self._flushSendBIO()\n\n", '            reached = self._handOver(bytes, alreadySent, bufferSize)\n            if reached is None:\n                break\n            alreadySent = reached\n\n    def _handOver(self, octets, start, limit):\n        piece = octets[start : start + limit]\n        try:\n            accepted = self._tlsConnection.send(piece)\n        except WantReadError:\n            self._bufferedWrite(octets[start:])\n            return None\n        except Error:\n            self._tlsShutdownFinished(Failure())\n            return None\n        return start + accepted\n\n', expect_rule="write/ciphertext-flushed"),
    Mutant("write-helper-wantread-returns-same-position-loop-retries", T, "            toSend = bytes[alreadySent : alreadySent + bufferSize]\n            try:\n                sent = self._tlsConnection.send(toSend)\n            except WantReadError:\n                self._bufferedWrite(bytes[alreadySent:])\n                break\n            except Error:\n                # Pretend TLS connection disconnected, which will trigger\n                # disconnect of underlying transport. The error will be passed\n                # to the application protocol's connectionLost method.  The\n                # other SSL implementation doesn't, but losing helpful\n                # debugging information is a bad idea.\n                self._tlsShutdownFinished(Failure())\n                break\n            else:\n                # We've successfully handed off the bytes to the OpenSSL\n                # Connection object.\n                alreadySent += sent\n                # See if OpenSSL wants to hand any bytes off to the underlying\n                # transport as a result.\n                self._flushSendBIO()\n\n", '            reached = self._handOver(bytes, alreadySent, bufferSize)\n            if reached is None:\n                break\n            alreadySent = reached\n            self._flushSendBIO()\n\n    def _handOver(self, octets, start, limit):\n        piece = octets[start : start + limit]\n        try:\n            accepted = self._tlsConnection.send(piece)\n        except WantReadError:\n            self._bufferedWrite(octets[start:])\n            return start\n        except Error:\n            self._tlsShutdownFinished(Failure())\n            return None\n        return start + accepted\n\n', expect_rule="write/handler-leaves-loop"),
    Mutant("inlined-rebuffering-does-not-pause-the-producer", T, '                self._bufferedWrite(bytes[alreadySent:])\n', '                unsent = bytes[alreadySent:]\n                self._appSendBuffer.append(unsent)\n', more=[(T, '    def _bufferedWrite(self, octets):\n        """\n        Put the given octets into L{TLSMemoryBIOProtocol._appSendBuffer}, and\n        tell any listening producer that it should pause because we are now\n        buffering.\n        """\n        self._appSendBuffer.append(octets)\n        if self._producer is not None:\n            self._producer.pauseProducing()\n\n', "")], expect_rule="backpressure/pause-on-buffering"),
    Mutant("inlined-rebuffering-keeps-the-whole-write", T, '                self._bufferedWrite(bytes[alreadySent:])\n', '                self._appSendBuffer.append(bytes)\n                if self._producer is not None:\n                    self._producer.pauseProducing()\n', more=[(T, '    def _bufferedWrite(self, octets):\n        """\n        Put the given octets into L{TLSMemoryBIOProtocol._appSendBuffer}, and\n        tell any listening producer that it should pause because we are now\n        buffering.\n        """\n        self._appSendBuffer.append(octets)\n        if self._producer is not None:\n            self._producer.pauseProducing()\n\n', "")], expect_rule="write/wantread-rebuffers-unsent-suffix"),
    Mutant("append-to-pending-queue-outside-the-wantread-handler", T, "                self._tlsShutdownFinished(Failure())\n                break\n            else:\n",
           "                self._appSendBuffer.append(bytes[alreadySent:])\n                self._tlsShutdownFinished(Failure())\n                break\n            else:\n",
           expect_rule="buffer/fifo-who-may-write"),
    Mutant("lost-reason-if-selection-inverted", T, '        reason = self._reason or reason\n        self._reason = None\n',
           "        recorded = self._reason\n        self._reason = None\n        if not recorded:\n            reason = recorded\n", expect_rule="lost/first-reason-wins"),
    Mutant("lose-shutdown-ignores-buffered-writes", T, "        if not self._appSendBuffer and self._producer is None:\n            self._shutdownTLS()\n",
           "        if self._producer is None:\n            self._shutdownTLS()\n", expect_rule="shutdown/not-while-writes-buffered"),
    Mutant("unbuffer-forgets-postponed-shutdown", T, "        if self.disconnecting:\n            # Finally, if we have no further buffered data, no producer wants\n",
           "        if False:\n            # Finally, if we have no further buffered data, no producer wants\n", expect_rule="unbuffer/continuation"),
    Mutant("unregister-forgets-postponed-shutdown", T, "        self.transport.unregisterProducer()\n        if self.disconnecting and not self._appSendBuffer:\n            self._shutdownTLS()\n",
           "        self.transport.unregisterProducer()\n", expect_rule="unregister/resumes-postponed-shutdown"),
    Mutant("unregister-shutdown-ignores-buffer", T, "        if self.disconnecting and not self._appSendBuffer:\n            self._shutdownTLS()\n\n\n@implementer",
           "        if self.disconnecting:\n            self._shutdownTLS()\n\n\n@implementer", expect_rule="shutdown/not-while-writes-buffered"),
    Mutant("unbuffer-replays-newest-first", T, "        for eachWrite in pendingWrites:\n            self._write(eachWrite)\n",
           "        for eachWrite in reversed(pendingWrites):\n            self._write(eachWrite)\n", expect_rule="unbuffer/replayed-oldest-first"),
    Mutant("unbuffer-without-swap", T, _UB, "        for eachWrite in self._appSendBuffer:\n            self._write(eachWrite)\n        self._appSendBuffer = []\n",
           expect_rule="unbuffer/swap-before-rewrite"),
    Mutant("wantread-rebuffers-everything", T, "                self._bufferedWrite(bytes[alreadySent:])", "                self._bufferedWrite(bytes)", expect_rule="write/wantread-rebuffers-unsent-suffix"),
    Mutant("wantread-rebuffers-chunk-only", T, "                self._bufferedWrite(bytes[alreadySent:])", "                self._bufferedWrite(toSend)", expect_rule="write/wantread-rebuffers-unsent-suffix"),
    Mutant("wantread-keeps-looping", T, "                self._bufferedWrite(bytes[alreadySent:])\n                break\n", "                self._bufferedWrite(bytes[alreadySent:])\n                continue\n",
           expect_rule="write/handler-leaves-loop"),
    Mutant("pending-writes-lifo", T, "        self._appSendBuffer.append(octets)", "        self._appSendBuffer.insert(0, octets)", expect_rule="buffer/fifo-who-may-write"),
    Mutant("data-after-connection-lost", T, "            self._tlsConnection.bio_shutdown()\n            self._flushReceiveBIO()\n            self._lostTLSConnection = True\n        reason = self._reason or reason\n        self._reason = None\n        self.connected = False\n        ProtocolWrapper.connectionLost(self, reason)\n",
           "            self._tlsConnection.bio_shutdown()\n        reason = self._reason or reason\n        self._reason = None\n        self.connected = False\n        ProtocolWrapper.connectionLost(self, reason)\n        if not self._lostTLSConnection:\n            self._flushReceiveBIO()\n            self._lostTLSConnection = True\n",
           expect_rule="lost/"),
    Mutant("transport-closed-before-peer-shutdown", T, "        self._flushSendBIO()\n        if shutdownSuccess:\n", "        self._flushSendBIO()\n        if True:\n",
           expect_rule="shutdown/transport-closed-only-after-both-sides"),
    Mutant("shutdown-finished-close-skipped-on-clean", T, "        self._flushSendBIO()\n        # Using loseConnection causes the application protocol's",
           "        self._flushSendBIO()\n        if reason is None:\n            return\n        # Using loseConnection causes the application protocol's", expect_rule="finished/closes-transport"),
    Mutant("first-reason-overwritten", T, "        if self._reason is None:\n            self._reason = reason\n        self._lostTLSConnection = True\n",
           "        self._reason = reason\n        self._lostTLSConnection = True\n", expect_rule="finished/first-reason-wins"),
    Mutant("write-dropped-while-producer-registered", T, "        if self.disconnecting and self._producer is None:\n            return\n        self._write(bytes)",
           "        if self.disconnecting:\n            return\n        self._write(bytes)", expect_rule="write/dropped-only-after-close"),
    Mutant("aggregator-not-flushed-before-lose", T, "        self._aggregator.flush()\n        super().loseConnection()\n", "        super().loseConnection()\n        self._aggregator.flush()\n",
           expect_rule="aggregate/flushed-before-lose"),
    Mutant("aggregator-timer-not-rearmed", T, "        self._scheduled = None\n        self.flush()\n", "        self.flush()\n", expect_rule="aggregate/timer-rearmed"),
    Mutant("aggregator-flush-keeps-buffer", T, "            self._write(b\"\".join(self._buffer))\n            del self._buffer[:]\n", "            self._write(b\"\".join(self._buffer))\n",
           expect_rule="aggregate/flush-empties"),
    Mutant("handshake-not-retested", T, "            # If the handshake still isn't finished, then we've nothing left to\n            # do.\n            if not self._handshakeDone:\n                return\n",
           "            return\n", expect_rule="received/handshake-retested"),
    Mutant("drain-resume-dropped", T, "            self._producer.resumeProducing()\n            return\n\n        if self.disconnecting:", "            return\n\n        if self.disconnecting:",
           expect_rule="unbuffer/continuation"),
    Mutant("receive-loop-ignores-tls-error", T, "                failure = Failure()\n                self._tlsShutdownFinished(failure)\n", "                failure = Failure()\n                self._reason = failure\n",
           expect_rule="data/loop-terminates"),
    Mutant("data-delivered-after-abort", T, "                if not self._aborted:\n                    ProtocolWrapper.dataReceived(self, bytes)\n", "                ProtocolWrapper.dataReceived(self, bytes)\n",
           expect_rule="data/not-after-abort"),
    Mutant("pre-handshake-close-waits-for-producer", T, "        if not self._handshakeDone and not self._appSendBuffer:\n            self.abortConnection()\n",
           "        if not self._handshakeDone and not self._appSendBuffer:\n            if self._producer is None:\n                self.abortConnection()\n",
           expect_rule="liveness/postponed-close-is-picked-up"),
    Mutant("unregister-recheck-dropped-liveness", T, "        self.transport.unregisterProducer()\n        if self.disconnecting and not self._appSendBuffer:\n            self._shutdownTLS()\n",
           "        self.transport.unregisterProducer()\n        if self.disconnecting and not self._appSendBuffer and self._lostTLSConnection:\n            self._shutdownTLS()\n",
           expect_rule="liveness/postponed-close-is-picked-up"),
    Mutant("drain-recheck-dropped-liveness", T, "        if self.disconnecting:\n            # Finally, if we have no further buffered data, no producer wants\n",
           "        if self.disconnecting and not self._handshakeDone:\n            # Finally, if we have no further buffered data, no producer wants\n",
           expect_rule="liveness/postponed-close-is-picked-up"),
    Mutant("handshake-completion-skips-unbuffer", T, "        if self._appSendBuffer:\n            self._unbufferPendingWrites()\n\n        # Since", "        # Since",
           expect_rule="liveness/postponed-close-is-picked-up"),
    Mutant("helper-shuts-down-while-writes-buffered", T, "        self.disconnecting = True\n        if not self._appSendBuffer and self._producer is None:\n            self._shutdownTLS()\n\n    def abortConnection",
           "        self.disconnecting = True\n        self._shutdownIfIdle()\n\n    def _shutdownIfIdle(self):\n        idle = self._producer is None\n        if idle:\n            self._shutdownTLS()\n\n    def abortConnection",
           expect_rule="shutdown/not-while-writes-buffered"),
    Mutant("write-bound-to-a-second-aggregator", T, "        self.write = self._aggregator.write  # type: ignore[method-assign]",
           "        self.write = _AggregateSmallWrites(actual_write, factory._clock).write  # type: ignore[method-assign]", expect_rule="aggregate/write-routes-through-aggregator"),
    Mutant("aggregator-size-not-reduced-via-local", T, "        self._bufferLeft -= len(data)\n\n        if self._bufferLeft < 0:", "        room = self._bufferLeft - len(data)\n\n        if room < 0:",
           expect_rule="aggregate/size-coupled"),
    Mutant("rebuffered-suffix-through-wrong-temporary", T, "                self._bufferedWrite(bytes[alreadySent:])\n", "                rest = bytes[alreadySent + bufferSize :]\n                self._bufferedWrite(rest)\n",
           expect_rule="write/wantread-rebuffers-unsent-suffix"),
    Mutant("producer-presence-by-truthiness-in-lose", T, "        if not self._appSendBuffer and self._producer is None:\n            self._shutdownTLS()\n\n    def abortConnection",
           "        if not self._appSendBuffer and not self._producer:\n            self._shutdownTLS()\n\n    def abortConnection", expect_rule="presence/decided-by-identity"),
    Mutant("buffering-writesequence-bypasses-aggregator", T, "        self._aggregator.write(b\"\".join(sequence))", "        super().write(b\"\".join(sequence))",
           expect_rule="aggregate/sequence-routes-through-aggregator"),
]
SILENT = [
    Silent("write-record-handed-over-by-a-helper-returning-the-next-position", T, "            toSend = bytes[alreadySent : alreadySent + bufferSize]\n            try:\n                sent = self._tlsConnection.send(toSend)\n            except WantReadError:\n                self._bufferedWrite(bytes[alreadySent:])\n                break\n            except Error:\n                # Pretend TLS connection disconnected, which will trigger\n                # disconnect of underlying transport. The error will be passed\n                # to the application protocol's connectionLost method.  The\n                # other SSL implementation doesn't, but losing helpful\n                # debugging information is a bad idea.\n                self._tlsShutdownFinished(Failure())\n                break\n            else:\n                # We've successfully handed off the bytes to the OpenSSL\n                # Connection object.\n                alreadySent += sent\n                # See if OpenSSL wants to hand any bytes off to the underlying\n                # transport as a result.\n                self._flushSendBIO()\n\n", '            reached = self._handOver(bytes, alreadySent, bufferSize)\n            if reached is None:\n                break\n            alreadySent = reached\n            self._flushSendBIO()\n\n    def _handOver(self, octets, start, limit):\n        piece = octets[start : start + limit]\n        try:\n            accepted = self._tlsConnection.send(piece)\n        except WantReadError:\n            self._bufferedWrite(octets[start:])\n            return None\n        except Error:\n            self._tlsShutdownFinished(Failure())\n            return None\n        return start + accepted\n\n'),
    Silent("buffered-write-helper-written-out-in-the-wantread-handler", T, '                self._bufferedWrite(bytes[alreadySent:])\n', '                unsent = bytes[alreadySent:]\n                self._appSendBuffer.append(unsent)\n                listening = self._producer\n                if listening is not None:\n                    listening.pauseProducing()\n', more=[(T, '    def _bufferedWrite(self, octets):\n        """\n        Put the given octets into L{TLSMemoryBIOProtocol._appSendBuffer}, and\n        tell any listening producer that it should pause because we are now\n        buffering.\n        """\n        self._appSendBuffer.append(octets)\n        if self._producer is not None:\n            self._producer.pauseProducing()\n\n', "")]),
    Silent("lost-reason-selected-by-if-through-a-local", T, '        reason = self._reason or reason\n        self._reason = None\n',
           "        recorded = self._reason\n        self._reason = None\n        if recorded:\n            reason = recorded\n"),
    Silent("unbuffer-loop-over-generator-helper", T, _UB, "        for eachWrite in self._detachPendingWrites():\n            self._write(eachWrite)\n",
           more=[(T, "    def _unbufferPendingWrites(self):\n", "    def _detachPendingWrites(self):\n        pendingWrites, self._appSendBuffer = self._appSendBuffer, []\n"
                  "        for eachWrite in pendingWrites:\n            yield eachWrite\n\n    def _unbufferPendingWrites(self):\n")]),
    Silent("unbuffer-loop-as-while-with-index-and-del", T, _UB,
           "        pendingWrites, self._appSendBuffer = self._appSendBuffer, []\n        while pendingWrites:\n            eachWrite = pendingWrites[0]\n            del pendingWrites[0]\n            self._write(eachWrite)\n"),
    Silent("unbuffer-tail-selects-action-then-calls-it", T, "        if self._producer is not None:\n            # If we have a registered producer, let it know that we have some\n            # more buffer space.\n            self._producer.resumeProducing()\n            return\n\n        if self.disconnecting:\n            # Finally, if we have no further buffered data, no producer wants\n            # to send us more data in the future, and the application told us\n            # to end the stream, initiate a TLS shutdown.\n            self._shutdownTLS()\n",
           "        if self._producer is not None:\n            action = self._producer.resumeProducing\n        elif self.disconnecting:\n            action = self._shutdownTLS\n        else:\n            return\n        action()\n"),
    Silent("buffered-write-producer-sampled-into-local", T, "        self._appSendBuffer.append(octets)\n        if self._producer is not None:\n            self._producer.pauseProducing()\n",
           "        self._appSendBuffer.append(octets)\n        producer = self._producer\n        if producer is None:\n            return\n        producer.pauseProducing()\n"),
    Silent("write-chunk-through-static-helper", T, "            toSend = bytes[alreadySent : alreadySent + bufferSize]\n", "            toSend = self._window(bytes, alreadySent, bufferSize)\n",
           more=[(T, "    def _write(self, bytes):\n", "    @staticmethod\n    def _window(data, start, size):\n        return data[start : start + size]\n\n    def _write(self, bytes):\n")]),
    Silent("unbuffer-swap-two-statements", T, _UB, "        pendingWrites = self._appSendBuffer\n        self._appSendBuffer = []\n        for pending in pendingWrites:\n            self._write(pending)\n"),
    Silent("lose-guard-nested", T, "        if not self._appSendBuffer and self._producer is None:\n            self._shutdownTLS()\n",
           "        if self._producer is None:\n            if not self._appSendBuffer:\n                self._shutdownTLS()\n"),
    Silent("unbuffer-tail-as-elif", T, "        if self._producer is not None:\n            # If we have a registered producer, let it know that we have some\n            # more buffer space.\n            self._producer.resumeProducing()\n            return\n\n        if self.disconnecting:",
           "        if self._producer is not None:\n            self._producer.resumeProducing()\n        elif self.disconnecting:"),
    Silent("write-guard-positive", T, "        if self.disconnecting and self._producer is None:\n            return\n        self._write(bytes)",
           "        if not self.disconnecting or self._producer is not None:\n            self._write(bytes)"),
    Silent("write-locals-renamed", T, "                self._bufferedWrite(bytes[alreadySent:])\n                break\n", "                rest = bytes[alreadySent:]\n                self._bufferedWrite(bytes[alreadySent:])\n                break\n"),
    Silent("shutdown-success-test-respelled", T, "        self._flushSendBIO()\n        if shutdownSuccess:\n", "        self._flushSendBIO()\n        if shutdownSuccess is not False and shutdownSuccess:\n"),
    Silent("producer-wait-with-recheck-at-handshake-completion", T, "        if not self._handshakeDone and not self._appSendBuffer:\n            self.abortConnection()\n",
           "        if not self._handshakeDone and not self._appSendBuffer and self._producer is None:\n            self.abortConnection()\n",
           more=[(T, "        if self._appSendBuffer:\n            self._unbufferPendingWrites()\n\n        # Since",
                  "        if self._appSendBuffer or self.disconnecting:\n            self._unbufferPendingWrites()\n\n        # Since")]),
    Silent("producer-wait-with-abort-at-unregister", T, "        if not self._handshakeDone and not self._appSendBuffer:\n            self.abortConnection()\n",
           "        if not self._handshakeDone and not self._appSendBuffer and self._producer is None:\n            self.abortConnection()\n",
           more=[(T, "        if self.disconnecting and not self._appSendBuffer:\n            self._shutdownTLS()\n\n\n@implementer",
                  "        if self.disconnecting and not self._appSendBuffer:\n            if self._handshakeDone:\n                self._shutdownTLS()\n            else:\n                self.abortConnection()\n\n\n@implementer")]),
    Silent("drain-tail-extracted-into-helper", T, "        if self._appSendBuffer:\n            # If OpenSSL ran out of buffer space in the Connection on our way\n",
           "        self._afterDrain()\n\n    def _afterDrain(self):\n        if self._appSendBuffer:\n            # If OpenSSL ran out of buffer space in the Connection on our way\n"),
    Silent("lose-tail-in-helper-with-named-condition", T, "        self.disconnecting = True\n        if not self._appSendBuffer and self._producer is None:\n            self._shutdownTLS()\n\n    def abortConnection",
           "        self.disconnecting = True\n        self._shutdownIfIdle()\n\n    def _shutdownIfIdle(self):\n        idle = not self._appSendBuffer and self._producer is None\n        if idle:\n            self._shutdownTLS()\n\n    def abortConnection"),
    Silent("write-loop-straightened-with-named-temporaries", T,
           "            toSend = bytes[alreadySent : alreadySent + bufferSize]\n            try:\n                sent = self._tlsConnection.send(toSend)\n            except WantReadError:\n"
           "                self._bufferedWrite(bytes[alreadySent:])\n                break\n",
           "            upTo = alreadySent + bufferSize\n            toSend = bytes[alreadySent:upTo]\n            try:\n                sent = self._tlsConnection.send(toSend)\n            except WantReadError:\n"
           "                rest = bytes[alreadySent:]\n                self._bufferedWrite(rest)\n                return\n"),
    Silent("receive-loop-body-in-helper-returning-a-flag", T,
           "        while not self._lostTLSConnection:\n            try:\n                bytes = self._tlsConnection.recv(2**15)\n            except WantReadError:\n"
           "                # The newly received bytes might not have been enough to produce\n                # any application data.\n                break\n",
           "        while not self._lostTLSConnection:\n            if self._pullOnce() is False:\n                break\n\n        self._flushSendBIO()\n\n    def _pullOnce(self):\n"
           "        if True:\n            try:\n                bytes = self._tlsConnection.recv(2**15)\n            except WantReadError:\n                return False\n",
           more=[(T, "                if not self._aborted:\n                    ProtocolWrapper.dataReceived(self, bytes)\n\n        # The received bytes might have generated a response which needs to be\n"
                     "        # sent now.  For example, the handshake involves several round-trip\n        # exchanges without ever producing application-bytes.\n        self._flushSendBIO()\n",
                  "                if not self._aborted:\n                    ProtocolWrapper.dataReceived(self, bytes)\n        return True\n")]),
    Silent("aggregator-with-locals-and-elif", T,
           "        self._bufferLeft -= len(data)\n\n        if self._bufferLeft < 0:\n            # We've accumulated enough we should just write it out. No need to\n            # schedule a flush, since we just flushed everything.\n"
           "            self.flush()\n            return\n\n        if self._scheduled:\n            # We already have a scheduled send, so with the data in the buffer,\n            # there is nothing more to do here.\n            return\n\n"
           "        # Schedule the write of the accumulated buffer for the next reactor\n        # iteration.\n        self._scheduled = self._clock.callLater(0, self._scheduledFlush)\n",
           "        room = self._bufferLeft - len(data)\n        self._bufferLeft = room\n        if room < 0:\n            self.flush()\n        elif not self._scheduled:\n"
           "            self._scheduled = self._clock.callLater(0, self._scheduledFlush)\n",
           more=[(T, "        if self._buffer:\n            self._bufferLeft = self.MAX_BUFFER_SIZE\n            self._write(b\"\".join(self._buffer))\n            del self._buffer[:]\n",
                  "        held = self._buffer\n        if not held:\n            return\n        self._bufferLeft = self.MAX_BUFFER_SIZE\n        joined = b\"\".join(held)\n        self._write(joined)\n        held.clear()\n"),
                 (T, "        actual_write = super().write\n        self._aggregator = _AggregateSmallWrites(actual_write, factory._clock)\n", "        agg = _AggregateSmallWrites(super().write, factory._clock)\n        self._aggregator = agg\n"),
                 (T, "        self.write = self._aggregator.write  # type: ignore[method-assign]", "        self.write = agg.write  # type: ignore[method-assign]"),
                 (T, "        self._aggregator.write(b\"\".join(sequence))", "        whole = b\"\".join(sequence)\n        self._aggregator.write(whole)")]),
    Silent("aggregator-clear-spelled", T, "            del self._buffer[:]\n", "            self._buffer.clear()\n"),
]
