"""C12 - System event triggers run once each, in phase and registration order."""
from __future__ import annotations

import ast

from sa.astx import body_walk, call_attr, call_name, dotted, src
from sa.selftest import Mutant, Silent
from sa.source import AnalysisError, class_assigns, methods
from sa.props._lib_c import (isolating_try, norm_class, norm_func, anchor_methods, section, LOGGER, assign_pairs, enclosing, gfind, is_const, isolating_with, must_pass, no_exc, parents, self_attr,
                             swallowing_predicate)

PROPERTY = "C12"
BASE = "internet/base.py"
Q = "twisted.internet.base._ThreePhaseEvent"
PHASES = ("before", "during", "after")
TECHNIQUE = "queue-end kinds, must-pass with swallowing edges, who-may-call, table agreement"
EXPLANATION = (
    "Every clause is decided STRUCTURALLY on a normalised copy of _ThreePhaseEvent (private helpers inlined, temporaries substituted, phase-name constants "
    "resolved, drain generators summarised). "
    "Once each, in registration order - queue-end kinds: triggers are appended under a validated phase name and consumed from the head (pop(0) / popleft, "
    "directly or through a drain generator) before being called; each consumed trigger reaches exactly one call-out with its registered arguments (must-pass). "
    "A raising trigger does not stop the others - exception-edge CFG: each call-out sits in a swallowing `with` placed inside the loop; swallowing is derived "
    "from logger/_logger.py (failureHandler -> class whose __exit__ returns True on every path); the result variable is defined on the exception path (def-use). "
    "Phases - def-use + who-may-call: every Deferred a before-trigger returns is collected, without extra condition, into the list given to the single "
    "DeferredList created after the loop without fireOnOne* flags, whose callback is the only reference to _continueFiring; _continueFiring drains during then "
    "after (literal order / path order). "
    "Removal - table agreement + must-pass: state strings have removeTrigger_<STATE> methods, handle layout agrees between addTrigger, both removers and the "
    "stored tuple, finishedBefore is appended between pop and call, removal during the before phase really removes unless the trigger already ran, the "
    "continuation leaves the BEFORE state. "
    "Not decided here: DeferredList's own semantics (C04), what triggers do.  Declared limitation: when a drain is written with an assignment expression in the loop test or over an indexed work list of phase lists, the verdicts of that rule group are withheld (analysis error confined to the group), not guessed."
)
RULE_KINDS = {"*": "structural"}
ASSUMPTIONS = [
    "rules read a normalised copy of the class: a private non-generator method that is not an anchor, is only ever called as self._h(...) "
    "inside its class and is mentioned in no other module is inlined at its call sites; single-assignment naming temporaries are substituted "
    "only where nothing they read is written (and no call runs) in between",
    "DeferredList(list) fires its callback only after every Deferred of the list fired, failures included (C04)",
    "the failure handler's logging call (_fail) does not itself raise",
]


def _is_call(x, name):
    return isinstance(x, ast.Call) and call_name(x) == name


def _pop_first(c):
    """Call consumes the head of its receiver: x.pop(0) / x.popleft()."""
    if not (isinstance(c, ast.Call) and isinstance(c.func, ast.Attribute)):
        return False
    if c.func.attr == "popleft" and not c.args:
        return True
    return c.func.attr == "pop" and len(c.args) == 1 and isinstance(c.args[0], ast.Constant) and c.args[0].value == 0 and type(c.args[0].value) is int


def _is_pop(c):
    return isinstance(c, ast.Call) and isinstance(c.func, ast.Attribute) and c.func.attr in ("pop", "popleft", "popitem")


_CLS = [None]
_MOD = [None]


def _const_tuple(e):
    """Constant values of a tuple/list/set literal, or of a class-level / module-level constant naming one."""
    if isinstance(e, ast.Attribute) and isinstance(e.value, ast.Name) and e.value.id in ("self", "cls") and _CLS[0] is not None:
        e = class_assigns(_CLS[0]).get(e.attr)
    elif isinstance(e, ast.Name) and _MOD[0] is not None:
        e = _MOD[0].module_assign(e.id)
    if isinstance(e, ast.Call) and dotted(e.func) in ("frozenset", "set", "tuple") and len(e.args) == 1:
        e = e.args[0]
    if isinstance(e, (ast.Tuple, ast.List, ast.Set)) and all(isinstance(x, ast.Constant) for x in e.elts):
        return [x.value for x in e.elts]
    return None


def _phase_guard(g, n, var):
    """Node n runs only when ``var`` is one of the three phase names."""
    for t, lab in g.edge_guards(n):
        e = g.node(t).ast
        if isinstance(e, ast.Compare) and len(e.ops) == 1 and src(e.left) == var:
            vals = _const_tuple(e.comparators[0])
            if vals is None or sorted(map(str, vals)) != sorted(PHASES):
                continue
            if (isinstance(e.ops[0], ast.NotIn) and lab == "F") or (isinstance(e.ops[0], ast.In) and lab == "T"):
                return True
    return False


def _drain_generator(fn):
    """``def g(lst): while lst: yield lst.pop(0)`` (any spelling): a generator all of whose yields deliver an element
    just popped from the head of its single list parameter, under a non-empty test -> parameter name, else None."""
    if not isinstance(fn, ast.FunctionDef):
        return None
    params = [a.arg for a in fn.args.args if a.arg not in ("self", "cls")]
    if len(params) != 1 or fn.args.vararg or fn.args.kwarg:
        return None
    p = params[0]
    ys = [n for n in body_walk(fn) if isinstance(n, (ast.Yield, ast.YieldFrom))]
    if not ys or any(isinstance(y, ast.YieldFrom) for y in ys):
        return None
    popped = {t.id for st in body_walk(fn) for t, v in assign_pairs(st) if isinstance(t, ast.Name) and _is_pop(v) and src(v.func.value) == p}
    for y in ys:
        v = y.value
        if not ((_is_pop(v) and src(v.func.value) == p) or (isinstance(v, ast.Name) and v.id in popped)):
            return None
    return p


def _drained_lists(e, mod, cls):
    """Lists consumed, in order, by iterating ``e``: G(lst) for a drain generator G, chain(...) of those."""
    if isinstance(e, ast.Call) and dotted(e.func) in ("chain", "itertools.chain") and e.args and not e.keywords:
        out = []
        for a in e.args:
            r = _drained_lists(a, mod, cls)
            if r is None:
                return None
            out += r
        return out
    if isinstance(e, ast.Call) and len(e.args) == 1 and not e.keywords:
        fn = None
        if isinstance(e.func, ast.Name):
            fn = mod.find(e.func.id)
        elif isinstance(e.func, ast.Attribute) and isinstance(e.func.value, ast.Name) and e.func.value.id == "self":
            fn = methods(cls).get(e.func.attr)
        if _drain_generator(fn):
            return [(src(e.args[0]), fn)]
    return None


def _getattr_self(e, var=None):
    return (isinstance(e, ast.Call) and dotted(e.func) == "getattr" and len(e.args) == 2 and src(e.args[0]) == "self"
            and (var is None or src(e.args[1]) == var))


def _mark_unread_drain_shapes(f, known_lists):
    """Things in a drain function that the drain rules cannot read: an assignment expression, a removal (pop / popleft / del x[0]) from something
    that is not one of the phase lists (nor a local bound once to one), an indexed work list of phase lists.  They are recorded on the
    function like un-inlined helpers, so that a verdict of the rule group is withheld (section-confined analysis error), never guessed."""
    if not hasattr(f, "body"):
        return
    alias = set(known_lists)
    for st_ in body_walk(f):
        for t_, v_ in assign_pairs(st_):
            if isinstance(t_, ast.Name) and src(v_) in ("self.before", "self.during", "self.after"):
                alias.add(t_.id)
        if isinstance(st_, ast.For) and isinstance(st_.target, ast.Name) and isinstance(st_.iter, (ast.Tuple, ast.List)):
            alias.add(st_.target.id)
    marks = []
    for n in body_walk(f):
        if isinstance(n, ast.NamedExpr):
            marks.append("<assignment expression>")
        elif _is_pop(n) and src(n.func.value) not in alias and not isinstance(getattr(f, "_drain_generator", None), str):
            marks.append(f"<removal from {src(n.func.value)}>")
        elif isinstance(n, ast.Delete) and any(isinstance(t_, ast.Subscript) for t_ in n.targets):
            marks.append(f"<{src(n)}>")
    if marks:
        f._residual = sorted(set(list(getattr(f, "_residual", [])) + marks))


def _drain_sites(ctx, f, g, q, names, lists_ok, rule_prefix):
    """Common obligations of a drain loop.  Returns [(pop node id, call-out node id, (f, a, kw) names, list text)]."""
    out = []
    # shape B: for (f, a, kw) in <drain generator over the list(s)>:
    for h in g.ids(lambda n: n.kind == "for"):
        loop = g.node(h).ast
        dl = _drained_lists(loop.iter, _MOD[0], _CLS[0])
        if dl is None:
            if any(l in src(loop.iter) for l in lists_ok if l.startswith("self.")) and isinstance(loop.iter, ast.Call):
                raise AnalysisError(f"C12: {q}: loop over {src(loop.iter)} - not a recognised way of draining a trigger list")
            continue
        key = ctx.construct(q, f"for ... in {src(loop.iter)}")
        for lst, gen in dl:
            gq = f"twisted.internet.base.{gen.name}"
            gg = ctx.cfg(gen)
            prm = _drain_generator(gen)
            for n in gfind(gg, _is_pop):
                call = next(x for x in ast.walk(gg.node(n).ast) if _is_pop(x))
                ctx.check(_pop_first(call), "order/consumed-from-head", ctx.construct(gq, "<pop>"),
                          f"the drain generator does not consume its list from the head: triggers run in reverse registration order")
                ctx.check(gg.guarded(n, lambda e: src(e) == prm, True), "order/consumed-from-head", ctx.construct(gq, "<pop>") + " | <non-empty>", "pop is not guarded by a non-empty test")
            # the generator re-tests the live list before every element and can only end when it is empty
            ctx.check(bool(gg.ids(lambda n: n.kind == "test" and src(n.ast) == prm)), "once/every-popped-trigger-runs", gq, "the drain generator can stop while its list is non-empty")
        ok = isinstance(loop.target, (ast.Tuple, ast.List)) and len(loop.target.elts) == 3 and all(isinstance(e, ast.Name) for e in loop.target.elts)
        ctx.check(ok, "once/trigger-unpacked", key, "the drained trigger is not unpacked into (callable, args, kwargs)")
        if not ok:
            continue
        fn, a, kw = [e.id for e in loop.target.elts]
        outs = gfind(g, lambda x: isinstance(x, ast.Call) and isinstance(x.func, ast.Name) and x.func.id == fn and enclosing(x, (ast.For, ast.While)) is loop)
        ctx.check(len(outs) == 1, "once/called-once-per-pop", key, f"a drained trigger reaches {len(outs)} call sites per iteration (exactly one expected)")
        it = [d for d, l in g.succ[h] if l == "iter"]
        w = must_pass(g, it, outs, to=[h, g.exit], exc=False)
        ctx.check(bool(outs) and w is None, "once/every-popped-trigger-runs", key, "a trigger can be removed from the list without being called", witness=g.describe(w))
        for o in outs:
            c = next(x for x in ast.walk(g.node(o).ast) if isinstance(x, ast.Call) and isinstance(x.func, ast.Name) and x.func.id == fn)
            okey = ctx.construct(q, "<trigger call-out>")
            okargs = (len(c.args) == 1 and isinstance(c.args[0], ast.Starred) and src(c.args[0].value) == a and len(c.keywords) == 1
                      and c.keywords[0].arg is None and src(c.keywords[0].value) == kw)
            ctx.check(okargs, "once/registered-arguments", okey, "the trigger is not called with exactly its registered *args, **kwargs")
            tr_, narrow_ = isolating_try(c)
            ctx.check(isolating_with(c, names) is not None or (tr_ is not None and not narrow_), "isolation/swallowing-with-inside-loop", okey,
                      "the trigger call-out is not wrapped, inside the loop, by a failure handler that swallows every exception: one raising trigger "
                      "prevents the remaining triggers (and phases) from running")
            esc = [d for d, l in g.succ[o] if l == "exc" and g.node(d).kind not in ("with_exit", "handler")]
            ctx.check(not esc, "isolation/no-escape", okey, "an exception of the trigger leaves the loop", witness=g.describe([o] + esc[:1]))
            for i, (lst, gen) in enumerate(dl):
                out.append((h, o, (fn, a, kw), lst))
    # a local bound once to one of the phase lists names the same list object (the attributes are never rebound after __init__:
    # rule order/phase-lists-never-rebound)
    alias = {}
    for st_ in body_walk(f):
        for t_, v_ in assign_pairs(st_):
            if isinstance(t_, ast.Name) and src(v_) in ("self.before", "self.during", "self.after"):
                alias[t_.id] = None if t_.id in alias else src(v_)
    stores_ = {}
    for n_ in body_walk(f):
        if isinstance(n_, ast.Name) and isinstance(n_.ctx, ast.Store):
            stores_[n_.id] = stores_.get(n_.id, 0) + 1
    alias = {k: v for k, v in alias.items() if v is not None and stores_.get(k) == 1}
    pops = gfind(g, _is_pop)
    for n in pops:
        st = g.node(n).ast
        call = next(x for x in ast.walk(st) if _is_pop(x))
        raw = src(call.func.value)
        lst = alias.get(raw, raw)
        if lst not in lists_ok:
            continue
        key = ctx.construct(q, st)
        ctx.check(_pop_first(call), "order/consumed-from-head", key,
                  f"{lst} is filled by append but not consumed from the head: triggers run in reverse registration order")
        ctx.check(g.guarded(n, lambda e: src(e) == raw, True), "order/consumed-from-head", key + " | <non-empty>", f"pop from {lst} is not guarded by a non-empty test")
        tg = [t for t, v in assign_pairs(st) if v is call]
        ok = len(tg) == 1 and isinstance(tg[0], (ast.Tuple, ast.List)) and len(tg[0].elts) == 3 and all(isinstance(e, ast.Name) for e in tg[0].elts)
        ctx.check(ok, "once/trigger-unpacked", key, "the popped trigger is not unpacked into (callable, args, kwargs)")
        if not ok:
            continue
        fn, a, kw = [e.id for e in tg[0].elts]
        outs = gfind(g, lambda x: isinstance(x, ast.Call) and isinstance(x.func, ast.Name) and x.func.id == fn)
        # the call-outs that this pop reaches before the next pop
        outs = [o for o in outs if g.path([n], [o], avoid=set(pops) - {n}) is not None]
        ctx.check(len(outs) == 1, "once/called-once-per-pop", key, f"a popped trigger reaches {len(outs)} call sites before the next pop (exactly one expected)")
        w = must_pass(g, [n], outs, exc=False)
        ctx.check(bool(outs) and w is None, "once/every-popped-trigger-runs", key, "a trigger can be removed from the list without being called", witness=g.describe(w))
        for o in outs:
            c = next(x for x in ast.walk(g.node(o).ast) if isinstance(x, ast.Call) and isinstance(x.func, ast.Name) and x.func.id == fn)
            okey = ctx.construct(q, g.node(o).ast)
            okargs = (len(c.args) == 1 and isinstance(c.args[0], ast.Starred) and src(c.args[0].value) == a and len(c.keywords) == 1
                      and c.keywords[0].arg is None and src(c.keywords[0].value) == kw)
            ctx.check(okargs, "once/registered-arguments", okey, "the trigger is not called with exactly its registered *args, **kwargs")
            w_ = isolating_with(c, names)
            tr_, narrow_ = isolating_try(c)
            ctx.check(w_ is not None or (tr_ is not None and not narrow_), "isolation/swallowing-with-inside-loop", okey,
                      ("the trigger call-out is only protected by a handler narrower than BaseException: a trigger raising e.g. SystemExit / KeyboardInterrupt / "
                       "GeneratorExit ends the loop and " if narrow_ else
                       "the trigger call-out is not wrapped, inside the loop, by a failure handler that swallows exceptions: one raising trigger ") +
                      "prevents the remaining triggers (and phases) from running")
            esc = [d for d, l in g.succ[o] if l == "exc" and g.node(d).kind not in ("with_exit", "handler")]
            ctx.check(not esc, "isolation/no-escape", okey, "an exception of the trigger leaves the loop", witness=g.describe([o] + esc[:1]))
            out.append((n, o, (fn, a, kw), lst))
    return out


def check(ctx):
    mod = ctx.mod(BASE)
    KEEP = ("addTrigger", "removeTrigger", "removeTrigger_BASE", "removeTrigger_BEFORE", "fireEvent", "_continueFiring", "__init__")
    cls = norm_class(ctx, BASE, "_ThreePhaseEvent", KEEP)
    _CLS[0], _MOD[0] = cls, mod
    m = anchor_methods(ctx, BASE, cls, ("addTrigger", "removeTrigger", "removeTrigger_BASE", "removeTrigger_BEFORE", "fireEvent", "_continueFiring"))
    names, swallow = swallowing_predicate(ctx, BASE)
    ctx.check(bool(names), "isolation/handlers-derived", f"twisted.logger._logger.Logger.failureHandler",
              "no module-level failure handler of internet/base.py is provably swallowing any more (Logger.failureHandler's context manager "
              "does not return True from __exit__ on every path): trigger exceptions propagate")

    # ---- addTrigger -------------------------------------------------------------------------------------------------
    with section(ctx, 'addTrigger'):
        f = m["addTrigger"]
        g = ctx.cfg(f)
        q = f"{Q}.addTrigger"
        ps = [a.arg for a in f.args.args]
        ctx.need(len(ps) >= 3 and f.args.vararg and f.args.kwarg, "addTrigger(self, phase, callable, *args, **kwargs)")
        phase, cb, va, kwa = ps[1], ps[2], f.args.vararg.arg, f.args.kwarg.arg
        fills = gfind(g, lambda x: isinstance(x, ast.Call) and isinstance(x.func, ast.Attribute) and _getattr_self(x.func.value))
        ctx.check(len(fills) == 1, "order/filled-at-tail", q, f"{len(fills)} mutation sites of the phase list in addTrigger (one append expected)")
        app_tuple = None
        for n in fills:
            c = next(x for x in ast.walk(g.node(n).ast) if isinstance(x, ast.Call) and isinstance(x.func, ast.Attribute) and _getattr_self(x.func.value))
            key = ctx.construct(q, g.node(n).ast)
            ctx.check(c.func.attr == "append" and len(c.args) == 1, "order/filled-at-tail", key,
                      "a trigger is not appended at the tail of its phase list: registration order is not execution order")
            ctx.check(_getattr_self(c.func.value, phase) and _phase_guard(g, n, phase), "order/phase-validated", key,
                      "the phase list is selected by an unvalidated name (a trigger can land in another attribute and never run)")
            if c.args and isinstance(c.args[0], ast.Tuple):
                app_tuple = [src(e) for e in c.args[0].elts]
            ctx.check(app_tuple == [cb, va, kwa], "once/registered-arguments", key, "the stored trigger is not (callable, args, kwargs)")
        w = must_pass(g, [g.entry], fills, exc=False)
        ctx.check(w is None, "order/filled-at-tail", q + " | <all paths>", "addTrigger can return a handle without having registered the trigger", witness=g.describe(w))
        rets = [r for r in body_walk(f) if isinstance(r, ast.Return) and r.value is not None]
        handle_ok = False
        for r in rets:
            v = r.value
            if isinstance(v, ast.Call) and len(v.args) == 1:
                v = v.args[0]
            handle_ok = isinstance(v, ast.Tuple) and [src(e) for e in v.elts] == [phase, cb, va, kwa]
        ctx.check(handle_ok, "remove/handle-layout", q, "the handle is not (phase, callable, args, kwargs): removeTrigger cannot find the trigger it denotes")

    # ---- the phase lists keep their identity --------------------
    with section(ctx, "phase lists never rebound"):
        from sa.effects import class_accesses
        for a_ in class_accesses(mod, cls, {"before", "during", "after"}, receivers={"self"}):
            if a_.kind in ("assign", "rebind-empty", "delete"):
                ctx.check(a_.func == "_ThreePhaseEvent.__init__", "order/phase-lists-never-rebound", ctx.construct("twisted.internet.base." + a_.func, a_.node),
                          "a phase list is replaced by a new object while triggers may be registered in / drained from the old one")

    # ---- removers ---------------------------------------------------------------------------------------------------------
    with section(ctx, 'removers'):
        states = set()
        for fn in m.values():
            for st in body_walk(fn):
                for t, v in assign_pairs(st):
                    if self_attr(t, "state"):
                        if isinstance(v, ast.Constant) and isinstance(v.value, str):
                            states.add(v.value)
                        else:
                            ctx.violation("remove/state-has-remover", ctx.construct(Q, st), "state assigned a non-literal")
        for s in sorted(states):
            ctx.check(("removeTrigger_" + s) in m, "remove/state-has-remover", f"{Q} | state {s!r}", f"no removeTrigger_{s} method: removeTrigger raises AttributeError in that state")
        f = m["removeTrigger"]
        disp = [c for c in body_walk(f) if isinstance(c, ast.Call) and isinstance(c.func, ast.Call) and dotted(c.func.func) == "getattr"
                and len(c.func.args) == 2 and src(c.func.args[1]) in ("'removeTrigger_' + self.state", "f'removeTrigger_{self.state}'")]
        ctx.check(len(disp) == 1 and len(disp[0].args) == 1 and src(disp[0].args[0]) == f.args.args[1].arg, "remove/state-has-remover", f"{Q}.removeTrigger",
                  "removeTrigger does not dispatch on self.state with the handle")

    # ---- removeTrigger_BASE --------------------
    with section(ctx, 'removeTrigger_BASE'):
        f = m["removeTrigger_BASE"]
        g = ctx.cfg(f)
        q = f"{Q}.removeTrigger_BASE"
        h = f.args.args[1].arg
        unp = [st for st in body_walk(f) if isinstance(st, ast.Assign) and src(st.value) == h and isinstance(st.targets[0], ast.Tuple) and len(st.targets[0].elts) == 4]
        ctx.check(len(unp) == 1, "remove/handle-layout", q, "the handle is not unpacked into four fields")
        rms = gfind(g, lambda x: isinstance(x, ast.Call) and isinstance(x.func, ast.Attribute) and _getattr_self(x.func.value))
        ctx.check(len(rms) == 1, "remove/really-removes", q, f"{len(rms)} mutation sites in removeTrigger_BASE (one remove expected)")
        if unp:
            p_, c_, a_, k_ = [src(e) for e in unp[0].targets[0].elts]
            for n in rms:
                c = next(x for x in ast.walk(g.node(n).ast) if isinstance(x, ast.Call) and isinstance(x.func, ast.Attribute) and _getattr_self(x.func.value))
                key = ctx.construct(q, g.node(n).ast)
                ctx.check(c.func.attr == "remove" and len(c.args) == 1 and isinstance(c.args[0], ast.Tuple) and [src(e) for e in c.args[0].elts] == [c_, a_, k_]
                          and _getattr_self(c.func.value, p_), "remove/handle-layout", key,
                          "the remover does not remove (callable, args, kwargs) from the list named by the handle's phase: the trigger stays registered and still runs")
                ctx.check(_phase_guard(g, n, p_), "order/phase-validated", key, "remove from an unvalidated attribute name")
            w = must_pass(g, [g.entry], rms, exc=False)
            ctx.check(w is None, "remove/really-removes", q + " | <all paths>", "removeTrigger_BASE can return normally without removing anything", witness=g.describe(w))

    # ---- removeTrigger_BEFORE --------------------
    with section(ctx, 'removeTrigger_BEFORE'):
        f = m["removeTrigger_BEFORE"]
        g = ctx.cfg(f)
        q = f"{Q}.removeTrigger_BEFORE"
        h = f.args.args[1].arg
        unp = [st for st in body_walk(f) if isinstance(st, ast.Assign) and src(st.value) == h and isinstance(st.targets[0], ast.Tuple) and len(st.targets[0].elts) == 4]
        ctx.check(len(unp) == 1, "remove/handle-layout", q, "the handle is not unpacked into four fields")
        if unp:
            p_, c_, a_, k_ = [src(e) for e in unp[0].targets[0].elts]
            deleg = gfind(g, lambda x: _is_call(x, "self.removeTrigger_BASE") and len(x.args) == 1 and src(x.args[0]) == h)
            fin_tests = g.ids(lambda n: n.kind == "test" and isinstance(n.ast, ast.Compare) and len(n.ast.ops) == 1 and isinstance(n.ast.ops[0], (ast.In, ast.NotIn))
                              and src(n.ast.comparators[0]) == "self.finishedBefore")
            ctx.check(bool(fin_tests) and all(src(g.node(t).ast.left) == f"({c_}, {a_}, {k_})" for t in fin_tests), "remove/already-ran-test", q,
                      "removal during the before phase does not look the trigger up in finishedBefore as (callable, args, kwargs)")
            ran = []
            for t in fin_tests:
                lab = "T" if isinstance(g.node(t).ast.ops[0], ast.In) else "F"
                ran += [d for d, l in g.succ[t] if l == lab]
                ctx.check(g.guarded(t, lambda e: src(e) in (f"{p_} != 'before'", f"{p_} == 'before'"), None), "remove/already-ran-test", ctx.construct(q, g.node(t).ast),
                          "the finishedBefore test is applied to triggers of other phases")
            # every normal exit passes the delegation, unless the trigger already ran
            avoid = set(deleg)
            w = g.path([g.entry], [g.exit], avoid=avoid | set(ran), edge_ok=no_exc)
            ctx.check(bool(deleg) and w is None, "remove/really-removes", q,
                      "a not-yet-executed trigger removed while before-triggers are firing is not removed (it still runs)", witness=g.describe(w))

    # ---- fireEvent ------------------------------------------------------------------------------------------------------------
    with section(ctx, 'fireEvent'):
        f = m["fireEvent"]
        _mark_unread_drain_shapes(f, {"self.before", "self.during", "self.after"})
        g = ctx.cfg(f, swallowing=swallow)
        q = f"{Q}.fireEvent"
        sites = _drain_sites(ctx, f, g, q, names, {"self.before"}, "before")
        ctx.check(len(sites) == 1, "order/before-drained", q, f"fireEvent drains self.before at {len(sites)} sites (one expected)")
        other = [n for n in gfind(g, _is_pop) if src(next(x for x in ast.walk(g.node(n).ast) if _is_pop(x)).func.value) in ("self.during", "self.after")]
        ctx.check(not other, "phase/during-after-wait", q, "fireEvent itself consumes during/after triggers (before the before-phase Deferreds fired)")
        dls = gfind(g, lambda x: isinstance(x, ast.Call) and dotted(x.func) == "DeferredList")
        ctx.check(len(dls) == 1, "phase/one-gate", q, f"{len(dls)} DeferredList gates in fireEvent (one expected)")
        gate_list = None
        for n in dls:
            dl = next(x for x in ast.walk(g.node(n).ast) if isinstance(x, ast.Call) and dotted(x.func) == "DeferredList")
            key = ctx.construct(q, g.node(n).ast)
            flags = [k for k in dl.keywords if k.arg in ("fireOnOneCallback", "fireOnOneErrback") and not (isinstance(k.value, ast.Constant) and not k.value.value)]
            ctx.check(len(dl.args) == 1 and isinstance(dl.args[0], ast.Name) and not flags and all(k.arg in ("fireOnOneCallback", "fireOnOneErrback", "consumeErrors") for k in dl.keywords),
                      "phase/gate-waits-for-all", key, "the gate fires on the first result/failure instead of after every before-trigger Deferred "
                      "(during/after triggers would run while before-triggers are still pending)")
            gate_list = dl.args[0].id if dl.args and isinstance(dl.args[0], ast.Name) else None
            par = getattr(dl, "_parent", None)
            reg = getattr(par, "_parent", None)
            ok = (isinstance(par, ast.Attribute) and par.attr in ("addCallback", "addBoth") and isinstance(reg, ast.Call) and len(reg.args) == 1
                  and src(reg.args[0]) == "self._continueFiring" and not reg.keywords)
            if not ok:
                # d = DeferredList(..); d.addCallback(self._continueFiring)
                holders = {t.id for st in body_walk(f) for t, v in assign_pairs(st) if isinstance(t, ast.Name) and v is dl}
                regs = [c for c in body_walk(f) if isinstance(c, ast.Call) and isinstance(c.func, ast.Attribute) and c.func.attr in ("addCallback", "addBoth")
                        and isinstance(c.func.value, ast.Name) and c.func.value.id in holders and len(c.args) == 1 and src(c.args[0]) == "self._continueFiring"]
                if regs:
                    rn = [x for c in regs for x in g.ids_of(c)]
                    ok = must_pass(g, [n], rn, exc=False) is None
            ctx.check(ok, "phase/gate-continues", key, "the gate's callback is not _continueFiring: during/after triggers never run")
            ctx.check(enclosing(dl, (ast.While, ast.For)) is None, "phase/one-gate", key, "the gate is created inside the before loop")
            w = must_pass(g, [g.entry], [n], exc=False)
            ctx.check(w is None, "phase/gate-continues", q + " | <all paths>", "fireEvent can finish without arranging the during/after phases", witness=g.describe(w))
            for (pn, on, _, _) in sites:
                ctx.check(g.path([n], [pn]) is None, "phase/during-after-wait", key, "the gate is created before all before-triggers ran")
        for (pn, on, (fn, a, kw), lst) in sites:
            ost = g.node(on).ast
            okey = ctx.construct(q, ost)
            res = [t.id for t, v in assign_pairs(ost) if isinstance(t, ast.Name) and isinstance(v, ast.Call) and isinstance(v.func, ast.Name) and v.func.id == fn]
            ctx.check(len(res) == 1, "phase/results-collected", okey, "the before-trigger's return value is dropped: a returned Deferred is not waited for")
            if len(res) != 1:
                continue
            rv = res[0]
            itests = g.ids(lambda n: n.kind == "test" and isinstance(n.ast, ast.Call) and dotted(n.ast.func) == "isinstance" and len(n.ast.args) == 2
                           and src(n.ast.args[0]) == rv and src(n.ast.args[1]) == "Deferred")
            apps = gfind(g, lambda x: isinstance(x, ast.Call) and isinstance(x.func, ast.Attribute) and x.func.attr == "append" and gate_list is not None
                         and src(x.func.value) == gate_list and len(x.args) == 1 and src(x.args[0]) == rv)
            ctx.check(bool(itests) and bool(apps), "phase/results-collected", okey,
                      "a Deferred returned by a before-trigger is not added to the list the gate waits on: during/after triggers run before it fires")
            w = must_pass(g, [on], itests, exc=True)
            ctx.check(w is None, "phase/results-collected", okey + " | <every result examined>", "a before-trigger's result can skip the Deferred test", witness=g.describe(w))
            for t in itests:
                s = [d for d, l in g.succ[t] if l == "T"]
                w = must_pass(g, s, apps, exc=False)
                ctx.check(w is None, "phase/results-collected", okey + " | <Deferred result>", "a Deferred result can skip the gate list", witness=g.describe(w))
            for ap in apps:
                extra = [src(g.node(t).ast) for t, lab in g.edge_guards(ap) if t not in itests and src(g.node(t).ast) != lst]
                ctx.check(not extra, "phase/results-collected", ctx.construct(q, g.node(ap).ast), "collection of the Deferred depends on an extra condition: " + ", ".join(extra))
            # gate list starts empty, before the loop
            init = g.ids(lambda n: n.kind == "stmt" and any(isinstance(t, ast.Name) and t.id == gate_list and isinstance(v, ast.List) and not v.elts for t, v in assign_pairs(n.ast)))
            w = g.must_precede(init, [pn]) if init else [g.entry]
            ctx.check(bool(init) and w is None and all(enclosing(g.node(i).ast, (ast.While, ast.For)) is None for i in init), "phase/results-collected", q + " | <gate list>",
                      "the gate list is not created empty once before the loop (results of earlier triggers are lost)", witness=g.describe(w))
            # the result variable is defined when the trigger raised
            others = g.ids(lambda n: n.kind == "stmt" and n.id != on and any(isinstance(t, ast.Name) and t.id == rv for t, v in assign_pairs(n.ast)))
            w = g.path([g.entry], itests, avoid=set(others), edge_ok=lambda a, b, l: not (a == on and l != "exc")) if itests else None
            ctx.check(w is None, "isolation/result-defined-after-failure", okey,
                      "when a before-trigger raises, the result variable is unbound at the Deferred test: NameError aborts fireEvent and the remaining triggers never run",
                      witness=g.describe(w))
            # finishedBefore appended between pop and call
            fb = gfind(g, lambda x: _is_call(x, "self.finishedBefore.append") and len(x.args) == 1 and isinstance(x.args[0], ast.Tuple)
                       and [src(e) for e in x.args[0].elts] == [fn, a, kw])
            w = g.path([pn], [on], avoid=set(fb)) if fb else [pn, on]
            ctx.check(bool(fb) and w is None, "remove/finished-recorded-before-call", okey,
                      "the trigger is not recorded in finishedBefore before it is called: a trigger that removes itself (or an earlier one) while running "
                      "gets ValueError instead of the documented warning", witness=g.describe(w))
            st_b = g.ids(lambda n: n.kind == "stmt" and any(self_attr(t, "state") and is_const_str(v, "BEFORE") for t, v in assign_pairs(n.ast)))
            fb_r = g.ids(lambda n: n.kind == "stmt" and any(self_attr(t, "finishedBefore") and isinstance(v, ast.List) and not v.elts for t, v in assign_pairs(n.ast)))
            for what, nodes in (("state = 'BEFORE'", st_b), ("finishedBefore = []", fb_r)):
                w = g.must_precede(nodes, [pn]) if nodes else [g.entry]
                ctx.check(bool(nodes) and w is None, "remove/before-state-entered", f"{q} | {what}",
                          f"{what} is not established before the first before-trigger runs (removal from inside a trigger takes the wrong branch)", witness=g.describe(w))

    # ---- _continueFiring -----------------------------------------------------------------------------------------------------
    with section(ctx, '_continueFiring'):
        f = m["_continueFiring"]
        _mark_unread_drain_shapes(f, {"self.before", "self.during", "self.after"})
        g = ctx.cfg(f, swallowing=swallow)
        q = f"{Q}._continueFiring"
        loops = [n for n in body_walk(f) if isinstance(n, ast.For) and isinstance(n.target, ast.Name) and isinstance(n.iter, (ast.Tuple, ast.List))]
        lists_ok = {"self.during", "self.after"}
        for lp in loops:
            elts = [src(e) for e in lp.iter.elts]
            ctx.check(elts == ["self.during", "self.after"], "phase/during-then-after", ctx.construct(q, f"for {src(lp.target)} in {src(lp.iter)}"),
                      "the phases are not drained in the order during, after (or one is missing / foreign)")
            lists_ok.add(lp.target.id)
        sites = _drain_sites(ctx, f, g, q, names, lists_ok, "late")
        drained = set()
        for (pn, on, _, lst) in sites:
            if lst in ("self.during", "self.after"):
                drained.add(lst)
            else:
                for lp in loops:
                    if lp.target.id == lst:
                        drained.update(src(e) for e in lp.iter.elts)
        ctx.check({"self.during", "self.after"} <= drained, "phase/during-then-after", q, "not both of during / after are drained: " + ", ".join(sorted(drained)))
        d_p = [pn for pn, _, _, lst in sites if lst == "self.during"]
        a_p = [pn for pn, _, _, lst in sites if lst == "self.after"]
        seq = [lst for _, _, _, lst in sites if lst in ("self.during", "self.after")]
        if d_p and a_p and set(d_p) == set(a_p):
            ctx.check(seq == ["self.during", "self.after"], "phase/during-then-after", q + " | <chained drains>", "the phases are not drained in the order during, after")
        elif d_p and a_p:
            w = g.path(a_p, d_p)
            ctx.check(w is None, "phase/during-then-after", q + " | <explicit loops>", "an after-trigger can run before a during-trigger", witness=g.describe(w))
        ctx.check("self.before" not in {lst for _, _, _, lst in sites}, "phase/during-then-after", q + " | <before>", "before-triggers are consumed in the continuation")
        st_b = g.ids(lambda n: n.kind == "stmt" and any(self_attr(t, "state") and is_const_str(v, "BASE") for t, v in assign_pairs(n.ast)))
        fb_r = g.ids(lambda n: n.kind == "stmt" and any(self_attr(t, "finishedBefore") and isinstance(v, ast.List) and not v.elts for t, v in assign_pairs(n.ast)))
        outs = [on for _, on, _, _ in sites]
        ok = False
        w = None
        for nodes in (st_b, fb_r):
            if nodes and outs:
                w_ = g.must_precede(nodes, outs)
                if w_ is None:
                    ok = True
                else:
                    w = w_
        # ... and no way out of the continuation (early return included) skips that: once the firing is over the event must not stay in the
        # BEFORE state with the record of executed before-triggers
        w_exit = must_pass(g, [g.entry], st_b + fb_r, exc=False)
        ctx.check(bool(st_b + fb_r) and w_exit is None, "remove/before-state-left", q + " | <every exit>",
                  "the continuation can return while the event is still in state 'BEFORE' with finishedBefore populated (e.g. an early return when no during/after "
                  "trigger is registered): afterwards removing a re-registered before-trigger only warns, the trigger stays and runs at the next firing",
                  witness=g.describe(w_exit))
        ctx.check(ok, "remove/before-state-left", q,
                  "during/after triggers run while the event still records executed before-triggers: removing a (re-added) before-trigger from them "
                  "only warns and the trigger runs again at the next firing", witness=g.describe(w) if not ok else "")

    # ---- _continueFiring is only the gate's callback ------------------------------------------------------------------------
    with section(ctx, "_continueFiring is only the gate's callback"):
        refs = [n for n in ast.walk(mod.tree) if isinstance(n, ast.Attribute) and n.attr == "_continueFiring"]
        nref = 0
        for r in refs:
            nref += 1
            par = getattr(r, "_parent", None)
            ok = (isinstance(par, ast.Call) and any(a is r for a in par.args) and isinstance(par.func, ast.Attribute) and par.func.attr in ("addCallback", "addBoth")
                  and mod.qualname(r) == "_ThreePhaseEvent.fireEvent")
            ctx.check(ok, "phase/continue-only-from-gate", ctx.construct("twisted.internet.base." + mod.qualname(r), par if par is not None else r),
                      "_continueFiring is invoked / referenced outside the DeferredList gate: during and after triggers run without waiting for the before-trigger Deferreds")

    # ---- reactor entry points -------------------------------------------------------------------------------------------------------
    with section(ctx, 'reactor entry points'):
        RK_ = ("fireSystemEvent", "addSystemEventTrigger", "removeSystemEventTrigger", "callWhenRunning", "__init__")
        f = norm_func(ctx, BASE, "ReactorBase", "fireSystemEvent", RK_)
        g = ctx.cfg(f)
        qf = "twisted.internet.base.ReactorBase.fireSystemEvent"
        fires = gfind(g, lambda x: isinstance(x, ast.Call) and call_attr(x) == "fireEvent")
        twice = next((g.path([x], [y], strict=True) for x in fires for y in fires if g.path([x], [y], strict=True)), None)
        ctx.check(bool(fires) and twice is None, "reactor/fires-event", qf, "fireSystemEvent does not fire the registered event exactly once", witness=g.describe(twice))
        for n in fires:
            recv = src(next(x for x in ast.walk(g.node(n).ast) if isinstance(x, ast.Call) and call_attr(x) == "fireEvent").func.value)
            w = None
            for t in g.ids(lambda nd: nd.kind == "test"):
                from sa.props._lib_c import is_none_test
                k = is_none_test(g.node(t).ast, recv)
                if k is not None:
                    w = w or must_pass(g, [d for d, l in g.succ[t] if l == ("F" if k else "T")], fires, exc=False)
            ctx.check(w is None, "reactor/fires-event", qf + " | <registered event>", "a registered event is not fired", witness=g.describe(w))
        f = norm_func(ctx, BASE, "ReactorBase", "addSystemEventTrigger", RK_)
        qa = "twisted.internet.base.ReactorBase.addSystemEventTrigger"
        ps = [a.arg for a in f.args.args]
        ctx.need(len(ps) >= 4 and f.args.vararg and f.args.kwarg, "addSystemEventTrigger(self, phase, eventType, callable, *args, **kwargs)")
        slot = f"self._eventTriggers[{ps[2]}]"
        calls = [c for c in body_walk(f) if isinstance(c, ast.Call) and call_attr(c) == "addTrigger"]
        ctx.check(len(calls) >= 1, "reactor/registers-trigger", qa, "addSystemEventTrigger does not register the trigger with any event")

        def is_event_of_type(e, depth=0):
            """e denotes the _ThreePhaseEvent registered under eventType: the dict slot itself, or a local every definition of which is
            a read of that slot / a fresh _ThreePhaseEvent() stored into the slot by the same statement / setdefault on the slot."""
            if src(e) == slot:
                return True
            if isinstance(e, ast.Call) and call_name(e) == "self._eventTriggers.setdefault" and len(e.args) == 2 and src(e.args[0]) == ps[2] and src(e.args[1]) == "_ThreePhaseEvent()":
                return True
            if isinstance(e, ast.Name) and depth < 3:
                defs = [st for st in body_walk(f) if isinstance(st, (ast.Assign, ast.AnnAssign)) and any(isinstance(t, ast.Name) and t.id == e.id for t, v in assign_pairs(st))]
                if not defs:
                    return False
                for st in defs:
                    pairs = assign_pairs(st)
                    v = next(v for t, v in pairs if isinstance(t, ast.Name) and t.id == e.id)
                    stored = any(src(t) == slot and v2 is v for t, v2 in pairs)
                    if not (is_event_of_type(v, depth + 1) or (src(v) == "_ThreePhaseEvent()" and stored)):
                        return False
                return True
            return False
        for c in calls:
            ok = [src(a) for a in c.args] == [ps[1], ps[3], "*" + f.args.vararg.arg] and [src(k.value) for k in c.keywords] == [f.args.kwarg.arg] and is_event_of_type(c.func.value)
            ctx.check(ok, "reactor/registers-trigger", ctx.construct(qa, "<addTrigger call>"),
                      "addSystemEventTrigger does not forward (phase, callable, *args, **kwargs) to the event registered for that event type")
        g = ctx.cfg(f)
        cn = gfind(g, lambda x: isinstance(x, ast.Call) and call_attr(x) == "addTrigger")
        w = must_pass(g, [g.entry], cn, exc=False)
        ctx.check(w is None, "reactor/registers-trigger", qa + " | <all paths>", "addSystemEventTrigger can return without registering the trigger", witness=g.describe(w))


def is_const_str(node, value):
    return isinstance(node, ast.Constant) and node.value == value and isinstance(node.value, str)


_FIRE_LOOP = ("            callable, args, kwargs = self.before.pop(0)\n            self.finishedBefore.append((callable, args, kwargs))\n            result = None\n"
              "            with _systemEventHandler:\n                result = callable(*args, **kwargs)\n")
_CONT = ("        for phase in self.during, self.after:\n            while phase:\n                callable, args, kwargs = phase.pop(0)\n"
         "                with _systemEventHandler:\n                    callable(*args, **kwargs)\n")

MUTANTS = [
    Mutant("before-popped-from-tail", BASE, "            callable, args, kwargs = self.before.pop(0)\n", "            callable, args, kwargs = self.before.pop()\n",
           expect_rule="order/consumed-from-head"),
    Mutant("late-phases-popped-from-tail", BASE, "                callable, args, kwargs = phase.pop(0)\n", "                callable, args, kwargs = phase.pop()\n",
           expect_rule="order/consumed-from-head"),
    Mutant("call-outside-handler", BASE, "                with _systemEventHandler:\n                    callable(*args, **kwargs)\n", "                callable(*args, **kwargs)\n",
           expect_rule="isolation/swallowing-with-inside-loop"),
    Mutant("handler-around-whole-loop", BASE, _CONT,
           "        for phase in self.during, self.after:\n            with _systemEventHandler:\n                while phase:\n                    callable, args, kwargs = phase.pop(0)\n"
           "                    callable(*args, **kwargs)\n", expect_rule="isolation/swallowing-with-inside-loop"),
    Mutant("gate-fires-on-first-result", BASE, "        DeferredList(beforeResults).addCallback(self._continueFiring)\n",
           "        DeferredList(beforeResults, fireOnOneCallback=True).addCallback(self._continueFiring)\n", expect_rule="phase/gate-waits-for-all"),
    Mutant("after-before-during", BASE, "        for phase in self.during, self.after:\n", "        for phase in self.after, self.during:\n", expect_rule="phase/during-then-after"),
    Mutant("finished-recorded-after-call", BASE, _FIRE_LOOP,
           "            callable, args, kwargs = self.before.pop(0)\n            result = None\n            with _systemEventHandler:\n                result = callable(*args, **kwargs)\n"
           "            self.finishedBefore.append((callable, args, kwargs))\n", expect_rule="remove/finished-recorded-before-call"),
    Mutant("result-unbound-when-trigger-raises", BASE, "            result = None\n            with _systemEventHandler:\n", "            with _systemEventHandler:\n",
           expect_rule="isolation/result-defined-after-failure"),
    Mutant("deferred-result-not-collected", BASE, "            if isinstance(result, Deferred):\n                beforeResults.append(result)\n",
           "            if isinstance(result, Deferred) and not result.called:\n                beforeResults.append(result)\n", expect_rule="phase/results-collected"),
    Mutant("continue-called-directly", BASE, "        DeferredList(beforeResults).addCallback(self._continueFiring)\n",
           "        DeferredList(beforeResults).addCallback(self._continueFiring)\n        if not beforeResults:\n            self._continueFiring(None)\n",
           expect_rule="phase/continue-only-from-gate"),
    Mutant("triggers-prepended", BASE, "        getattr(self, phase).append((callable, args, kwargs))\n", "        getattr(self, phase).insert(0, (callable, args, kwargs))\n",
           expect_rule="order/filled-at-tail"),
    Mutant("handler-no-longer-swallows", LOGGER, "            self.failure = failure\n            self._fail(failure)\n        return True\n\n\nclass Logger:",
           "            self.failure = failure\n            self._fail(failure)\n            return exc_type is not KeyboardInterrupt\n        return True\n\n\nclass Logger:",
           expect_rule="isolation/"),
    Mutant("call-helper-catches-only-Exception", BASE, "                with _systemEventHandler:\n                    callable(*args, **kwargs)\n",
           "                self._invoke(callable, args, kwargs)\n",
           more=[(BASE, "    def fireEvent(self) -> None:\n", "    def _invoke(self, trigger, positional, named):\n        try:\n            return trigger(*positional, **named)\n"
                  "        except Exception:\n            _log.failure(\"While calling system event trigger handler\")\n            return None\n\n    def fireEvent(self) -> None:\n")],
           expect_rule="isolation/swallowing-with-inside-loop"),
    Mutant("trigger-registered-with-another-event", BASE, "                self._eventTriggers[eventType].addTrigger(\n", "                self._eventTriggers[phase].addTrigger(\n",
           expect_rule="reactor/registers-trigger"),
    Mutant("late-phase-helper-pops-from-the-tail", BASE, "        for phase in self.during, self.after:\n            while phase:\n                callable, args, kwargs = phase.pop(0)\n                with _systemEventHandler:\n                    callable(*args, **kwargs)\n", "        first, then = self.during, self.after\n        self._drainPhase(first)\n        self._drainPhase(then)\n\n    def _drainPhase(self, pending):\n        while pending:\n            callable, args, kwargs = pending.pop()\n            with _systemEventHandler:\n                callable(*args, **kwargs)\n", expect_rule="order/consumed-from-head"),
    Mutant("comprehension-drops-fired-deferreds", BASE, "        beforeResults: List[Deferred[object]] = []\n        while self.before:\n            callable, args, kwargs = self.before.pop(0)\n            self.finishedBefore.append((callable, args, kwargs))\n            result = None\n            with _systemEventHandler:\n                result = callable(*args, **kwargs)\n            if isinstance(result, Deferred):\n                beforeResults.append(result)\n        DeferredList(beforeResults).addCallback(self._continueFiring)\n", "        waitFor = [outcome for outcome in self._runBeforePhase() if isinstance(outcome, Deferred) and not outcome.called]\n        DeferredList(waitFor).addCallback(self._continueFiring)\n\n    def _runBeforePhase(self):\n        while self.before:\n            callable, args, kwargs = self.before.pop(0)\n            self.finishedBefore.append((callable, args, kwargs))\n            outcome = None\n            with _systemEventHandler:\n                outcome = callable(*args, **kwargs)\n            yield outcome\n",
           expect_rule="phase/results-collected"),
    Mutant("continuation-returns-early-before-leaving-the-BEFORE-state", BASE, "        self.state = \"BASE\"\n        self.finishedBefore = []\n        for phase",
           "        if len(self.during) + len(self.after) == 0:\n            return None\n        self.state = \"BASE\"\n        self.finishedBefore = []\n        for phase",
           expect_rule="remove/before-state-left"),
    Mutant("before-removal-ignored-while-firing", BASE, "        else:\n            self.removeTrigger_BASE(handle)\n\n    def fireEvent",
           "        else:\n            pass\n\n    def fireEvent", expect_rule="remove/really-removes"),
    Mutant("remover-uses-wrong-field-order", BASE, "            getattr(self, phase).remove((callable, args, kwargs))\n", "            getattr(self, phase).remove((callable, kwargs, args))\n",
           expect_rule="remove/handle-layout"),
]

SILENT = [
    Silent("deque-style-popleft", BASE, "            callable, args, kwargs = self.before.pop(0)\n", "            callable, args, kwargs = self.before.popleft()\n"),
    Silent("rename-locals", BASE, _CONT,
           "        for triggers in (self.during, self.after):\n            while triggers:\n                fn, a, kw = triggers.pop(0)\n"
           "                with _systemEventHandler:\n                    fn(*a, **kw)\n"),
    Silent("gate-held-in-local", BASE, "        DeferredList(beforeResults).addCallback(self._continueFiring)\n",
           "        gate = DeferredList(beforeResults, consumeErrors=False)\n        gate.addCallback(self._continueFiring)\n"),
    Silent("explicit-two-loops", BASE, _CONT,
           "        while self.during:\n            callable, args, kwargs = self.during.pop(0)\n            with _systemEventHandler:\n                callable(*args, **kwargs)\n"
           "        while self.after:\n            callable, args, kwargs = self.after.pop(0)\n            with _systemEventHandler:\n                callable(*args, **kwargs)\n"),
    Silent("phase-test-positive", BASE, "        if phase not in (\"before\", \"during\", \"after\"):\n            raise KeyError(\"invalid phase\")\n        getattr(self, phase).append((callable, args, kwargs))\n",
           "        if phase in (\"before\", \"during\", \"after\"):\n            getattr(self, phase).append((callable, args, kwargs))\n        else:\n            raise KeyError(\"invalid phase\")\n"),

    # --- shapes of the independent refactor set
    Silent("phase-names-as-class-constant", BASE, "        if phase not in (\"before\", \"during\", \"after\"):\n            raise KeyError(\"invalid phase\")\n        getattr(self, phase).append((callable, args, kwargs))\n",
           "        if phase not in self._PHASES:\n            raise KeyError(\"invalid phase\")\n        target = getattr(self, phase)\n        target.append((callable, args, kwargs))\n",
           more=[(BASE, "    def addTrigger(\n", "    _PHASES = (\"before\", \"during\", \"after\")\n\n    def addTrigger(\n"),
                 (BASE, "        else:\n            self.removeTrigger_BASE(handle)\n\n    def fireEvent", "            return\n        self.removeTrigger_BASE(handle)\n\n    def fireEvent")]),
    Silent("late-phases-through-drain-generators", BASE, _CONT,
           "        for callable, args, kwargs in chain(self._popAll(self.during), self._popAll(self.after)):\n            with _systemEventHandler:\n                callable(*args, **kwargs)\n",
           more=[(BASE, "    def fireEvent(self) -> None:\n", "    def _popAll(self, pending):\n        while pending:\n            yield pending.pop(0)\n\n    def fireEvent(self) -> None:\n")]),
    Silent("phase-list-lookup-helper", BASE, "        if phase not in (\"before\", \"during\", \"after\"):\n            raise KeyError(\"invalid phase\")\n        getattr(self, phase).append((callable, args, kwargs))\n",
           "        self._listFor(phase).append((callable, args, kwargs))\n",
           more=[(BASE, "    def addTrigger(\n", "    def _listFor(self, phase):\n        if phase not in (\"before\", \"during\", \"after\"):\n            raise KeyError(\"invalid phase\")\n        return getattr(self, phase)\n\n    def addTrigger(\n"),
                 (BASE, "            if phase not in (\"before\", \"during\", \"after\"):\n                raise KeyError(\"invalid phase\")\n            getattr(self, phase).remove((callable, args, kwargs))\n",
                  "            self._listFor(phase).remove((callable, args, kwargs))\n")]),

    # --- second round of independent refactors: helpers shared by several sites (one static, returning from inside the handler), lookup-or-create
    Silent("call-helper-static-and-state-helper", BASE, _FIRE_LOOP,
           "            callable, args, kwargs = self.before.pop(0)\n            self.finishedBefore.append((callable, args, kwargs))\n"
           "            result = self._invoke(callable, args, kwargs)\n",
           more=[(BASE, "                with _systemEventHandler:\n                    callable(*args, **kwargs)\n", "                self._invoke(callable, args, kwargs)\n"),
                 (BASE, "        self.state = \"BEFORE\"\n        self.finishedBefore = []\n", "        self._become(\"BEFORE\")\n"),
                 (BASE, "        self.state = \"BASE\"\n        self.finishedBefore = []\n        for phase", "        self._become(\"BASE\")\n        for phase"),
                 (BASE, "    def fireEvent(self) -> None:\n", "    def _become(self, newState):\n        self.finishedBefore = []\n        self.state = newState\n\n    @staticmethod\n    def _invoke(trigger, positional, named):\n"
                  "        with _systemEventHandler:\n            return trigger(*positional, **named)\n        return None\n\n    def fireEvent(self) -> None:\n")]),
    Silent("event-looked-up-or-created", BASE, "        if eventType not in self._eventTriggers:\n            self._eventTriggers[eventType] = _ThreePhaseEvent()\n",
           "        try:\n            registered = self._eventTriggers[eventType]\n        except KeyError:\n            registered = self._eventTriggers[eventType] = _ThreePhaseEvent()\n",
           more=[(BASE, "                self._eventTriggers[eventType].addTrigger(\n", "                registered.addTrigger(\n"),
                 (BASE, "        if event is not None:\n            event.fireEvent()\n", "        if event is None:\n            return\n        event.fireEvent()\n")]),
    Silent("call-helper-with-catch-all-try", BASE, "                with _systemEventHandler:\n                    callable(*args, **kwargs)\n",
           "                try:\n                    callable(*args, **kwargs)\n                except BaseException:\n                    _log.failure(\"While calling system event trigger handler\")\n"),
    # --- third round: the draining loops moved into a generator consumed by a comprehension and into a helper applied to captured lists
    Silent("before-phase-generator-and-late-phase-helper", BASE, "        beforeResults: List[Deferred[object]] = []\n        while self.before:\n            callable, args, kwargs = self.before.pop(0)\n            self.finishedBefore.append((callable, args, kwargs))\n            result = None\n            with _systemEventHandler:\n                result = callable(*args, **kwargs)\n            if isinstance(result, Deferred):\n                beforeResults.append(result)\n        DeferredList(beforeResults).addCallback(self._continueFiring)\n", "        waitFor = [outcome for outcome in self._runBeforePhase() if isinstance(outcome, Deferred)]\n        DeferredList(waitFor).addCallback(self._continueFiring)\n\n    def _runBeforePhase(self):\n        while self.before:\n            callable, args, kwargs = self.before.pop(0)\n            self.finishedBefore.append((callable, args, kwargs))\n            outcome = None\n            with _systemEventHandler:\n                outcome = callable(*args, **kwargs)\n            yield outcome\n",
           more=[(BASE, "        for phase in self.during, self.after:\n            while phase:\n                callable, args, kwargs = phase.pop(0)\n                with _systemEventHandler:\n                    callable(*args, **kwargs)\n", "        first, then = self.during, self.after\n        self._drainPhase(first)\n        self._drainPhase(then)\n\n    def _drainPhase(self, pending):\n        while pending:\n            callable, args, kwargs = pending.pop(0)\n            with _systemEventHandler:\n                callable(*args, **kwargs)\n")]),
    # --- fourth round: a take-the-oldest helper and a work list of phase lists.  DECLARED LIMITATION: the drain rules do not read this shape (a removal from
    # an element of an indexed work list); the verdicts of the _continueFiring rule group are withheld (section-confined analysis error), nothing is alarmed
    Silent("late-phases-through-a-work-list-and-take-oldest-helper", BASE, "        for phase in self.during, self.after:\n            while phase:\n                callable, args, kwargs = phase.pop(0)\n                with _systemEventHandler:\n                    callable(*args, **kwargs)\n", "        todo = [self.during, self.after]\n        while todo:\n            entry = self._oldest(todo[0])\n            if entry is None:\n                del todo[0]\n                continue\n            callable, args, kwargs = entry\n            with _systemEventHandler:\n                callable(*args, **kwargs)\n\n    @staticmethod\n    def _oldest(pending):\n        if not pending:\n            return None\n        return pending.pop(0)\n", allow_error=True),
]
