"""C20 - HTTP server responses are framed exactly and headers cannot be injected."""
from __future__ import annotations

import ast
import itertools

from sa.astx import assigned_targets, call_attr, call_name, dotted, src, statements, walk_local
from sa.effects import class_accesses
from sa.selftest import Mutant, Silent
from sa.source import AnalysisError
from sa.props._lib_e_machine import PyRaise, exc_name
from sa.props._lib_e_struct import (c20_cookies, c20_finish_valuations, c20_foreign_headers, c20_headers_store, c20_persistence_framing, c20_status_provenance,
                                    c20_write_valuations, structural)
from sa.props._lib_e_http import Harness, WireError, check_name_encoder_behaviour, parse_responses
from sa.props._lib_e import (assigns_self, call_in, calls_named, check_name_encoder, check_token_validator, http_interp, is_const, local_values, make_env,
                             no_exc, ordered, resolve_local, self_attr, walk)

PROPERTY = "C20"
HTTP = "web/http.py"
HDRS = "web/http_headers.py"
ABNF = "web/_abnf.py"
Q = "twisted.web.http."
QR = Q + "Request."
SAN = "_sanitizeLinearWhitespace"

TECHNIQUE = 'provenance at wire sinks + guard valuations of write/finish/checkPersistence; bounded parse-back of emitted bytes'
EXPLANATION = (
    'Structural and finite-exhaustive rules run on a normalised view (private helpers inlined at their call sites, temporaries followed by partial evaluati'
    'on, guard clauses read through the CFG) and abstain with a note when a shape is not recognised; the bounded layer (source interpreted by an AST interp'
    'reter with model collaborators, compared with an oracle) covers every clause a second time and is the only evidence where stated. STRUCTURAL: every st'
    'ore into Headers._rawHeaders (closed over the class, aliases and helpers followed) puts _sanitizeLinearWhitespace(...) values under _nameEncoder.encod'
    'e(...) names and web/http.py never touches the store (provenance/, headers/); at the sink Request.write -> writeHeaders the reason is sanitised, the c'
    'ode numeric-formatted, the version the validated clientproto and header mutations precede the write (status/, headers/); plain header pairs reach the '
    'wire only through a fresh Headers() filled by addRawHeader (provenance/foreign-iterable-rebuilt); cookie pieces are literals / _sanitize()d / checked '
    'against constants (cookie/); name-encoder cache discipline (header-name/). FINITE-EXHAUSTIVE: _sanitizeLinearWhitespace, toChunk, _istoken over every '
    'byte value / length class (sanitiser/, chunk/, byte-class/); Request.write, finish and checkPersistence under every valuation of their guards - versio'
    'n x Content-Length x method x code x data x started/chunked/finished/disconnected x Connection header: chunked iff HTTP/1.1 and no length and body all'
    'owed, no body and later writes disabled for HEAD/204/304, empty writes emit nothing, terminator iff chunked and once, persistent only when self-delimi'
    'ted (body/, finish/, persistence/). BOUNDED ONLY: the emitted bytes parse as exactly one response with exactly the headers set (response/, injection/)'
    ' - the status-line / header-line layout and the cleared-Content-Length case are decided by parse-back only. Not decided: application-supplied Content-'
    'Length matching the body.'
)
ASSUMPTIONS = [
    'CPython semantics for the builtin values the interpreter delegates to',
    "networkString(s) == s.encode('ascii')",
    'Request.code is an int',
]


def _is_san(x):
    return isinstance(x, ast.Call) and call_name(x) == SAN


def _sanitisers(ctx, I):
    f = ctx.func(HDRS, SAN)
    q = "twisted.web.http_headers." + SAN
    dom = [b"a" + bytes([v]) + b"b" for v in range(256)] + [bytes([v]) for v in range(256)] + [
        b"a\r\nb", b"a\n\rb", b"a\r\n\r\nb: c", b"\r\nX: y", b"X\r\n", b"a\r\n b", b"", b"abc", b"a\x0bb\x0cc\x1cd\x85e"]
    bad = None
    for x in dom:
        kind, out = I.outcome(f, [x])
        ok = kind == "ok" and isinstance(out, bytes) and b"\r" not in out and b"\n" not in out and \
            out.replace(b" ", b"") == x.replace(b"\r", b"").replace(b"\n", b"").replace(b" ", b"")
        if ok and not (set(x) & {10, 13}):
            ok = out == x
        if ok and x in (b"a\rb", b"a\nb", b"a\r\nb"):
            ok = out == b"a b"
        if not ok and bad is None:
            bad = (x, kind, out)
    ctx.check(bad is None, "sanitiser/no-line-breaks", q,
              f"_sanitizeLinearWhitespace({bad[0]!r}) gives {bad[1]} {bad[2]!r}: CR/LF must be replaced by a single space and every other byte kept" if bad else "",
              detail=f"{len(dom)} values: no CR/LF in the output, other bytes preserved, one line break -> one space")
    ft = ctx.func(HTTP, "toChunk")
    bad = None
    for d in [b"a", b"ab" * 5, b"x" * 15, b"x" * 16, b"x" * 17, b"x" * 255, b"x" * 256, b"x" * 4096, b"\r\n", b"0\r\n\r\n", bytes(range(256))]:
        kind, out = I.outcome(ft, [d])
        ok = kind == "ok"
        if ok:
            try:
                wire = b"".join(out)
                size, rest = wire.split(b"\r\n", 1)
                ok = all(c in b"0123456789abcdefABCDEF" for c in size) and size != b"" and int(size, 16) == len(d) and rest == d + b"\r\n"
            except Exception:
                ok = False
        if not ok and bad is None:
            bad = (d[:20], kind, out if kind != "ok" else tuple(x[:20] for x in out))
    ctx.check(bad is None, "chunk/encoding", Q + "toChunk",
              f"toChunk({bad[0]!r}...) gives {bad[1]} {bad[2]!r}: must be HEXDIG-length CRLF data CRLF" if bad else "",
              detail="chunk = 1*HEXDIG(len) CRLF data CRLF for lengths 1..4096")


# ---- behaviour of Request / HTTPChannel / Headers on the wire, by interpretation ------------------------------------------------

def _flat(v: bytes) -> bytes:
    """What a header component must look like on the wire: every run-free line break replaced by one space (oracle, independent
    of the implementation: computed byte by byte)."""
    out = bytearray()
    i = 0
    while i < len(v):
        c = v[i]
        if c == 13 and i + 1 < len(v) and v[i + 1] == 10:
            out.append(32)
            i += 2
            continue
        out.append(32 if c in (10, 13) else c)
        i += 1
    return bytes(out)


def _same_modulo_spaces(got: bytes, given: bytes) -> bool:
    return b"\r" not in got and b"\n" not in got and got.replace(b" ", b"") == given.replace(b"\r", b"").replace(b"\n", b"").replace(b" ", b"")


def _request_bytes(method, version, conn):
    return method + b" /r " + version + b"\r\nHost: x\r\n" + (b"Connection: " + conn + b"\r\n" if conn else b"") + b"\r\n"


def _respond(H, method=b"GET", version=b"HTTP/1.1", conn=None, actions=()):
    """Scenario: one request; the application performs ``actions`` = [(method name, args)] on the Request, errors recorded."""
    def scen(H):
        errors = []

        def process(mm, req):
            for name, args in actions:
                target = req
                if name.startswith("attr:"):
                    H.m.set_attr(req, name[5:], args[0])
                    continue
                if name.startswith("responseHeaders."):
                    target, name2 = req.attrs["responseHeaders"], name.split(".", 1)[1]
                else:
                    name2 = name
                try:
                    H.call(target, name2, *args)
                except PyRaise as e:
                    errors.append((name, exc_name(e.exc)))
        ch = H.channel(process=process)
        H.feed(ch, _request_bytes(method, version, conn))
        return H.wire(), H.transport.attrs["disconnecting"], errors, len(H.seen)
    return H.run(scen)


def _response_grid(ctx, H):
    q = QR + "write/finish"
    tier = ctx.tier
    writes_set = [[], [b"ab"], [b"ab", b"", b"cd"], [b""], [b"0\r\n\r\n", b"x"]]
    combos = []
    for version in (b"HTTP/1.1", b"HTTP/1.0"):
        for method in (b"GET", b"HEAD", b"POST"):
            for code in (200, 204, 304, 404):
                for cl in (False, True, "cleared", "removed"):
                    for conn in (None, b"close", b"keep-alive"):
                        for wi, writes in enumerate(writes_set):
                            combos.append((version, method, code, cl, conn, wi))
    if tier == "quick":
        combos = [c for i, c in enumerate(combos) if i % 23 == 0 or (c[1] == b"GET" and c[2] == 200 and c[5] == 2 and c[4] != b"keep-alive")]
    groups = {}
    for c in combos:
        groups.setdefault((c[0], c[1]), []).append(c)
    for (version, method), cs in groups.items():
        bad = None
        for version, method, code, cl, conn, wi in cs:
            writes = writes_set[wi]
            body = b"".join(writes)
            clact = {False: [], True: [("setHeader", (b"content-length", b"%d" % len(body)))],
                     "cleared": [("setHeader", (b"content-length", b"99")), ("responseHeaders.setRawHeaders", (b"Content-Length", []))],
                     "removed": [("setHeader", (b"content-length", b"99")), ("responseHeaders.removeHeader", (b"Content-Length",))]}[cl]
            actions = [("setResponseCode", (code,))] + clact + [("setHeader", (b"x-app", b"1"))] + \
                [("write", (w,)) for w in writes] + [("finish", ())]
            o = _respond(H, method, version, conn, actions)
            label = f"{version.decode()} {method.decode()} {code} Content-Length={ {False: 'unset', True: 'set'}.get(cl, cl) } Connection={conn} writes={writes!r}"
            if o.kind != "ok":
                bad = (label, f"{o.kind} {o.exc_name}")
                break
            wire, closed, errors, handed = o.value
            nobody = method == b"HEAD" or code in (204, 304)
            try:
                rs = parse_responses(wire, [method], closed)
            except WireError as e:
                bad = (label, f"the emitted bytes {wire[:120]!r} (connection {'closed' if closed else 'kept open'}) are not one well-delimited response: {e}")
                break
            problems = []
            if errors or handed != 1 or len(rs) != 1:
                problems.append(f"errors {errors}, {len(rs)} responses")
            else:
                r = rs[0]
                if r["code"] != code or r["version"] != version:
                    problems.append(f"status line {r['version']!r} {r['code']}")
                if r["body"] != (b"" if nobody else body):
                    problems.append(f"body {r['body']!r}, expected {(b'' if nobody else body)!r}")
                names = sorted(n.lower() for n, v in r["headers"])
                allowed = {b"x-app", b"transfer-encoding", b"connection"} | ({b"content-length"} if cl is True else set())
                if b"x-app" not in names or any(n not in allowed for n in names) or len(names) != len(set(names)):
                    problems.append(f"headers {r['headers']!r}")
                should_close = version == b"HTTP/1.0" or conn == b"close"
                if version == b"HTTP/1.1" and closed != should_close:
                    problems.append(f"connection closed={closed}")
            if problems:
                bad = (label, "; ".join(problems) + f" - wire {wire[:160]!r}")
                break
        ctx.check(bad is None, "response/one-well-framed-response", f"{q} | {version.decode()} {method.decode()}",
                  f"{bad[0]}: {bad[1]}" if bad else "",
                  detail=f"{len(cs)} combinations of code, Content-Length, Connection header and write sequences parse (independent strict reader) as exactly one response with that "
                         "status, the headers set, the concatenated body (none for HEAD/204/304), self-delimited unless the connection closes")


def _injection(ctx, H):
    q = QR
    hostile = [b"v\r\nX-Injected: yes", b"v\nX-Injected: yes", b"v\rX-Injected: yes", b"a\r\n\r\nHTTP/1.1 200 OK\r\n\r\n", b"tab\tand space ", b"caf\xc3\xa9 \xff", b"", b"a\r\n b",
               "text\r\nX-Injected: yes", "café\n", b"v\x0bw\x0cx"]
    # header values (setHeader, responseHeaders.addRawHeader / setRawHeaders, the compatibility path of writeHeaders)
    for api in ("setHeader", "responseHeaders.addRawHeader", "responseHeaders.setRawHeaders"):
        bad = None
        for v in hostile:
            args = (b"X-Test", [v]) if api.endswith("setRawHeaders") else (b"X-Test", v)
            o = _respond(H, actions=[(api, args), ("write", (b"body",)), ("finish", ())])
            given = v.encode("utf8") if isinstance(v, str) else v
            try:
                if o.kind != "ok":
                    raise WireError(f"{o.kind} {o.exc_name}")
                wire, closed, errors, handed = o.value
                r = parse_responses(wire, [b"GET"], closed)[0]
                got = [val for n, val in r["headers"] if n.lower() == b"x-test"]
                names = sorted(n.lower() for n, val in r["headers"])
                if errors or names != [b"transfer-encoding", b"x-test"] or len(got) != 1 or not _same_modulo_spaces(got[0], given.strip(b" \t")) and got[0] != _flat(given).strip(b" \t") or r["body"] != b"body":
                    raise WireError(f"errors {errors}, headers {r['headers']!r}, body {r['body']!r}")
            except WireError as e:
                bad = (v, str(e), o.value[0][:160] if o.kind == "ok" else b"")
                break
        ctx.check(bad is None, "injection/header-value", f"{q}{api}",
                  f"value {bad[0]!r}: {bad[1]} - wire {bad[2]!r}; expected exactly the headers set with line breaks replaced by spaces" if bad else "",
                  detail=f"{len(hostile)} hostile values (CR, LF, CRLF, response splitting, text, non-ASCII)")
    # reason phrase
    bad = None
    for v in [x for x in hostile if isinstance(x, bytes)]:
        o = _respond(H, actions=[("setResponseCode", (200, v)), ("write", (b"body",)), ("finish", ())])
        try:
            if o.kind != "ok":
                raise WireError(f"{o.kind} {o.exc_name}")
            wire, closed, errors, handed = o.value
            r = parse_responses(wire, [b"GET"], closed)[0]
            if errors or not _same_modulo_spaces(r["reason"], v) or sorted(n.lower() for n, val in r["headers"]) != [b"transfer-encoding"] or r["body"] != b"body":
                raise WireError(f"errors {errors}, reason {r['reason']!r}, headers {r['headers']!r}")
        except WireError as e:
            bad = (v, str(e), o.value[0][:160] if o.kind == "ok" else b"")
            break
    ctx.check(bad is None, "injection/reason-phrase", q + "setResponseCode",
              f"setResponseCode(200, {bad[0]!r}): {bad[1]} - wire {bad[2]!r}" if bad else "", detail="hostile reason phrases stay on the status line")
    # header names
    bad = None
    for nm in (b"Bad Name", b"X-Foo\r\nX-Injected", b"X-Foo\n", b"X:Y", b"", b"X-Foo ", "X-Foo\n", "café", b"X\x00"):
        for api in ("setHeader", "responseHeaders.addRawHeader"):
            o = _respond(H, actions=[(api, (nm, b"v")), (api, (nm, b"v")), ("write", (b"body",)), ("finish", ())])
            try:
                if o.kind != "ok":
                    raise WireError(f"{o.kind} {o.exc_name}")
                wire, closed, errors, handed = o.value
                r = parse_responses(wire, [b"GET"], closed)[0]
                if [e[1] for e in errors] != ["InvalidHeaderName"] * 2 or sorted(n.lower() for n, val in r["headers"]) != [b"transfer-encoding"]:
                    raise WireError(f"errors {errors}, headers {r['headers']!r}")
            except WireError as e:
                bad = (api, nm, str(e))
                break
        if bad:
            break
    ctx.check(bad is None, "injection/header-name-refused", q + "setHeader",
              f"{bad[0]}({bad[1]!r}, ...) twice: {bad[2]}; an invalid header name must be refused (InvalidHeaderName) every time and never reach the wire" if bad else "")
    # valid names come out canonical, values kept
    o = _respond(H, actions=[("setHeader", (b"x-custom-header", b"1")), ("attr:etag", (b'W/"x"',)), ("addCookie", (b"a", b"b")), ("write", (b"b",)), ("finish", ())])
    ok = o.kind == "ok"
    if ok:
        try:
            r = parse_responses(o.value[0], [b"GET"], o.value[1])[0]
            ok = sorted(r["headers"]) == sorted([(b"X-Custom-Header", b"1"), (b"ETag", b'W/"x"'), (b"Set-Cookie", b"a=b"), (b"Transfer-Encoding", b"chunked")])
        except WireError:
            ok = False
    ctx.check(ok, "response/headers-as-set", q + "setHeader", f"headers set with valid names, the etag attribute and a cookie are not each emitted exactly once in canonical form: {o.value[0][:200] if o.kind == 'ok' else o.exc_name!r}")
    # compatibility path: writeHeaders given plain pairs
    def scen(H):
        ch = H.channel()
        H.call(ch, "writeHeaders", b"HTTP/1.1", b"200", b"OK", [(b"x-a", b"v\r\nX-Injected: yes"), (b"X-B", b"2"), (b"x-a", b"second")])
        H.call(ch, "write", b"")
        return H.wire()
    o = H.run(scen)
    ok = o.kind == "ok"
    if ok:
        try:
            r = parse_responses(o.value + b"", [b"HEAD"], False)[0]
            ok = sorted(r["headers"]) == sorted([(b"X-A", b"v X-Injected: yes"), (b"X-A", b"second"), (b"X-B", b"2")]) and (r["version"], r["code"], r["reason"]) == (b"HTTP/1.1", 200, b"OK")
        except WireError:
            ok = False
    ctx.check(ok, "injection/foreign-header-pairs", Q + "HTTPChannel.writeHeaders",
              f"writeHeaders with a plain iterable of pairs emits {o.value[:200] if o.kind == 'ok' else o.exc_name!r}; expected the same pairs with canonical names and line breaks replaced")


COOKIE_ATTRS = (b"Expires=", b"Domain=", b"Path=", b"Max-Age=", b"Comment=", b"Secure", b"HttpOnly", b"SameSite=")


def _cookies(ctx, H):
    q = QR + "addCookie"
    evil = [b"v\r\nSet-Cookie: evil=1", b"a;b", b"a; Secure", b"x\ny", "téxt;\r\n", b"plain"]
    bad = None
    slots = ["k", "v", "expires", "domain", "path", "max_age", "comment"]
    for slot in slots:
        for e in evil:
            kw = {"k": b"name", "v": b"value", "expires": b"Wed, 01 Jan 2030 00:00:00 GMT", "domain": b"example.org", "path": b"/p", "max_age": b"10", "comment": b"c"}
            kw[slot] = e

            def scen(H, kw=kw):
                out = {}

                def process(mm, req):
                    k = dict(kw)
                    args = [k.pop("k"), k.pop("v")]
                    H.m.call(H.m.get_attr(req, "addCookie"), args, dict(k, secure=True, httpOnly=True, sameSite="Lax"))
                    H.call(req, "write", b"b")
                    H.call(req, "finish")
                ch = H.channel(process=process)
                H.feed(ch, _request_bytes(b"GET", b"HTTP/1.1", None))
                return H.wire(), H.transport.attrs["disconnecting"]
            o = H.run(scen)
            try:
                if o.kind != "ok":
                    raise WireError(f"{o.kind} {o.exc_name}")
                r = parse_responses(o.value[0], [b"GET"], o.value[1])[0]
                cs = [v for n, v in r["headers"] if n.lower() == b"set-cookie"]
                if len(cs) != 1 or sorted(n.lower() for n, v in r["headers"]) != [b"set-cookie", b"transfer-encoding"]:
                    raise WireError(f"headers {r['headers']!r}")
                parts = [p.strip(b" ") for p in cs[0].split(b";")]
                if len(parts) != 9 or parts[0].count(b"=") < 1 or any(not p.startswith(a) for p, a in zip(parts[1:], COOKIE_ATTRS)) or parts[-1].lower() != b"samesite=lax":
                    raise WireError(f"cookie {cs[0]!r} does not consist of name=value and exactly the eight attributes given")
            except WireError as ex:
                bad = (slot, e, str(ex))
                break
        if bad:
            break
    ctx.check(bad is None, "injection/cookie", q,
              f"addCookie with {bad[0]}={bad[1]!r}: {bad[2]}; CR, LF and ';' in any cookie piece must not create headers or attributes" if bad else "",
              detail=f"{len(slots)} cookie fields x {len(evil)} hostile values")
    def scen(H):
        err = []

        def process(mm, req):
            try:
                H.m.call(H.m.get_attr(req, "addCookie"), [b"k", b"v"], {"sameSite": b"None; Secure\r\nX: y"})
            except PyRaise as e:
                err.append(exc_name(e.exc))
        ch = H.channel(process=process)
        H.feed(ch, _request_bytes(b"GET", b"HTTP/1.1", None))
        return err
    o = H.run(scen)
    ctx.check(o.kind == "ok" and o.value == ["ValueError"], "injection/cookie-samesite", q, f"an unsupported sameSite value gives {o.value if o.kind == 'ok' else o.exc_name!r}; expected ValueError")


def _once(ctx, H):
    q = QR + "finish"
    o = _respond(H, actions=[("write", (b"ab",)), ("finish", ()), ("finish", ()), ("write", (b"late",))])
    ok = o.kind == "ok"
    detail = ""
    if ok:
        wire, closed, errors, handed = o.value
        try:
            r = parse_responses(wire, [b"GET"], closed)
            ok = len(r) == 1 and r[0]["body"] == b"ab" and errors == [("write", "RuntimeError")]
            detail = f"errors {errors}"
        except WireError as e:
            ok, detail = False, str(e)
    ctx.check(ok, "response/finished-once", q, f"finish() twice and a late write: {detail}, wire {o.value[0][:160] if o.kind == 'ok' else o.exc_name!r}; expected one complete response and RuntimeError for the late write")
    o = _respond(H, method=b"HEAD", actions=[("write", (b"ab",)), ("write", (b"cd",)), ("finish", ())])
    ok = o.kind == "ok" and o.value[0].endswith(b"\r\n\r\n") and b"ab" not in o.value[0] and b"cd" not in o.value[0]
    ctx.check(ok, "response/no-body-for-head", QR + "write", f"HEAD with two writes emits {o.value[0][:200] if o.kind == 'ok' else o.exc_name!r}; no body bytes may follow the header block, also for later writes")


RULE_KINDS = {
    "sanitiser/": "finite-exhaustive", "chunk/": "finite-exhaustive", "byte-class/": "finite-exhaustive",   # pure functions over every byte value / length class
    "body/": "finite-exhaustive", "finish/": "finite-exhaustive", "persistence/": "finite-exhaustive",    # every valuation of the guards of Request.write / finish / checkPersistence (inlined)
    "status/": "structural", "headers/": "structural", "cookie/": "structural", "provenance/": "structural",   # provenance at the sinks, who-may-write
    "header-name/cache": "structural", "header-name/validated": "structural", "header-name/invalid-raises": "structural",
    "header-name/invalid-refused-every-time": "bounded", "header-name/canonical-form": "bounded",
    "response/": "bounded", "injection/": "bounded",
}


def check(ctx):
    I = http_interp(ctx)
    with ctx.section("sanitisers"):
        _sanitisers(ctx, I)
    with ctx.section("token validator"):
        check_token_validator(ctx, I)
    structural(ctx, "C20 header store provenance", lambda s: c20_headers_store(s), "injection/header-value (bounded)")
    structural(ctx, "C20 header-name encoder cache discipline", lambda s: check_name_encoder(s, I), "injection/header-name-refused (bounded)")
    structural(ctx, "C20 status line provenance at the sink", lambda s: c20_status_provenance(s), "injection/reason-phrase (bounded)")
    structural(ctx, "C20 foreign header pairs rebuilt", lambda s: c20_foreign_headers(s), "injection/foreign-header-pairs (bounded)")
    structural(ctx, "C20 cookie pieces provenance", lambda s: c20_cookies(s), "injection/cookie (bounded)")
    structural(ctx, "C20 Request.write over all guard valuations", lambda s: c20_write_valuations(s, I), "response/one-well-framed-response (bounded)")
    structural(ctx, "C20 Request.finish over all guard valuations", lambda s: c20_finish_valuations(s, I), "response/one-well-framed-response, response/finished-once (bounded)")
    structural(ctx, "C20 persistence vs framing over all guard valuations", lambda s: c20_persistence_framing(s, I), "response/one-well-framed-response (bounded)")
    H = Harness(ctx)
    with ctx.section("header name encoder"):
        check_name_encoder_behaviour(ctx, H)
    with ctx.section("responses"):
        _response_grid(ctx, H)
    with ctx.section("injection"):
        _injection(ctx, H)
    with ctx.section("cookies"):
        _cookies(ctx, H)
    with ctx.section("finish once / HEAD"):
        _once(ctx, H)


MUTANTS = [
    Mutant("nested-generator-forgets-the-empty-line", HTTP, '        headerSequence = [version, b" ", code, b" ", reason, b"\\r\\n"]\n        for name, values in headers.getAllRawHeaders():\n            for value in values:\n                headerSequence.extend((name, b": ", value, b"\\r\\n"))\n        headerSequence.append(b"\\r\\n")\n        self.transport.writeSequence(headerSequence)',
           '        def pieces():\n            yield from (version, b" ", code, b" ", reason, b"\\r\\n")\n            for name, values in headers.getAllRawHeaders():\n                for value in values:\n                    yield from (name, b": ", value, b"\\r\\n")\n\n        self.transport.writeSequence(list(pieces()))'),
    Mutant('token-regex-dollar-accepts-trailing-newline', ABNF, '    for c in b:\n        if c not in (\n            b"ABCDEFGHIJKLMNOPQRSTUVWXYZabcdefghijklmnopqrstuvwxyz"  # ALPHA\n            b"0123456789"  # DIGIT\n            b"!#$%&\'*+-.^_`|~"\n        ):\n            return False\n    return b != b""\n', '    return _TOKEN_RE.match(b) is not None\n', more=[(ABNF, '"""\n\n\ndef _istoken', '"""\n\nimport re\n\n_TOKEN_RE = re.compile(rb"[A-Za-z0-9!#$%&\'*+\\-.^_`|~]+$")\n\n\ndef _istoken')]),
    Mutant('name-cached-by-helper-before-validation', HDRS, '        if not _istoken(bytes_name):\n            raise InvalidHeaderName(bytes_name)\n\n        result = b"-".join([word.capitalize() for word in bytes_name.split(b"-")])\n', '        result = self._remember(name, bytes_name)\n        if not _istoken(result):\n            raise InvalidHeaderName(bytes_name)\n        return result\n\n    def _remember(self, name, bytes_name):\n        result = b"-".join([word.capitalize() for word in bytes_name.split(b"-")])\n'),
    Mutant("http10-keep-alive-made-persistent", HTTP, "                return True\n        else:\n            return False\n\n    def requestDone", "                return True\n        else:\n            return b\"keep-alive\" in tokens\n\n    def requestDone"),
    Mutant("every-version-persistent", HTTP, "        if version == b\"HTTP/1.1\":\n            if b\"close\" in tokens:", "        if version.startswith(b\"HTTP/1.\"):\n            if b\"close\" in tokens:"),
    Mutant("F20-revert-reason-unsanitised", HTTP, "            reason = _sanitizeLinearWhitespace(self.code_message)", "            reason = self.code_message"),
    Mutant("addRawHeader-skips-sanitiser", HDRS, "        self._rawHeaders.setdefault(_nameEncoder.encode(name), []).append(\n            _sanitizeLinearWhitespace(\n                value.encode(\"utf8\") if isinstance(value, str) else value\n            )\n        )",
           "        self._rawHeaders.setdefault(_nameEncoder.encode(name), []).append(\n            value.encode(\"utf8\") if isinstance(value, str) else value\n        )"),
    Mutant("setRawHeaders-skips-sanitiser", HDRS, "            encodedValues.append(_sanitizeLinearWhitespace(_v))", "            encodedValues.append(_v)"),
    Mutant("setRawHeaders-raw-name", HDRS, "        self._rawHeaders[_name] = encodedValues", "        self._rawHeaders[name] = encodedValues"),
    Mutant("sanitiser-leaves-CR", HDRS, "    return b\" \".join(headerComponent.splitlines())", "    return b\" \".join(headerComponent.split(b\"\\n\"))"),
    Mutant("sanitiser-joins-without-space", HDRS, "    return b\" \".join(headerComponent.splitlines())", "    return b\"\".join(headerComponent.splitlines())"),
    Mutant("name-not-token-checked", HDRS, "        if not _istoken(bytes_name):\n            raise InvalidHeaderName(bytes_name)\n", ""),
    Mutant("cookie-semicolon-kept", HTTP, "            return _sanitizeLinearWhitespace(val).replace(b\";\", b\" \")", "            return _sanitizeLinearWhitespace(val)"),
    Mutant("cookie-path-unsanitised", HTTP, "cookie + b\"; Path=\" + _sanitize(_ensureBytes(path))", "cookie + b\"; Path=\" + _ensureBytes(path)"),
    Mutant("cookie-samesite-unchecked", HTTP, "            if sameSite not in [b\"lax\", b\"strict\"]:\n                raise ValueError(\"Invalid value for sameSite: \" + repr(sameSite))\n", ""),
    Mutant("empty-write-chunk-encoded", HTTP, "        if data:\n            if self.chunked:", "        if True:\n            if self.chunked:"),
    Mutant("body-for-204-304", HTTP, "            # for certain result codes, we should never return any data\n            if self.code in NO_BODY_CODES:\n                self.write = lambda data: None\n                return\n", ""),
    Mutant("head-later-writes-enabled", HTTP, "            if self.method == b\"HEAD\":\n                self.write = lambda data: None\n                return", "            if self.method == b\"HEAD\":\n                return"),
    Mutant("chunked-with-content-length", HTTP, "                and (self.responseHeaders.getRawHeaders(b\"Content-Length\") is None)\n", ""),
    Mutant("chunked-for-head", HTTP, "                and self.method != b\"HEAD\"\n                and self.code not in NO_BODY_CODES", "                and self.code not in NO_BODY_CODES"),
    Mutant("no-body-codes-lose-304", HTTP, "NO_BODY_CODES = (204, 304)", "NO_BODY_CODES = (204,)"),
    Mutant("chunk-size-decimal", HTTP, "networkString(f\"{len(data):x}\")", "networkString(f\"{len(data):d}\")"),
    Mutant("plain-and-chunked-swapped", HTTP, "            if self.chunked:\n                self.channel.writeSequence(toChunk(data))\n            else:\n                self.channel.write(data)",
           "            if not self.chunked:\n                self.channel.writeSequence(toChunk(data))\n            else:\n                self.channel.write(data)"),
    Mutant("terminator-unconditional", HTTP, "        if self.chunked:\n            # write last chunk and closing CRLF\n            self.channel.write(b\"0\\r\\n\\r\\n\")", "        if True:\n            self.channel.write(b\"0\\r\\n\\r\\n\")"),
    Mutant("terminator-short", HTTP, "            self.channel.write(b\"0\\r\\n\\r\\n\")", "            self.channel.write(b\"0\\r\\n\")"),
    Mutant("finish-does-not-force-headers", HTTP, "        if not self.startedWriting:\n            # write headers\n            self.write(b\"\")\n\n        if self.chunked:", "        if self.chunked:"),
    Mutant("header-block-unterminated", HTTP, "        headerSequence.append(b\"\\r\\n\")\n        self.transport.writeSequence(headerSequence)", "        self.transport.writeSequence(headerSequence)"),
    Mutant("foreign-headers-not-rebuilt", HTTP, "                sanitizedHeaders.addRawHeader(name, value)\n            headers = sanitizedHeaders\n", "                sanitizedHeaders.addRawHeader(name, value)\n            headers = Headers(dict(headers))\n"),
    Mutant("status-line-no-space", HTTP, "headerSequence = [version, b\" \", code, b\" \", reason, b\"\\r\\n\"]", "headerSequence = [version, b\" \", code, reason, b\"\\r\\n\"]"),
    Mutant("etag-set-after-headers-written", HTTP, "            if self.etag is not None:\n                self.responseHeaders.setRawHeaders(b\"ETag\", [self.etag])\n\n", "",
           more=[(HTTP, "            self.channel.writeHeaders(version, code, reason, self.responseHeaders)\n", "            self.channel.writeHeaders(version, code, reason, self.responseHeaders)\n            if self.etag is not None:\n                self.responseHeaders.setRawHeaders(b\"ETag\", [self.etag])\n")]),
]
SILENT = [
    Silent("header-block-from-nested-generator", HTTP, '        headerSequence = [version, b" ", code, b" ", reason, b"\\r\\n"]\n        for name, values in headers.getAllRawHeaders():\n            for value in values:\n                headerSequence.extend((name, b": ", value, b"\\r\\n"))\n        headerSequence.append(b"\\r\\n")\n        self.transport.writeSequence(headerSequence)',
           '        def pieces():\n            yield from (version, b" ", code, b" ", reason, b"\\r\\n")\n            for name, values in headers.getAllRawHeaders():\n                for value in values:\n                    yield from (name, b": ", value, b"\\r\\n")\n            yield b"\\r\\n"\n\n        self.transport.writeSequence(list(pieces()))'),
    Silent("response-head-in-helper", HTTP, "            self.channel.writeHeaders(version, code, reason, self.responseHeaders)\n", "            self._emitHead(version, code, reason)\n",
           more=[(HTTP, "    def addCookie(\n", "    def _emitHead(self, version, code, reason):\n        self.channel.writeHeaders(version, code, reason, self.responseHeaders)\n\n    def addCookie(\n")]),
    Silent("header-value-helper", HDRS, "            encodedValues.append(_sanitizeLinearWhitespace(_v))", "            encodedValues.append(_clean(_v))",
           more=[(HDRS, "@comparable\nclass Headers:", "def _clean(value: bytes) -> bytes:\n    return _sanitizeLinearWhitespace(value)\n\n\n@comparable\nclass Headers:")]),
    Silent("header-lines-by-comprehension", HTTP, "        for name, values in headers.getAllRawHeaders():\n            for value in values:\n                headerSequence.extend((name, b\": \", value, b\"\\r\\n\"))\n        headerSequence.append(b\"\\r\\n\")\n        self.transport.writeSequence(headerSequence)",
           "        lines = [piece for name, values in headers.getAllRawHeaders() for value in values for piece in (name, b\": \", value, b\"\\r\\n\")]\n        self.transport.writeSequence(headerSequence + lines + [b\"\\r\\n\"])"),
    Silent("cookie-parts-joined", HTTP, "        if secure:\n            cookie = cookie + b\"; Secure\"\n        if httpOnly:\n            cookie = cookie + b\"; HttpOnly\"",
           "        for flag, on in ((b\"; Secure\", secure), (b\"; HttpOnly\", httpOnly)):\n            if on:\n                cookie = b\"\".join([cookie, flag])"),
    Silent('token-regex-Z-anchored', ABNF, '    for c in b:\n        if c not in (\n            b"ABCDEFGHIJKLMNOPQRSTUVWXYZabcdefghijklmnopqrstuvwxyz"  # ALPHA\n            b"0123456789"  # DIGIT\n            b"!#$%&\'*+-.^_`|~"\n        ):\n            return False\n    return b != b""\n', '    return _TOKEN_RE.match(b) is not None\n', more=[(ABNF, '"""\n\n\ndef _istoken', '"""\n\nimport re\n\n_TOKEN_RE = re.compile(rb"[A-Za-z0-9!#$%&\'*+\\-.^_`|~]+\\Z")\n\n\ndef _istoken')]),
    Silent('token-regex-fullmatch', ABNF, '    for c in b:\n        if c not in (\n            b"ABCDEFGHIJKLMNOPQRSTUVWXYZabcdefghijklmnopqrstuvwxyz"  # ALPHA\n            b"0123456789"  # DIGIT\n            b"!#$%&\'*+-.^_`|~"\n        ):\n            return False\n    return b != b""\n', '    return _TOKEN_RE.fullmatch(b) is not None\n', more=[(ABNF, '"""\n\n\ndef _istoken', '"""\n\nimport re\n\n_TOKEN_RE = re.compile(rb"[A-Za-z0-9!#$%&\'*+\\-.^_`|~]+")\n\n\ndef _istoken')]),
    Silent('name-cached-by-helper-after-validation', HDRS, '        if not _istoken(bytes_name):\n            raise InvalidHeaderName(bytes_name)\n\n        result = b"-".join([word.capitalize() for word in bytes_name.split(b"-")])\n', '        if not _istoken(bytes_name):\n            raise InvalidHeaderName(bytes_name)\n        return self._remember(name, bytes_name)\n\n    def _remember(self, name, bytes_name):\n        result = b"-".join([word.capitalize() for word in bytes_name.split(b"-")])\n'),
    Silent("persistence-early-return", HTTP, "        if version == b\"HTTP/1.1\":\n            if b\"close\" in tokens:\n                request.responseHeaders.setRawHeaders(b\"Connection\", [b\"close\"])\n                return False\n            else:\n                return True\n        else:\n            return False\n",
           "        if version != b\"HTTP/1.1\":\n            return False\n        if b\"close\" not in tokens:\n            return True\n        request.responseHeaders.setRawHeaders(b\"Connection\", [b\"close\"])\n        return False\n"),
    Silent("reason-sanitised-inline", HTTP, "            reason = _sanitizeLinearWhitespace(self.code_message)\n", "",
           more=[(HTTP, "self.channel.writeHeaders(version, code, reason, self.responseHeaders)", "self.channel.writeHeaders(\n                version, code, _sanitizeLinearWhitespace(self.code_message), self.responseHeaders\n            )")]),
    Silent("rename-reason-local", HTTP, "            reason = _sanitizeLinearWhitespace(self.code_message)\n", "            phrase = _sanitizeLinearWhitespace(self.code_message)\n",
           more=[(HTTP, "self.channel.writeHeaders(version, code, reason, self.responseHeaders)", "self.channel.writeHeaders(version, code, phrase, self.responseHeaders)")]),
    Silent("chunk-size-percent-format", HTTP, "networkString(f\"{len(data):x}\")", "networkString(\"%x\" % (len(data),))"),
    Silent("chunk-size-uppercase-hex", HTTP, "networkString(f\"{len(data):x}\")", "networkString(f\"{len(data):X}\")"),
    Silent("empty-write-early-return", HTTP, "        if data:\n            if self.chunked:\n                self.channel.writeSequence(toChunk(data))\n            else:\n                self.channel.write(data)",
           "        if not data:\n            return\n        if self.chunked:\n            self.channel.writeSequence(toChunk(data))\n        else:\n            self.channel.write(data)"),
    Silent("head-and-no-body-merged", HTTP, "            if self.method == b\"HEAD\":\n                self.write = lambda data: None\n                return\n\n            # for certain result codes, we should never return any data\n            if self.code in NO_BODY_CODES:\n                self.write = lambda data: None\n                return",
           "            if self.method == b\"HEAD\" or self.code in NO_BODY_CODES:\n                self.write = lambda data: None\n                return"),
    Silent("no-body-codes-as-frozenset", HTTP, "NO_BODY_CODES = (204, 304)", "NO_BODY_CODES = frozenset((304, 204))"),
    Silent("addRawHeader-with-locals", HDRS, "        self._rawHeaders.setdefault(_nameEncoder.encode(name), []).append(\n            _sanitizeLinearWhitespace(\n                value.encode(\"utf8\") if isinstance(value, str) else value\n            )\n        )",
           "        _name = _nameEncoder.encode(name)\n        raw = value.encode(\"utf8\") if isinstance(value, str) else value\n        self._rawHeaders.setdefault(_name, []).append(_sanitizeLinearWhitespace(raw))"),
    Silent("setRawHeaders-comprehension", HDRS, "        encodedValues: List[bytes] = []\n        for v in values:\n            if isinstance(v, str):\n                _v = v.encode(\"utf8\")\n            else:\n                _v = v\n            encodedValues.append(_sanitizeLinearWhitespace(_v))\n",
           "        encodedValues = [_sanitizeLinearWhitespace(v.encode(\"utf8\") if isinstance(v, str) else v) for v in values]\n"),
    Silent("sanitiser-replace-form", HDRS, "    return b\" \".join(headerComponent.splitlines())", "    return b\" \".join(headerComponent.replace(b\"\\r\\n\", b\"\\n\").replace(b\"\\r\", b\"\\n\").split(b\"\\n\"))", allow_error=False),
]
