"""C20 - HTTP server responses are framed exactly and headers cannot be injected."""
from __future__ import annotations

import ast
import itertools

from sa.astx import assigned_targets, call_attr, call_name, dotted, src, statements, walk_local
from sa.effects import class_accesses
from sa.selftest import Mutant, Silent
from sa.source import AnalysisError
from sa.props._lib_e import (assigns_self, call_in, calls_named, check_name_encoder, check_token_validator, http_interp, is_const, local_values, make_env,
                             no_exc, ordered, resolve_local, self_attr, walk)

PROPERTY = "C20"
HTTP = "web/http.py"
HDRS = "web/http_headers.py"
ABNF = "web/_abnf.py"
Q = "twisted.web.http."
QR = Q + "Request."
SAN = "_sanitizeLinearWhitespace"

TECHNIQUE = "provenance at the header sink + finite evaluation of sanitisers + CFG walks of write/finish"
EXPLANATION = (
    "Decides (a) provenance at the sink HTTPChannel.writeHeaders <- Request.write: reason phrase sanitised, code numeric-formatted, version "
    "the validated clientproto, headers a Headers object whose _rawHeaders is mutated only by setRawHeaders/addRawHeader/removeHeader with an "
    "encoded name - _istoken itself is evaluated over every byte value and the regex pitfalls (trailing LF/CRLF, NUL, blanks, empty) to accept exactly 1*tchar, every store into the encoder's name cache and every return of encode() must follow a passed _istoken test (helpers followed one level) - and _sanitizeLinearWhitespace applied to every stored value; non-Headers iterables are rebuilt through "
    "addRawHeader; the emitted sequence has the status-line / 'name: value CRLF' / final CRLF layout; cookies are concatenations of literals "
    "and _sanitize()d pieces; (b) by evaluating the source of _sanitizeLinearWhitespace / addCookie._sanitize / toChunk over every byte value "
    "that CR, LF (and ';') are replaced by one space, other bytes kept, and a chunk is hex(len) CRLF data CRLF; (c) by walking Request.write / "
    "finish under all combinations of version, Content-Length, method, code, data that chunked is chosen iff HTTP/1.1 and no Content-Length and "
    "not HEAD and code not in {204,304}, HEAD/204/304 never write a body and disable later writes, empty data is never chunk-encoded, the "
    "terminator 0 CRLF CRLF is written iff chunked after the headers were forced out, once. (d) persistence and framing agree: over version x Connection header x Content-Length x method x code, whenever checkPersistence keeps the connection open "
    "every body-carrying response is Content-Length- or chunked-delimited (close-delimited responses only on connections that close). Not decided: that an independent parser reads "
    "back exactly the headers set; Content-Length supplied by the application matching the body."
)
ASSUMPTIONS = [
    "networkString(s) == s.encode('ascii') for the hexadecimal length text",
    "bytes.splitlines / replace behave as in CPython (used by the finite evaluator)",
    "Request.code is an int (b'%d' formatting refuses anything else)",
]


def _is_san(x):
    return isinstance(x, ast.Call) and call_name(x) == SAN


def _sanitisers(ctx, I):
    f = ctx.func(HDRS, SAN)
    q = "twisted.web.http_headers." + SAN
    dom = [b"a" + bytes([v]) + b"b" for v in range(256)] + [bytes([v]) for v in range(256)] + [
        b"a\r\nb", b"a\n\rb", b"a\r\n\r\nb: c", b"\r\nX: y", b"X\r\n", b"a\r\n b", b"", b"abc", b"a\x0bb\x0cc\x1cd\x85e"]
    bad = None
    for x in dom:
        kind, out = I.outcome(f, [x])
        ok = kind == "ok" and isinstance(out, bytes) and b"\r" not in out and b"\n" not in out and \
            out.replace(b" ", b"") == x.replace(b"\r", b"").replace(b"\n", b"").replace(b" ", b"")
        if ok and not (set(x) & {10, 13}):
            ok = out == x
        if ok and x in (b"a\rb", b"a\nb", b"a\r\nb"):
            ok = out == b"a b"
        if not ok and bad is None:
            bad = (x, kind, out)
    ctx.check(bad is None, "sanitiser/no-line-breaks", q,
              f"_sanitizeLinearWhitespace({bad[0]!r}) gives {bad[1]} {bad[2]!r}: CR/LF must be replaced by a single space and every other byte kept" if bad else "",
              detail=f"{len(dom)} values: no CR/LF in the output, other bytes preserved, one line break -> one space")
    fs = ctx.func(HTTP, "Request.addCookie._sanitize")
    bad = None
    for x in dom + [b"a;b", b"a; Secure", b";", b"a;\r\nb"]:
        kind, out = I.outcome(fs, [x])
        ok = kind == "ok" and isinstance(out, bytes) and not (set(out) & {10, 13, 59}) and \
            out.replace(b" ", b"") == bytes(c for c in x if c not in (10, 13, 59, 32))
        if not ok and bad is None:
            bad = (x, kind, out)
    ctx.check(bad is None, "sanitiser/cookie-piece", QR + "addCookie._sanitize",
              f"_sanitize({bad[0]!r}) gives {bad[1]} {bad[2]!r}: CR, LF and ';' must not survive in a cookie name/value/attribute" if bad else "",
              detail="no CR/LF/';' in the output, other bytes preserved")
    ft = ctx.func(HTTP, "toChunk")
    bad = None
    for d in [b"a", b"ab" * 5, b"x" * 15, b"x" * 16, b"x" * 17, b"x" * 255, b"x" * 256, b"x" * 4096, b"\r\n", b"0\r\n\r\n", bytes(range(256))]:
        kind, out = I.outcome(ft, [d])
        ok = kind == "ok"
        if ok:
            try:
                wire = b"".join(out)
                size, rest = wire.split(b"\r\n", 1)
                ok = all(c in b"0123456789abcdefABCDEF" for c in size) and size != b"" and int(size, 16) == len(d) and rest == d + b"\r\n"
            except Exception:
                ok = False
        if not ok and bad is None:
            bad = (d[:20], kind, out if kind != "ok" else tuple(x[:20] for x in out))
    ctx.check(bad is None, "chunk/encoding", Q + "toChunk",
              f"toChunk({bad[0]!r}...) gives {bad[1]} {bad[2]!r}: must be HEXDIG-length CRLF data CRLF" if bad else "",
              detail="chunk = 1*HEXDIG(len) CRLF data CRLF for lengths 1..4096")


def _headers_store(ctx):
    mod = ctx.mod(HDRS)
    cls = ctx.cls(HDRS, "Headers")
    qh = "twisted.web.http_headers.Headers."
    acc = class_accesses(mod, cls, {"_rawHeaders"}, receivers={"self"})
    allowed = {"Headers.__init__": {"rebind-empty"}, "Headers.removeHeader": {"pop_key"}, "Headers.setRawHeaders": {"setitem"},
               "Headers.addRawHeader": {"setdefault"}}
    n_store = 0
    for a in acc:
        cons = ctx.construct("twisted.web.http_headers." + a.func, a.node)
        if not ctx.check(a.kind in allowed.get(a.func, set()), "headers/who-may-write", cons,
                         f"_rawHeaders is mutated ({a.kind}) outside the sanitising entry points setRawHeaders/addRawHeader"):
            continue
        if a.kind not in ("setitem", "setdefault"):
            continue
        n_store += 1
        f = ctx.func(HDRS, a.func)
        params = [p.arg for p in f.args.args]
        if a.kind == "setitem":
            tgt = next(t for t in a.node.targets if isinstance(t, ast.Subscript))
            key, val = tgt.slice, a.node.value
            pieces = []
            for v in resolve_local(f, val):
                if isinstance(v, ast.ListComp):
                    pieces.append(v.elt)
                elif isinstance(v, ast.List) and not v.elts and isinstance(val, ast.Name):
                    for c in ast.walk(f):
                        if isinstance(c, ast.Call) and call_name(c) in (val.id + ".append",) and c.args:
                            pieces.append(c.args[0])
                        elif isinstance(c, ast.Call) and (call_name(c) or "").startswith(val.id + ".") and call_attr(c) in ("extend", "insert"):
                            pieces.append(c)
                else:
                    pieces.append(v)
        else:
            key = a.node.args[0] if a.node.args else None
            par = getattr(getattr(a.node, "_parent", None), "_parent", None)
            pieces = [par.args[0]] if isinstance(par, ast.Call) and call_attr(par) == "append" and par.args else [a.node]
        kvals = resolve_local(f, key) if key is not None else []
        ok = bool(kvals) and all(isinstance(k, ast.Call) and call_name(k) == "_nameEncoder.encode" and len(k.args) == 1 and
                                 isinstance(k.args[0], ast.Name) and k.args[0].id == params[1] for k in kvals)
        ctx.check(ok, "headers/name-encoded", cons, "a header is stored under a name that did not pass _nameEncoder.encode (token check)")
        ok = bool(pieces) and all(_is_san(p) for p in pieces)
        ctx.check(ok, "headers/value-sanitised", cons,
                  "a header value is stored without _sanitizeLinearWhitespace: CR/LF in the value reach the wire (header injection / response splitting)")
    ctx.floor("headers/value-sanitised", n_store, 2)
    # nobody else reaches into _rawHeaders from the HTTP server module
    hm = ctx.mod(HTTP)
    outside = [n for n in ast.walk(hm.tree) if isinstance(n, ast.Attribute) and n.attr == "_rawHeaders"]
    ctx.check(not outside, "headers/who-may-write", "twisted.web.http | ._rawHeaders", "web/http.py reaches into Headers._rawHeaders directly")


def _write_headers(ctx):
    f = ctx.func(HTTP, "HTTPChannel.writeHeaders")
    g = ctx.cfg(f)
    q = Q + "HTTPChannel.writeHeaders"
    params = [p.arg for p in f.args.args]
    ctx.need(len(params) == 5, "writeHeaders(self, version, code, reason, headers)")
    pv, pc, pr, ph = params[1:]
    sinks = calls_named(g, "self.transport.writeSequence", "self.transport.write")
    ctx.need(sinks, "transport.writeSequence in writeHeaders")
    seqs = [n for n in g.ids(lambda n: n.kind == "stmt" and isinstance(n.ast, ast.Assign) and isinstance(n.ast.value, ast.List)
                             and len(n.ast.targets) == 1 and isinstance(n.ast.targets[0], ast.Name)) if len(g.node(n).ast.value.elts) >= 3]
    ctx.need(seqs, "status line list in writeHeaders")
    st = g.node(seqs[0]).ast
    seq = st.targets[0].id
    elts = st.value.elts
    shape = [e.id if isinstance(e, ast.Name) else (e.value if isinstance(e, ast.Constant) else "?") for e in elts]
    ctx.check(shape == [pv, b" ", pc, b" ", pr, b"\r\n"], "wire/status-line", ctx.construct(q, st),
              f"the status line is not 'version SP code SP reason CRLF' (got {shape!r})")
    for s in sinks:
        c = call_in(g.node(s).ast, "self.transport.writeSequence", "self.transport.write")
        ctx.check(len(c.args) == 1 and seq in src(c.args[0]), "wire/sequence-written", ctx.construct(q, c), "the header sequence built is not what is written")
    outer = [n for n in g.ids(lambda n: n.kind == "for") if "getAllRawHeaders" in src(g.node(n).ast.iter)]
    ctx.check(bool(outer), "wire/header-lines", q, "the response headers are no longer iterated into the header sequence")
    ext = []
    for n in g.ids(lambda n: n.kind == "stmt"):
        c = call_in(g.node(n).ast, seq + ".extend", seq + ".append", seq + ".insert")
        if c is not None:
            ext.append((n, c))
    finals = []
    for n, c in ext:
        a = c.args[-1] if c.args else None
        inloop = any(g.dominates(o, n) and g.path([n], [o], edge_ok=no_exc, strict=True) for o in outer)
        if inloop:
            sh = [e.id if isinstance(e, ast.Name) else (e.value if isinstance(e, ast.Constant) else "?") for e in a.elts] if isinstance(a, (ast.Tuple, ast.List)) else None
            fo = g.node(outer[0]).ast
            nm = fo.target.elts[0].id if isinstance(fo.target, ast.Tuple) and isinstance(fo.target.elts[0], ast.Name) else None
            inner = [x for x in ast.walk(fo) if isinstance(x, ast.For) and x is not fo]
            vn = inner[0].target.id if inner and isinstance(inner[0].target, ast.Name) else None
            ctx.check(sh == [nm, b": ", vn, b"\r\n"] and nm is not None and vn is not None, "wire/header-lines", ctx.construct(q, c),
                      f"a header line is not 'name: value CRLF' built from the iterated name and value (got {sh!r})")
        elif is_const(a, b"\r\n") and call_attr(c) == "append":
            finals.append(n)
        else:
            ctx.violation("wire/header-lines", ctx.construct(q, c), "unexpected element added to the header sequence")
    w = ordered(g, finals, sinks)
    after = bool(finals) and outer and all(g.path([fn], outer, edge_ok=no_exc, strict=True) is None for fn in finals)
    ctx.check(bool(finals) and w is None and after, "wire/header-block-terminated", q,
              "the header block is not terminated by exactly one empty line after the last header", witness=g.describe(w))
    # compatibility input: anything that is not a Headers object is rebuilt through addRawHeader
    tests = [t for t in g.ids(lambda n: n.kind == "test") if src(g.node(t).ast) == f"isinstance({ph}, Headers)"]
    if not tests:
        ctx.ok("headers/foreign-iterable-rebuilt", q, "no non-Headers input path")
    for t in tests:
        fs = [d for d, l in g.succ[t] if l == "F"]
        reb = [n for n in g.ids(lambda n: n.kind == "stmt" and isinstance(n.ast, ast.Assign) and any(isinstance(x, ast.Name) and x.id == ph for x in n.ast.targets))]
        wit = g.must_pass(fs, reb, to=outer or sinks, exc=False, strict=False)
        ok = bool(reb) and wit is None
        for n in reb:
            v = g.node(n).ast.value
            vals = local_values(f, v.id) if isinstance(v, ast.Name) else []
            ok = ok and bool(vals) and all(isinstance(x, ast.Call) and call_name(x) == "Headers" and not x.args and not x.keywords for x in vals)
            fills = [c for c in ast.walk(f) if isinstance(c, ast.Call) and isinstance(v, ast.Name) and (call_name(c) or "").startswith(v.id + ".")]
            ok = ok and bool(fills) and all(call_attr(c) in ("addRawHeader", "setRawHeaders") for c in fills)
        ctx.check(ok, "headers/foreign-iterable-rebuilt", ctx.construct(q, g.node(t).ast),
                  "header pairs given as a plain iterable reach the wire without being rebuilt through Headers.addRawHeader (no name check, no CR/LF removal)",
                  witness=g.describe(wit))


def _status_provenance(ctx):
    f = ctx.func(HTTP, "Request.write")
    g = ctx.cfg(f)
    q = QR + "write"
    wh = calls_named(g, "self.channel.writeHeaders")
    ctx.need(wh, "self.channel.writeHeaders call in Request.write")
    cls = ctx.cls(HTTP, "Request")
    mod = ctx.mod(HTTP)
    for n in wh:
        c = call_in(g.node(n).ast, "self.channel.writeHeaders")
        ctx.need(len(c.args) == 4 and not c.keywords, "writeHeaders(version, code, reason, headers) positional call")
        av, ac, ar, ah = c.args
        # reason
        vals = resolve_local(f, ar)
        at_sink = bool(vals) and all(_is_san(v) for v in vals)
        ok = at_sink
        if not ok and all(self_attr(v, "code_message") for v in vals):
            ws = [a for a in class_accesses(mod, cls, {"code_message"}) if a.kind == "assign"]
            ok = bool(ws) and all(_is_san(a.node.value) or "RESPONSES" in src(a.node.value) and not any(
                isinstance(x, ast.Name) and x.id in [p.arg for p in ctx.func(HTTP, a.func).args.args][2:] for x in ast.walk(a.node.value)) for a in ws)
        ctx.check(ok, "status/reason-sanitised", ctx.construct(q, c),
                  "the reason phrase reaches the status line unsanitised: setResponseCode(200, b'OK\\r\\nX-Injected: yes') injects a header / splits the response")
        # code
        vals = resolve_local(f, ac)
        def numeric(v):
            if isinstance(v, ast.BinOp) and isinstance(v.op, ast.Mod) and isinstance(v.left, ast.Constant) and v.left.value in (b"%d", "%d", b"%i", b"%u"):
                return True
            if isinstance(v, ast.Call) and call_name(v) in ("intToBytes", "networkString", "str", "bytes") and "int(" in src(v):
                return True
            if isinstance(v, ast.Call) and call_name(v) in ("intToBytes",):
                return True
            t = src(v)
            if not isinstance(v, (ast.Name, ast.Attribute)) and ("str(" in t or "int(" in t or "%d" in t or ":d}" in t):
                return True
            return False
        raw = [v for v in vals if isinstance(v, (ast.Name, ast.Attribute))]
        if raw or all(numeric(v) for v in vals):
            ctx.check(not raw, "status/code-numeric", ctx.construct(q, c), "the status code is written as given instead of being formatted as a decimal number")
        else:
            ctx.need(False, f"recognised numeric formatting of the status code ({[src(v) for v in vals]})")
        # version
        vals = resolve_local(f, av)
        ctx.check(all(self_attr(v, "clientproto") for v in vals), "status/version-validated", ctx.construct(q, c),
                  "the response version is not the request's validated clientproto")
        ctx.check(src(ah) == "self.responseHeaders", "status/headers-object", ctx.construct(q, c), "the headers written are not the Request's Headers object")
    # clientproto only from the channel's validated request line
    rr = ctx.func(HTTP, "Request.requestReceived")
    p3 = rr.args.args[3].arg if len(rr.args.args) >= 4 else None
    for a in [a for a in class_accesses(mod, cls, {"clientproto"}) if a.kind == "assign"]:
        v = a.node.value
        ctx.check(a.func == "Request.requestReceived" and isinstance(v, ast.Name) and v.id == p3, "status/version-validated", ctx.construct(Q + a.func, a.node),
                  "clientproto is assigned from something other than the version validated by _parseRequestLine")
    # every header mutation precedes the moment the headers are written
    muts = calls_named(g, "self.responseHeaders.setRawHeaders", "self.responseHeaders.addRawHeader", "self.responseHeaders.removeHeader")
    for m in muts:
        late = g.path(wh, [m], edge_ok=no_exc, strict=True)
        ctx.check(late is None, "headers/complete-before-written", ctx.construct(q, call_in(g.node(m).ast, ".setRawHeaders", ".addRawHeader", ".removeHeader")),
                  "a response header is set after the header block was written (it is silently lost)", witness=g.describe(late))


def _cookies(ctx):
    f = ctx.func(HTTP, "Request.addCookie")
    g = ctx.cfg(f)
    q = QR + "addCookie"
    apps = calls_named(g, "self.cookies.append")
    ctx.need(apps, "self.cookies.append in addCookie")
    cvar = None
    for n in apps:
        a = call_in(g.node(n).ast, "self.cookies.append").args[0]
        cvar = a.id if isinstance(a, ast.Name) else None
        ctx.check(cvar is not None, "cookie/pieces-sanitised", ctx.construct(q, g.node(n).ast), "the stored cookie is not the assembled value")
    count = 0
    for n in g.ids(lambda n: n.kind == "stmt" and isinstance(n.ast, (ast.Assign, ast.AugAssign))):
        st = g.node(n).ast
        tg = assigned_targets(st)
        if not (len(tg) == 1 and isinstance(tg[0], ast.Name) and tg[0].id == cvar):
            continue
        ops = []

        def flat(e):
            if isinstance(e, ast.BinOp) and isinstance(e.op, ast.Add):
                flat(e.left)
                flat(e.right)
            else:
                ops.append(e)
        flat(st.value)
        for e in ops:
            count += 1
            ok = False
            if isinstance(e, ast.Constant) and isinstance(e.value, bytes):
                ok = not (set(e.value) & {10, 13})
            elif isinstance(e, ast.Name) and e.id == cvar:
                ok = True
            elif isinstance(e, ast.Call) and call_name(e) == "_sanitize":
                ok = True
            elif isinstance(e, ast.Name):
                for t, lab in g.edge_guards(n):
                    te = g.node(t).ast
                    if isinstance(te, ast.Compare) and len(te.ops) == 1 and isinstance(te.left, ast.Name) and te.left.id == e.id and \
                            isinstance(te.comparators[0], (ast.List, ast.Tuple, ast.Set)) and \
                            ((isinstance(te.ops[0], ast.NotIn) and lab == "F") or (isinstance(te.ops[0], ast.In) and lab == "T")) and \
                            all(isinstance(x, ast.Constant) and isinstance(x.value, bytes) and not (set(x.value) & {10, 13, 59}) for x in te.comparators[0].elts):
                        ok = True
            ctx.check(ok, "cookie/pieces-sanitised", f"{q} | {src(st)[:70]} | piece {src(e)[:50]}",
                      f"cookie piece {src(e)} is neither a literal nor _sanitize()d nor checked against a constant list: CR/LF/';' in it inject a header or a cookie attribute")
    ctx.floor("cookie/pieces-sanitised", count, 12)
    mod = ctx.mod(HTTP)
    for a in class_accesses(mod, ctx.cls(HTTP, "Request"), {"cookies"}):
        ctx.check((a.func, a.kind) in (("Request.__init__", "rebind-empty"), ("Request.addCookie", "append")), "cookie/who-may-write",
                  ctx.construct(Q + a.func, a.node), "Request.cookies is mutated outside addCookie")


def _write_body(ctx, I):
    f = ctx.func(HTTP, "Request.write")
    g = ctx.cfg(f)
    q = QR + "write"
    dp = f.args.args[1].arg
    consts = I.consts
    nb = consts.get("NO_BODY_CODES")
    ctx.check(nb is not None and set(nb) == {204, 304}, "body/no-body-codes", Q + "NO_BODY_CODES", f"NO_BODY_CODES is {nb!r}; 204 and 304 responses must not carry a body")
    wh = calls_named(g, "self.channel.writeHeaders")
    setc = assigns_self(g, "chunked", lambda v: isinstance(v, ast.Constant) and bool(v.value))
    te = [n for n in calls_named(g, "self.responseHeaders.setRawHeaders") if "transfer-encoding" in src(g.node(n).ast).lower()]
    bchunk = [n for n in calls_named(g, "self.channel.writeSequence", "self.channel.write", "self.transport.writeSequence", "self.transport.write") if call_in(g.node(n).ast, "toChunk")]
    bplain = [n for n in calls_named(g, "self.channel.write", "self.transport.write") if n not in bchunk]
    noop = assigns_self(g, "write")
    ctx.need(wh and setc and te and bchunk and bplain, "writeHeaders / chunked flag / Transfer-Encoding header / body writes in Request.write")
    for n in te:
        c = call_in(g.node(n).ast, "self.responseHeaders.setRawHeaders")
        ok = len(c.args) == 2 and isinstance(c.args[0], ast.Constant) and isinstance(c.args[1], ast.List) and len(c.args[1].elts) == 1 and is_const(c.args[1].elts[0], b"chunked")
        ctx.check(ok, "body/chunked-header-value", ctx.construct(q, c), "the Transfer-Encoding header announced is not exactly 'chunked'")
    for n in bchunk:
        c = call_in(g.node(n).ast, "toChunk")
        ctx.check(len(c.args) == 1 and src(c.args[0]) == dp, "body/chunk-is-the-data", ctx.construct(q, c), "the chunk written is not the data passed to write()")
    for n in bplain:
        c = call_in(g.node(n).ast, "self.channel.write", "self.transport.write")
        ctx.check(len(c.args) == 1 and src(c.args[0]) == dp, "body/chunk-is-the-data", ctx.construct(q, c), "the bytes written are not the data passed to write()")
    for n in noop:
        v = g.node(n).ast.value
        ok = isinstance(v, ast.Lambda) and not any(isinstance(x, ast.Call) for x in ast.walk(v.body))
        ctx.check(ok, "body/later-writes-disabled", ctx.construct(q, g.node(n).ast), "the replacement for write() on a body-less response still writes")

    def hit(vis, nodes):
        return any(n in vis for n in nodes)
    CLTERM = "self.responseHeaders.getRawHeaders(b'Content-Length')"
    for ver, cl, meth, code, data in itertools.product((b"HTTP/1.1", b"HTTP/1.0"), (None, [b"5"]), (b"GET", b"HEAD", b"POST"), (200, 204, 304, 404), (b"xyz", b"")):
        env = make_env({"self.finished": 0, "self._disconnected": False, "self.startedWriting": 0, "self.clientproto": ver, CLTERM: cl,
                        "self.method": meth, "self.code": code, dp: data, "self.chunked": 0, "self.lastModified": None, "self.etag": None,
                        "self.cookies": [], "self.sentLength": 0})
        vis = walk(g, I, env)
        want_chunked = ver == b"HTTP/1.1" and cl is None and meth != b"HEAD" and code not in (204, 304)
        nobody = meth == b"HEAD" or code in (204, 304)
        label = f"{q} | {ver.decode()} CL={'set' if cl else 'none'} {meth.decode()} {code} data={'yes' if data else 'empty'}"
        ctx.check(hit(vis, wh), "body/headers-on-first-write", label, "the first write does not emit the headers")
        ctx.check(hit(vis, setc) == want_chunked and hit(vis, te) == want_chunked, "body/chunked-iff", label,
                  ("chunked coding is not selected although HTTP/1.1, no Content-Length, body allowed" if want_chunked else
                   "chunked coding is selected although the response has a Content-Length / is HTTP/1.0 / HEAD / 204 / 304 (framing inconsistent with the body)"))
        if nobody:
            ctx.check(not hit(vis, bchunk) and not hit(vis, bplain) and hit(vis, noop), "body/none-for-head-204-304", label,
                      "a HEAD / 204 / 304 response writes body bytes, or later writes are not disabled")
        elif data:
            ctx.check(hit(vis, bchunk) == want_chunked and hit(vis, bplain) == (not want_chunked), "body/encoding-matches-framing", label,
                      "the body bytes are not written in the coding announced by the headers")
        else:
            ctx.check(not hit(vis, bchunk) and not hit(vis, bplain), "body/empty-write-not-encoded", label,
                      "an empty write emits bytes: with chunked coding that is the terminator '0 CRLF CRLF' in the middle of the body")
    for ch, data in itertools.product((0, 1), (b"xyz", b"")):
        env = make_env({"self.finished": 0, "self._disconnected": False, "self.startedWriting": 1, dp: data, "self.chunked": ch, "self.sentLength": 0})
        vis = walk(g, I, env)
        label = f"{q} | later write chunked={ch} data={'yes' if data else 'empty'}"
        ctx.check(not hit(vis, wh), "body/headers-once", label, "the header block is written again on a later write")
        if data:
            ctx.check(hit(vis, bchunk) == bool(ch) and hit(vis, bplain) == (not ch), "body/encoding-matches-framing", label, "later body bytes are not written in the announced coding")
        else:
            ctx.check(not hit(vis, bchunk) and not hit(vis, bplain), "body/empty-write-not-encoded", label, "an empty later write emits bytes (chunked terminator)")
    for fin, disc in ((1, False), (0, True)):
        env = make_env({"self.finished": fin, "self._disconnected": disc, "self.startedWriting": 1, dp: b"x", "self.chunked": 1})
        vis = walk(g, I, env)
        ctx.check(not hit(vis, bchunk + bplain + wh), "body/no-write-after-finish", f"{q} | finished={fin} disconnected={disc}",
                  "bytes are written after finish() / after the connection was lost")
    sw = assigns_self(g, "startedWriting", lambda v: isinstance(v, ast.Constant) and bool(v.value))
    w = ordered(g, sw, wh)
    ctx.check(bool(sw) and w is None, "body/headers-once", q + " | startedWriting", "startedWriting is not set before the headers are written", witness=g.describe(w))


def _persistence_framing(ctx, I):
    """Persistence and framing agree: whenever HTTPChannel.checkPersistence keeps the connection open after a response
    that may carry a body, Request.write makes that response self-delimiting (Content-Length present or chunked); a
    close-delimited response is allowed only on a connection that is then closed.  Both decisions are taken from the code:
    checkPersistence is walked under (version, Connection header), Request.write under (version, Content-Length, method, code)."""
    fc = ctx.func(HTTP, "HTTPChannel.checkPersistence")
    gc = ctx.cfg(fc)
    qc = Q + "HTTPChannel.checkPersistence"
    rq, vp = fc.args.args[1].arg, fc.args.args[2].arg
    fw = ctx.func(HTTP, "Request.write")
    gw = ctx.cfg(fw)
    dp = fw.args.args[1].arg
    setc = assigns_self(gw, "chunked", lambda v: isinstance(v, ast.Constant) and bool(v.value))
    ctx.need(setc, "self.chunked = 1 in Request.write")
    # the value stored in self.persistent is this decision for the version that becomes clientproto
    fa = ctx.func(HTTP, "HTTPChannel.allHeadersReceived")
    sets = [st for st in ast.walk(fa) if isinstance(st, ast.Assign) and any(self_attr(t, "persistent") for t in st.targets)]
    ok = bool(sets) and all(isinstance(st.value, ast.Call) and call_name(st.value) == "self.checkPersistence" and len(st.value.args) == 2 and
                            src(st.value.args[1]) == "self._version" for st in sets)
    ctx.check(ok, "persistence/decision-stored", Q + "HTTPChannel.allHeadersReceived", "self.persistent is not checkPersistence(request, self._version)")
    CLTERM = "self.responseHeaders.getRawHeaders(b'Content-Length')"

    def chunked(ver, cl, meth, code):
        env = make_env({"self.finished": 0, "self._disconnected": False, "self.startedWriting": 0, "self.clientproto": ver, CLTERM: cl, "self.method": meth,
                        "self.code": code, dp: b"x", "self.chunked": 0, "self.lastModified": None, "self.etag": None, "self.cookies": [], "self.sentLength": 0})
        und = []
        vis = walk(gw, I, env, undecided=und)
        loose = [u for u in und if gw.path([u], setc, edge_ok=no_exc)]
        if loose:
            raise AnalysisError(f"Request.write: the chunked decision depends on a term the evaluator cannot fix: {src(gw.node(loose[0]).ast)[:80]}")
        return any(n in vis for n in setc)

    for ver in (b"HTTP/1.1", b"HTTP/1.0"):
        for conn in (None, [b"close"], [b"keep-alive"], [b"Keep-Alive"], [b"keep-alive close"], [b"close keep-alive"], [b"upgrade"], [b"KEEP-ALIVE"]):
            results = []

            def on(node, e, results=results):
                if node.kind == "stmt" and isinstance(node.ast, ast.Return) and node.ast.value is not None:
                    try:
                        results.append(bool(I.ev(node.ast.value, e)))
                    except Exception:
                        results.append(None)
            walk(gc, I, make_env({vp: ver, f"{rq}.requestHeaders.getRawHeaders(b'Connection')": conn}), on_node=on)
            label = f"{qc} | {ver.decode()} Connection: {conn[0].decode() if conn else '(absent)'}"
            if len(set(results)) != 1 or results[0] is None:
                raise AnalysisError(f"checkPersistence decision not decidable for {label}: {results}")
            persistent = results[0]
            bad = None
            for cl in (None, [b"5"]):
                for meth in (b"GET", b"HEAD", b"POST"):
                    for code in (200, 204, 304, 404):
                        delimited = cl is not None or meth == b"HEAD" or code in (204, 304) or chunked(ver, cl, meth, code)
                        if persistent and not delimited and bad is None:
                            bad = (meth, code)
            ctx.check(bad is None, "persistence/response-self-delimiting", label,
                      (f"the connection stays open after a {ver.decode()} {bad[0].decode()} {bad[1]} response that has neither Content-Length nor chunked coding: "
                       "its end is never marked and the next response is read as part of its body") if bad else "",
                      detail=f"persistent={persistent}; every body-carrying response is Content-Length/chunked delimited or the connection closes")
            if ver == b"HTTP/1.1" and conn is not None and b"close" in [t.lower() for t in conn[0].split(b" ")]:
                ctx.check(not persistent, "persistence/close-honoured", label, "an HTTP/1.1 request with 'Connection: close' keeps the connection persistent")


def _finish(ctx, I):
    f = ctx.func(HTTP, "Request.finish")
    g = ctx.cfg(f)
    q = QR + "finish"
    force = calls_named(g, "self.write")
    term = [n for n in calls_named(g, "self.channel.write", "self.transport.write", "self.channel.writeSequence")]
    ctx.check(bool(term), "finish/terminator", q, "finish() never writes the last-chunk terminator")
    for n in term:
        c = call_in(g.node(n).ast, "self.channel.write", "self.transport.write", "self.channel.writeSequence")
        ctx.check(len(c.args) == 1 and is_const(c.args[0], b"0\r\n\r\n"), "finish/terminator", ctx.construct(q, c), "the chunked terminator is not exactly 0 CRLF CRLF")
    for n in force:
        c = call_in(g.node(n).ast, "self.write")
        ctx.check(len(c.args) == 1 and is_const(c.args[0], b""), "finish/forces-headers", ctx.construct(q, c), "forcing the headers out adds body bytes")
    ctx.check(bool(force), "finish/forces-headers", q, "finish() on a response that never wrote does not emit the headers")

    def hit(vis, nodes):
        return any(n in vis for n in nodes)
    for sw, ch in itertools.product((0, 1), (0, 1)):
        env = make_env({"self._disconnected": False, "self.finished": 0, "self.startedWriting": sw, "self.chunked": ch, "self.queued": False})
        vis = walk(g, I, env)
        label = f"{q} | startedWriting={sw} chunked={ch}"
        ctx.check(hit(vis, force) == (not sw), "finish/forces-headers", label, "headers are not forced out exactly when nothing was written yet")
        if sw:
            ctx.check(hit(vis, term) == bool(ch), "finish/terminator-iff-chunked", label,
                      "the terminator is written for a non-chunked response / missing for a chunked one")
    for fin, disc in ((1, False), (0, True)):
        env = make_env({"self._disconnected": disc, "self.finished": fin, "self.startedWriting": 1, "self.chunked": 1, "self.queued": False})
        vis = walk(g, I, env)
        ctx.check(not hit(vis, term + force), "finish/once", f"{q} | finished={fin} disconnected={disc}",
                  "a second finish() (or finish after connection loss) writes the terminator / headers again")
    for t in term:
        back = g.path([t], force, edge_ok=no_exc, strict=True)
        tests = [x for x in g.ids(lambda n: n.kind == "test") if src(g.node(x).ast) == "self.startedWriting"]
        w = ordered(g, tests, [t]) if tests else None
        ctx.check(back is None and bool(tests) and w is None, "finish/headers-before-terminator", ctx.construct(q, g.node(t).ast),
                  "the terminator can be written before the headers were forced out", witness=g.describe(back or w))


def check(ctx):
    I = http_interp(ctx)
    for name, fn in (("sanitisers", lambda: _sanitisers(ctx, I)), ("token validator", lambda: check_token_validator(ctx, I)),
                     ("header name encoder", lambda: check_name_encoder(ctx, I)), ("Headers store", lambda: _headers_store(ctx)),
                     ("writeHeaders", lambda: _write_headers(ctx)), ("status line provenance", lambda: _status_provenance(ctx)),
                     ("cookies", lambda: _cookies(ctx)), ("Request.write", lambda: _write_body(ctx, I)), ("Request.finish", lambda: _finish(ctx, I)),
                     ("persistence vs framing", lambda: _persistence_framing(ctx, I))):
        with ctx.section(name):
            fn()


MUTANTS = [
    Mutant('token-regex-dollar-accepts-trailing-newline', ABNF, '    for c in b:\n        if c not in (\n            b"ABCDEFGHIJKLMNOPQRSTUVWXYZabcdefghijklmnopqrstuvwxyz"  # ALPHA\n            b"0123456789"  # DIGIT\n            b"!#$%&\'*+-.^_`|~"\n        ):\n            return False\n    return b != b""\n', '    return _TOKEN_RE.match(b) is not None\n', more=[(ABNF, '"""\n\n\ndef _istoken', '"""\n\nimport re\n\n_TOKEN_RE = re.compile(rb"[A-Za-z0-9!#$%&\'*+\\-.^_`|~]+$")\n\n\ndef _istoken')], expect_rule='byte-class/exact'),
    Mutant('name-cached-by-helper-before-validation', HDRS, '        if not _istoken(bytes_name):\n            raise InvalidHeaderName(bytes_name)\n\n        result = b"-".join([word.capitalize() for word in bytes_name.split(b"-")])\n', '        result = self._remember(name, bytes_name)\n        if not _istoken(result):\n            raise InvalidHeaderName(bytes_name)\n        return result\n\n    def _remember(self, name, bytes_name):\n        result = b"-".join([word.capitalize() for word in bytes_name.split(b"-")])\n', expect_rule='header-name/cache-after-validation'),
    Mutant("http10-keep-alive-made-persistent", HTTP, "                return True\n        else:\n            return False\n\n    def requestDone", "                return True\n        else:\n            return b\"keep-alive\" in tokens\n\n    def requestDone",
           expect_rule="persistence/response-self-delimiting"),
    Mutant("every-version-persistent", HTTP, "        if version == b\"HTTP/1.1\":\n            if b\"close\" in tokens:", "        if version.startswith(b\"HTTP/1.\"):\n            if b\"close\" in tokens:",
           expect_rule="persistence/response-self-delimiting"),
    Mutant("F20-revert-reason-unsanitised", HTTP, "            reason = _sanitizeLinearWhitespace(self.code_message)", "            reason = self.code_message",
           expect_rule="status/reason-sanitised"),
    Mutant("addRawHeader-skips-sanitiser", HDRS, "        self._rawHeaders.setdefault(_nameEncoder.encode(name), []).append(\n            _sanitizeLinearWhitespace(\n                value.encode(\"utf8\") if isinstance(value, str) else value\n            )\n        )",
           "        self._rawHeaders.setdefault(_nameEncoder.encode(name), []).append(\n            value.encode(\"utf8\") if isinstance(value, str) else value\n        )", expect_rule="headers/value-sanitised"),
    Mutant("setRawHeaders-skips-sanitiser", HDRS, "            encodedValues.append(_sanitizeLinearWhitespace(_v))", "            encodedValues.append(_v)", expect_rule="headers/value-sanitised"),
    Mutant("setRawHeaders-raw-name", HDRS, "        self._rawHeaders[_name] = encodedValues", "        self._rawHeaders[name] = encodedValues", expect_rule="headers/name-encoded"),
    Mutant("sanitiser-leaves-CR", HDRS, "    return b\" \".join(headerComponent.splitlines())", "    return b\" \".join(headerComponent.split(b\"\\n\"))", expect_rule="sanitiser/no-line-breaks"),
    Mutant("sanitiser-joins-without-space", HDRS, "    return b\" \".join(headerComponent.splitlines())", "    return b\"\".join(headerComponent.splitlines())", expect_rule="sanitiser/no-line-breaks"),
    Mutant("name-not-token-checked", HDRS, "        if not _istoken(bytes_name):\n            raise InvalidHeaderName(bytes_name)\n", "", expect_rule="header-name/"),
    Mutant("cookie-semicolon-kept", HTTP, "            return _sanitizeLinearWhitespace(val).replace(b\";\", b\" \")", "            return _sanitizeLinearWhitespace(val)", expect_rule="sanitiser/cookie-piece"),
    Mutant("cookie-path-unsanitised", HTTP, "cookie + b\"; Path=\" + _sanitize(_ensureBytes(path))", "cookie + b\"; Path=\" + _ensureBytes(path)", expect_rule="cookie/pieces-sanitised"),
    Mutant("cookie-samesite-unchecked", HTTP, "            if sameSite not in [b\"lax\", b\"strict\"]:\n                raise ValueError(\"Invalid value for sameSite: \" + repr(sameSite))\n", "",
           expect_rule="cookie/pieces-sanitised"),
    Mutant("empty-write-chunk-encoded", HTTP, "        if data:\n            if self.chunked:", "        if True:\n            if self.chunked:", expect_rule="body/empty-write-not-encoded"),
    Mutant("body-for-204-304", HTTP, "            # for certain result codes, we should never return any data\n            if self.code in NO_BODY_CODES:\n                self.write = lambda data: None\n                return\n", "",
           expect_rule="body/none-for-head-204-304"),
    Mutant("head-later-writes-enabled", HTTP, "            if self.method == b\"HEAD\":\n                self.write = lambda data: None\n                return", "            if self.method == b\"HEAD\":\n                return",
           expect_rule="body/none-for-head-204-304"),
    Mutant("chunked-with-content-length", HTTP, "                and (self.responseHeaders.getRawHeaders(b\"Content-Length\") is None)\n", "", expect_rule="body/chunked-iff"),
    Mutant("chunked-for-head", HTTP, "                and self.method != b\"HEAD\"\n                and self.code not in NO_BODY_CODES", "                and self.code not in NO_BODY_CODES", expect_rule="body/chunked-iff"),
    Mutant("no-body-codes-lose-304", HTTP, "NO_BODY_CODES = (204, 304)", "NO_BODY_CODES = (204,)", expect_rule="body/"),
    Mutant("chunk-size-decimal", HTTP, "networkString(f\"{len(data):x}\")", "networkString(f\"{len(data):d}\")", expect_rule="chunk/encoding"),
    Mutant("plain-and-chunked-swapped", HTTP, "            if self.chunked:\n                self.channel.writeSequence(toChunk(data))\n            else:\n                self.channel.write(data)",
           "            if not self.chunked:\n                self.channel.writeSequence(toChunk(data))\n            else:\n                self.channel.write(data)", expect_rule="body/encoding-matches-framing"),
    Mutant("terminator-unconditional", HTTP, "        if self.chunked:\n            # write last chunk and closing CRLF\n            self.channel.write(b\"0\\r\\n\\r\\n\")", "        if True:\n            self.channel.write(b\"0\\r\\n\\r\\n\")",
           expect_rule="finish/terminator-iff-chunked"),
    Mutant("terminator-short", HTTP, "            self.channel.write(b\"0\\r\\n\\r\\n\")", "            self.channel.write(b\"0\\r\\n\")", expect_rule="finish/terminator"),
    Mutant("finish-does-not-force-headers", HTTP, "        if not self.startedWriting:\n            # write headers\n            self.write(b\"\")\n\n        if self.chunked:", "        if self.chunked:", expect_rule="finish/"),
    Mutant("header-block-unterminated", HTTP, "        headerSequence.append(b\"\\r\\n\")\n        self.transport.writeSequence(headerSequence)", "        self.transport.writeSequence(headerSequence)", expect_rule="wire/header-block-terminated"),
    Mutant("foreign-headers-not-rebuilt", HTTP, "                sanitizedHeaders.addRawHeader(name, value)\n            headers = sanitizedHeaders\n", "                sanitizedHeaders.addRawHeader(name, value)\n            headers = Headers(dict(headers))\n",
           expect_rule="headers/foreign-iterable-rebuilt"),
    Mutant("status-line-no-space", HTTP, "headerSequence = [version, b\" \", code, b\" \", reason, b\"\\r\\n\"]", "headerSequence = [version, b\" \", code, reason, b\"\\r\\n\"]", expect_rule="wire/status-line"),
    Mutant("etag-set-after-headers-written", HTTP, "            if self.etag is not None:\n                self.responseHeaders.setRawHeaders(b\"ETag\", [self.etag])\n\n", "",
           more=[(HTTP, "            self.channel.writeHeaders(version, code, reason, self.responseHeaders)\n", "            self.channel.writeHeaders(version, code, reason, self.responseHeaders)\n            if self.etag is not None:\n                self.responseHeaders.setRawHeaders(b\"ETag\", [self.etag])\n")],
           expect_rule="headers/complete-before-written"),
]
SILENT = [
    Silent('token-regex-Z-anchored', ABNF, '    for c in b:\n        if c not in (\n            b"ABCDEFGHIJKLMNOPQRSTUVWXYZabcdefghijklmnopqrstuvwxyz"  # ALPHA\n            b"0123456789"  # DIGIT\n            b"!#$%&\'*+-.^_`|~"\n        ):\n            return False\n    return b != b""\n', '    return _TOKEN_RE.match(b) is not None\n', more=[(ABNF, '"""\n\n\ndef _istoken', '"""\n\nimport re\n\n_TOKEN_RE = re.compile(rb"[A-Za-z0-9!#$%&\'*+\\-.^_`|~]+\\Z")\n\n\ndef _istoken')]),
    Silent('token-regex-fullmatch', ABNF, '    for c in b:\n        if c not in (\n            b"ABCDEFGHIJKLMNOPQRSTUVWXYZabcdefghijklmnopqrstuvwxyz"  # ALPHA\n            b"0123456789"  # DIGIT\n            b"!#$%&\'*+-.^_`|~"\n        ):\n            return False\n    return b != b""\n', '    return _TOKEN_RE.fullmatch(b) is not None\n', more=[(ABNF, '"""\n\n\ndef _istoken', '"""\n\nimport re\n\n_TOKEN_RE = re.compile(rb"[A-Za-z0-9!#$%&\'*+\\-.^_`|~]+")\n\n\ndef _istoken')]),
    Silent('name-cached-by-helper-after-validation', HDRS, '        if not _istoken(bytes_name):\n            raise InvalidHeaderName(bytes_name)\n\n        result = b"-".join([word.capitalize() for word in bytes_name.split(b"-")])\n', '        if not _istoken(bytes_name):\n            raise InvalidHeaderName(bytes_name)\n        return self._remember(name, bytes_name)\n\n    def _remember(self, name, bytes_name):\n        result = b"-".join([word.capitalize() for word in bytes_name.split(b"-")])\n'),
    Silent("persistence-early-return", HTTP, "        if version == b\"HTTP/1.1\":\n            if b\"close\" in tokens:\n                request.responseHeaders.setRawHeaders(b\"Connection\", [b\"close\"])\n                return False\n            else:\n                return True\n        else:\n            return False\n",
           "        if version != b\"HTTP/1.1\":\n            return False\n        if b\"close\" not in tokens:\n            return True\n        request.responseHeaders.setRawHeaders(b\"Connection\", [b\"close\"])\n        return False\n"),
    Silent("reason-sanitised-inline", HTTP, "            reason = _sanitizeLinearWhitespace(self.code_message)\n", "",
           more=[(HTTP, "self.channel.writeHeaders(version, code, reason, self.responseHeaders)", "self.channel.writeHeaders(\n                version, code, _sanitizeLinearWhitespace(self.code_message), self.responseHeaders\n            )")]),
    Silent("rename-reason-local", HTTP, "            reason = _sanitizeLinearWhitespace(self.code_message)\n", "            phrase = _sanitizeLinearWhitespace(self.code_message)\n",
           more=[(HTTP, "self.channel.writeHeaders(version, code, reason, self.responseHeaders)", "self.channel.writeHeaders(version, code, phrase, self.responseHeaders)")]),
    Silent("chunk-size-percent-format", HTTP, "networkString(f\"{len(data):x}\")", "networkString(\"%x\" % (len(data),))"),
    Silent("chunk-size-uppercase-hex", HTTP, "networkString(f\"{len(data):x}\")", "networkString(f\"{len(data):X}\")"),
    Silent("empty-write-early-return", HTTP, "        if data:\n            if self.chunked:\n                self.channel.writeSequence(toChunk(data))\n            else:\n                self.channel.write(data)",
           "        if not data:\n            return\n        if self.chunked:\n            self.channel.writeSequence(toChunk(data))\n        else:\n            self.channel.write(data)"),
    Silent("head-and-no-body-merged", HTTP, "            if self.method == b\"HEAD\":\n                self.write = lambda data: None\n                return\n\n            # for certain result codes, we should never return any data\n            if self.code in NO_BODY_CODES:\n                self.write = lambda data: None\n                return",
           "            if self.method == b\"HEAD\" or self.code in NO_BODY_CODES:\n                self.write = lambda data: None\n                return"),
    Silent("no-body-codes-as-frozenset", HTTP, "NO_BODY_CODES = (204, 304)", "NO_BODY_CODES = frozenset((304, 204))"),
    Silent("addRawHeader-with-locals", HDRS, "        self._rawHeaders.setdefault(_nameEncoder.encode(name), []).append(\n            _sanitizeLinearWhitespace(\n                value.encode(\"utf8\") if isinstance(value, str) else value\n            )\n        )",
           "        _name = _nameEncoder.encode(name)\n        raw = value.encode(\"utf8\") if isinstance(value, str) else value\n        self._rawHeaders.setdefault(_name, []).append(_sanitizeLinearWhitespace(raw))"),
    Silent("setRawHeaders-comprehension", HDRS, "        encodedValues: List[bytes] = []\n        for v in values:\n            if isinstance(v, str):\n                _v = v.encode(\"utf8\")\n            else:\n                _v = v\n            encodedValues.append(_sanitizeLinearWhitespace(_v))\n",
           "        encodedValues = [_sanitizeLinearWhitespace(v.encode(\"utf8\") if isinstance(v, str) else v) for v in values]\n"),
    Silent("sanitiser-replace-form", HDRS, "    return b\" \".join(headerComponent.splitlines())", "    return b\" \".join(headerComponent.replace(b\"\\r\\n\", b\"\\n\").replace(b\"\\r\", b\"\\n\").split(b\"\\n\"))", allow_error=False),
]
